(* Lemmas_ConstThm.v -- eval_body from its cases, the knot over the fuel, and the theorem: protected constants never change. *)
From PE2 Require Import Eval Run Lemmas_Copy Lemmas_DeepCopy Lemmas_Out Lemmas_Scope Lemmas_ConstLogic Lemmas_ConstEval Lemmas_ConstExpr.
From PE2 Require Lemmas_ConstCase_NInt Lemmas_ConstCase_NReal Lemmas_ConstCase_NBool Lemmas_ConstCase_NChar Lemmas_ConstCase_NStr Lemmas_ConstCase_NDate Lemmas_ConstCase_NNeg Lemmas_ConstCase_NArith Lemmas_ConstCase_NCmp Lemmas_ConstCase_NLogic Lemmas_ConstCase_NNot Lemmas_ConstCase_NCat Lemmas_ConstCase_NCast Lemmas_ConstCase_NAccess Lemmas_ConstCase_NAssign Lemmas_ConstCase_NPtrAssign Lemmas_ConstCase_NFnCall Lemmas_ConstCase_NDeclare Lemmas_ConstCase_NConst Lemmas_ConstCase_NArrDeclare Lemmas_ConstCase_NEnumDef Lemmas_ConstCase_NPtrDef Lemmas_ConstCase_NCompDef Lemmas_ConstCase_NIf Lemmas_ConstCase_NCase Lemmas_ConstCase_NWhile Lemmas_ConstCase_NRepeat Lemmas_ConstCase_NFor Lemmas_ConstCase_NBreak Lemmas_ConstCase_NContinue Lemmas_ConstCase_NProc Lemmas_ConstCase_NFunc Lemmas_ConstCase_NCall Lemmas_ConstCase_NReturn Lemmas_ConstCase_NOutput Lemmas_ConstCase_NInput Lemmas_ConstCase_NOpenFile Lemmas_ConstCase_NReadFile Lemmas_ConstCase_NWriteFile Lemmas_ConstCase_NCloseFile Lemmas_ConstCase_NSeek Lemmas_ConstCase_NGetRecord Lemmas_ConstCase_NPutRecord.
Require Import Lia.
Local Open Scope N_scope.

Section Level4.
Variables (ped repl : bool) (lim : limits) (self : evs).
Hypothesis He : forall (P : st -> Prop) n c, stable P -> tr P (ev_eval self n c) (fun r s => resok r s).
Hypothesis Hr : forall (P : st -> Prop) r c, stable P -> tr P (ev_resolve self r c) (fun _ _ => True).
Hypothesis Hce : forall (P : st -> Prop) v e c, stable P -> tr P (ev_case_equals self v e c) (fun _ _ => True).
Hypothesis Hcr : forall (P : st -> Prop) v lo hi c, stable P -> tr P (ev_case_range self v lo hi c) (fun _ _ => True).
Hypothesis Hb : forall (P : st -> Prop) bl c, stable P -> tr P (ev_run_block self bl c) (fun _ _ => True).
Hypothesis Hv : forall (P : st -> Prop) name ty cst owner, stable P -> tr P (ev_new_var self name ty cst owner) (newvar_post name ty cst owner).
Hypothesis Ha : forall (P : st -> Prop) name ty dims owner, stable P -> tr P (ev_new_array self name ty dims owner) (fun _ _ => True).
Hypothesis Hba : forall (P : st -> Prop) t params args vals c fc, stable P ->
  (forall s, P s -> ctxkind fc false s /\ Forall (fun v => resok v s) vals) -> tr P (ev_bind_args self t params args vals c fc) (fun _ _ => True).
Hypothesis Hp : forall (P : st -> Prop) t name args c, stable P -> tr P (ev_call_procedure self t name args c) (fun r s => resok r s).
Hypothesis Hf : forall (P : st -> Prop) t args c, stable P -> tr P (ev_call_function self t args c) (fun r s => resok r s).

Lemma hn_lookup_def {D} (table : ctx -> list (str * D)) c name global : hn (lookup_def table c name global).
Proof. unfold lookup_def. hnt ltac:(apply hn_lookup_def_aux). Qed.
Lemma hn_root_of id : hn (root_of id).
Proof. unfold root_of. hnt ltac:(apply hn_root_of_aux). Qed.

Ltac hknown := first [ apply hn_lookup_def | apply hn_lookup_def_aux | apply hn_root_of | apply hn_root_of_aux | apply hn_on_chain_aux | apply hn_nonrec_ancestor_aux | apply hn_abs_val
                     | (apply hn_mapM; intros ?) | (apply hn_iterM; intros ?) ].



Lemma tr_eval_body (P : st -> Prop) n c : stable P -> tr P (eval_body ped lim self n c) (fun r s => resok r s).
Proof.
  intros SP. destruct n.
  - eapply Lemmas_ConstCase_NInt.tr_eval_case; eauto.
  - eapply Lemmas_ConstCase_NReal.tr_eval_case; eauto.
  - eapply Lemmas_ConstCase_NBool.tr_eval_case; eauto.
  - eapply Lemmas_ConstCase_NChar.tr_eval_case; eauto.
  - eapply Lemmas_ConstCase_NStr.tr_eval_case; eauto.
  - eapply Lemmas_ConstCase_NDate.tr_eval_case; eauto.
  - eapply Lemmas_ConstCase_NNeg.tr_eval_case; eauto.
  - eapply Lemmas_ConstCase_NArith.tr_eval_case; eauto.
  - eapply Lemmas_ConstCase_NCmp.tr_eval_case; eauto.
  - eapply Lemmas_ConstCase_NLogic.tr_eval_case; eauto.
  - eapply Lemmas_ConstCase_NNot.tr_eval_case; eauto.
  - eapply Lemmas_ConstCase_NCat.tr_eval_case; eauto.
  - eapply Lemmas_ConstCase_NCast.tr_eval_case; eauto.
  - eapply Lemmas_ConstCase_NAccess.tr_eval_case; eauto.
  - eapply Lemmas_ConstCase_NAssign.tr_eval_case; eauto.
  - eapply Lemmas_ConstCase_NPtrAssign.tr_eval_case; eauto.
  - eapply Lemmas_ConstCase_NFnCall.tr_eval_case; eauto.
  - eapply Lemmas_ConstCase_NDeclare.tr_eval_case; eauto.
  - eapply Lemmas_ConstCase_NConst.tr_eval_case; eauto.
  - eapply Lemmas_ConstCase_NArrDeclare.tr_eval_case; eauto.
  - eapply Lemmas_ConstCase_NEnumDef.tr_eval_case; eauto.
  - eapply Lemmas_ConstCase_NPtrDef.tr_eval_case; eauto.
  - eapply Lemmas_ConstCase_NCompDef.tr_eval_case; eauto.
  - eapply Lemmas_ConstCase_NIf.tr_eval_case; eauto.
  - eapply Lemmas_ConstCase_NCase.tr_eval_case; eauto.
  - eapply Lemmas_ConstCase_NWhile.tr_eval_case; eauto.
  - eapply Lemmas_ConstCase_NRepeat.tr_eval_case; eauto.
  - eapply Lemmas_ConstCase_NFor.tr_eval_case; eauto.
  - eapply Lemmas_ConstCase_NBreak.tr_eval_case; eauto.
  - eapply Lemmas_ConstCase_NContinue.tr_eval_case; eauto.
  - eapply Lemmas_ConstCase_NProc.tr_eval_case; eauto.
  - eapply Lemmas_ConstCase_NFunc.tr_eval_case; eauto.
  - eapply Lemmas_ConstCase_NCall.tr_eval_case; eauto.
  - eapply Lemmas_ConstCase_NReturn.tr_eval_case; eauto.
  - eapply Lemmas_ConstCase_NOutput.tr_eval_case; eauto.
  - eapply Lemmas_ConstCase_NInput.tr_eval_case; eauto.
  - eapply Lemmas_ConstCase_NOpenFile.tr_eval_case; eauto.
  - eapply Lemmas_ConstCase_NReadFile.tr_eval_case; eauto.
  - eapply Lemmas_ConstCase_NWriteFile.tr_eval_case; eauto.
  - eapply Lemmas_ConstCase_NCloseFile.tr_eval_case; eauto.
  - eapply Lemmas_ConstCase_NSeek.tr_eval_case; eauto.
  - eapply Lemmas_ConstCase_NGetRecord.tr_eval_case; eauto.
  - eapply Lemmas_ConstCase_NPutRecord.tr_eval_case; eauto.
Qed.
End Level4.

(* ---- the knot: every fuel level ---- *)
Definition evs_ok (e : evs) : Prop :=
  (forall (P : st -> Prop) n c, stable P -> tr P (ev_eval e n c) (fun r s => resok r s)) /\
  (forall (P : st -> Prop) r c, stable P -> tr P (ev_resolve e r c) (fun _ _ => True)) /\
  (forall (P : st -> Prop) v x c, stable P -> tr P (ev_case_equals e v x c) (fun _ _ => True)) /\
  (forall (P : st -> Prop) v lo hi c, stable P -> tr P (ev_case_range e v lo hi c) (fun _ _ => True)) /\
  (forall (P : st -> Prop) bl c, stable P -> tr P (ev_run_block e bl c) (fun _ _ => True)) /\
  (forall (P : st -> Prop) name ty cst owner, stable P -> tr P (ev_new_var e name ty cst owner) (newvar_post name ty cst owner)) /\
  (forall (P : st -> Prop) name ty dims owner, stable P -> tr P (ev_new_array e name ty dims owner) (fun _ _ => True)) /\
  (forall (P : st -> Prop) t params args vals c fc, stable P ->
     (forall s, P s -> ctxkind fc false s /\ Forall (fun v => resok v s) vals) -> tr P (ev_bind_args e t params args vals c fc) (fun _ _ => True)) /\
  (forall (P : st -> Prop) t name args c, stable P -> tr P (ev_call_procedure e t name args c) (fun r s => resok r s)) /\
  (forall (P : st -> Prop) t args c, stable P -> tr P (ev_call_function e t args c) (fun r s => resok r s)).

Lemma evs_at_ok ped repl lim fuel : evs_ok (evs_at ped repl lim fuel).
Proof.
  induction fuel as [|f IH]; cbn [evs_at].
  - unfold evs_ok, evs_zero. cbn [ev_eval ev_resolve ev_case_equals ev_case_range ev_run_block ev_new_var ev_new_array ev_bind_args ev_call_procedure ev_call_function].
    repeat match goal with |- _ /\ _ => split end; intros; (apply tr_failm; exact I).
  - destruct IH as [He [Hr [Hce [Hcr [Hb [Hv [Ha [Hba [Hp Hf]]]]]]]]].
    unfold evs_ok, evs_step. cbn [ev_eval ev_resolve ev_case_equals ev_case_range ev_run_block ev_new_var ev_new_array ev_bind_args ev_call_procedure ev_call_function].
    repeat match goal with |- _ /\ _ => split end; intros.
    + eapply tr_eval_body; eauto.
    + eapply tr_resolve_body; eauto.
    + eapply tr_case_equals_body; eauto.
    + eapply tr_case_range_body; eauto.
    + eapply tr_run_block_body; eauto.
    + eapply tr_new_var_body; eauto.
    + eapply tr_new_array_body; eauto.
    + eapply tr_bind_args_body; eauto.
    + eapply tr_call_procedure_body; eauto.
    + eapply tr_call_function_body; eauto.
Qed.

(* ---- the theorem ---- *)
Theorem run_block_keeps_constants ped repl lim fuel bl c s : Inv s ->
  Inv (snd (run_block ped repl lim fuel bl c s)) /\ K s (snd (run_block ped repl lim fuel bl c s)).
Proof.
  intros HI. destruct (evs_at_ok ped repl lim fuel) as [_ [_ [_ [_ [Hb _]]]]].
  destruct (Hb (fun _ => True) bl c stable_true s HI I) as [A [B _]]. split; assumption.
Qed.

(* a CONSTANT of primitive type owned by an ordinary context holds the same cell -- name, type, flag, owner and VALUE -- after any block *)
Corollary protected_constant_unchanged ped repl lim fuel bl c s id cl : Inv s ->
  nm_get id (s_cells s) = Some cl -> c_const cl = true -> prim_kind (dk (c_type cl)) = true -> plain_ctx s (c_owner cl) ->
  nm_get id (s_cells (snd (run_block ped repl lim fuel bl c s))) = Some cl.
Proof.
  intros HI E C1 C2 C3. destruct (run_block_keeps_constants ped repl lim fuel bl c s HI) as [_ HK].
  apply (k_prot _ _ HK id cl E). repeat split; assumption.
Qed.

(* the premise holds in the initial state of every run *)
Lemma Inv_init stdin fs rnd : Inv (init_state stdin fs rnd).
Proof.
  constructor.
  - apply hb_init.
  - intros rc cx nm id E Hr Hin. unfold init_state in E. cbn [s_ctxs] in E.
    destruct (N.eq_dec root_id rc) as [<-|Hne]; [rewrite nm_get_put_same in E; inversion E; subst cx; discriminate Hr|].
    rewrite nm_get_put_other in E by exact Hne. rewrite nm_get_empty in E. discriminate.
  - intros a ar e E. unfold init_state in E. cbn [s_arrs] in E. rewrite nm_get_empty in E. discriminate.
  - intros id cl tn c E. unfold init_state in E. cbn [s_cells] in E. rewrite nm_get_empty in E. discriminate.
  - intros id cx r tn c E Er. unfold init_state in E. cbn [s_ctxs] in E.
    destruct (N.eq_dec root_id id) as [<-|Hne]; [rewrite nm_get_put_same in E; inversion E; subst cx; discriminate Er|].
    rewrite nm_get_put_other in E by exact Hne. rewrite nm_get_empty in E. discriminate.
  - intros id cl E. unfold init_state in E. cbn [s_cells] in E. rewrite nm_get_empty in E. discriminate.
  - intros id cx r p E Er. unfold init_state in E. cbn [s_ctxs] in E.
    destruct (N.eq_dec root_id id) as [<-|Hne]; [rewrite nm_get_put_same in E; inversion E; subst cx; discriminate Er|].
    rewrite nm_get_put_other in E by exact Hne. rewrite nm_get_empty in E. discriminate.
  - intros id cl E. unfold init_state in E. cbn [s_cells] in E. rewrite nm_get_empty in E. discriminate.
  - intros id cx r p E Er. unfold init_state in E. cbn [s_ctxs] in E.
    destruct (N.eq_dec root_id id) as [<-|Hne]; [rewrite nm_get_put_same in E; inversion E; subst cx; discriminate Er|].
    rewrite nm_get_put_other in E by exact Hne. rewrite nm_get_empty in E. discriminate.
Qed.

(* ---- no value is ever reinterpreted as another type ---- *)
(* after any block, every cell that exists holds a payload of the kind its declared type says *)
Corollary cells_hold_values_of_their_type ped repl lim fuel bl c s id cl : Inv s ->
  nm_get id (s_cells (snd (run_block ped repl lim fuel bl c s))) = Some cl -> payload_kind (c_val cl) = dk (c_type cl).
Proof.
  intros HI E. destruct (run_block_keeps_constants ped repl lim fuel bl c s HI) as [HI' _]. exact (i_kind _ HI' id cl E).
Qed.
(* ... and, for an enumerated, pointer or record value, of the user type of that NAME *)
Corollary cells_hold_values_of_their_named_type ped repl lim fuel bl c s id cl : Inv s ->
  nm_get id (s_cells (snd (run_block ped repl lim fuel bl c s))) = Some cl -> named_ok (c_val cl) (c_type cl).
Proof.
  intros HI E. destruct (run_block_keeps_constants ped repl lim fuel bl c s HI) as [HI' _]. exact (i_name _ HI' id cl E).
Qed.
(* in particular: a variable never holds a value of another enumerated type than its own *)
Corollary enum_variables_hold_their_own_type ped repl lim fuel bl c s id cl tn i : Inv s ->
  nm_get id (s_cells (snd (run_block ped repl lim fuel bl c s))) = Some cl -> c_val cl = PEnum tn i ->
  dk (c_type cl) = KEnum /\ dname (c_type cl) = Some tn.
Proof.
  intros HI E Ev. split.
  - rewrite <- (cells_hold_values_of_their_type ped repl lim fuel bl c s id cl HI E). rewrite Ev. reflexivity.
  - apply (cells_hold_values_of_their_named_type ped repl lim fuel bl c s id cl HI E). rewrite Ev. reflexivity.
Qed.
(* a value an expression or statement returns is of the kind its result type says, and the state it leaves satisfies the invariant again *)
Theorem results_are_of_their_type ped repl lim fuel n c s r s' p : Inv s ->
  ev_eval (evs_at ped repl lim fuel) n c s = (Ok r, s') -> r_val r = Some p -> payload_kind p = dk (r_type r) /\ named_ok p (r_type r) /\ Inv s'.
Proof.
  intros HI E Ev. destruct (evs_at_ok ped repl lim fuel) as [He _].
  destruct (He (fun _ => True) n c stable_true s HI I) as [A [_ B]]. rewrite E in A, B. cbn [fst snd] in A, B. split; [exact (proj1 (proj2 (B p Ev)))|split; [exact (proj2 (proj2 (B p Ev)))|exact A]].
Qed.

(* ---- CONSTANT c = <literal> in an ordinary context creates such a cell ---- *)
Definition is_literal (v : node) : bool := match v with NInt _ | NReal _ | NBool _ | NChar _ | NStr _ => true | _ => false end.

Lemma literal_result ped repl lim f v c s r s' : is_literal v = true ->
  ev_eval (evs_at ped repl lim (S f)) v c s = (Ok r, s') -> s' = s /\ prim_kind (dk (r_type r)) = true /\ exists p, r_val r = Some p.
Proof.
  intros Hl E. destruct v; try discriminate Hl; cbn [evs_at evs_step ev_eval eval_body] in E.
  - inversion E; subst. cbn. eauto.
  - destruct (stod_literal (tval t)); inversion E; subst. cbn. eauto.
  - destruct (tt t); inversion E; subst; cbn; eauto.
  - destruct (tval t); inversion E; subst; cbn; eauto.
  - inversion E; subst. cbn. eauto.
Qed.

Theorem constant_statement_creates_a_protected_cell ped repl lim f t v id c s r s' :
  is_literal v = true -> plain_ctx s c ->
  ev_eval (evs_at ped repl lim (S (S f))) (NConst t v id) c s = (Ok r, s') ->
  exists cl, nm_get (s_next s) (s_cells s') = Some cl /\ protected_cell s' cl /\ c_name cl = tval id /\
             (exists cx, nm_get c (s_ctxs s') = Some cx /\ In (tval id, s_next s) (x_vars cx)).
Proof.
  intros Hl [cx [Ec Hk]] E. cbn [evs_at evs_step ev_eval] in E. unfold eval_body at 1 in E.
  apply bind_inv in E. destruct E as [rv [s1 [E1 E]]].
  change (evs_step ped repl lim (evs_at ped repl lim f)) with (evs_at ped repl lim (S f)) in E1.
  destruct (literal_result ped repl lim f v c s rv s1 Hl E1) as [-> [Hp [p Ep]]].
  apply bind_inv in E. destruct E as [ex [s2 [E2 E]]].
  assert (s2 = s) by (apply lookup_var_spec in E2; tauto). subst s2.
  destruct ex as [i|]; [destruct (@rt_error_fails result t c s) as [fl [s3 X]]; rewrite X in E; discriminate|].
  destruct (dt_is (r_type rv) KNone) eqn:Hn; [discriminate|].
  apply bind_inv in E. destruct E as [p' [s3 [E3 E]]]. unfold as_payload in E3. rewrite Ep in E3. inversion E3; subst p' s3. clear E3.
  apply bind_inv in E. destruct E as [nid [s3 [E3 E]]]. unfold fresh in E3. inversion E3; subst nid s3. clear E3.
  apply bind_inv in E. destruct E as [u [s3 [E3 E]]]. unfold put_cell, modify in E3. inversion E3; subst s3. clear E3.
  apply bind_inv in E. destruct E as [u2 [s4 [E4 E]]]. inversion E; subst. clear E.
  unfold add_var, upd_ctx, bind, get_ctx in E4. cbn [s_ctxs set_cells set_next] in E4. rewrite Ec in E4. unfold put_ctx, modify in E4. inversion E4; subst s'. clear E4.
  exists (mkCell (tval id) (r_type rv) true c p). cbn [s_cells set_ctxs set_cells]. split; [apply nm_get_put_same|]. split; [|split; [reflexivity|]].
  - split; [reflexivity|]. split; [exact Hp|]. cbn [c_owner]. exists (ctx_with_vars (x_vars cx ++ [(tval id, s_next s)]) cx). cbn [s_ctxs set_ctxs]. split; [apply nm_get_put_same|exact Hk].
  - exists (ctx_with_vars (x_vars cx ++ [(tval id, s_next s)]) cx). cbn [s_ctxs set_ctxs]. split; [apply nm_get_put_same|]. cbn. apply in_or_app. right. left. reflexivity.
Qed.

(* ---- one whole entry of a session (lex + parse + run as the main block): whatever it is and however it ends, what was
   established before it is still there ---- *)
Lemma heap_same_emit_warnings ws s : heap_same s (emit_warnings ws s).
Proof.
  unfold emit_warnings. generalize (rev ws). intros l. revert s. induction l as [|w r IH]; intros s; cbn [fold_left]; [apply heap_same_refl|].
  eapply heap_same_trans; [|apply IH]. repeat split.
Qed.
Lemma IK_heap_same s s' s'' : Inv s' /\ K s s' -> heap_same s' s'' -> Inv s'' /\ K s s''.
Proof. intros [A B] H. split; [eapply Inv_heap_same; eauto|eapply K_trans; [exact B|apply K_heap_same; exact H]]. Qed.

Theorem run_main_keeps ped lim fuel repl b root s : Inv s ->
  Inv (snd (run_main ped lim fuel repl b root s)) /\ K s (snd (run_main ped lim fuel repl b root s)).
Proof.
  intros HI. unfold run_main. pose proof (run_block_keeps_constants ped repl lim fuel b root s HI) as H.
  destruct (run_block ped repl lim fuel b root s) as [[u|f] s'] eqn:E; cbn [snd] in H |- *; [exact H|].
  assert (RT : forall t, Inv (snd (@rt_error unit t root s')) /\ K s (snd (@rt_error unit t root s'))).
  { intros t. pose proof (@ro_runtime_error_cls unit EOther t root s') as R. unfold rt_error. rewrite R. exact H. }
  destruct f; cbn [snd]; try exact H.
  - specialize (RT t). destruct (@rt_error unit t root s') as [[x|[]] s'']; cbn [snd] in *; exact RT.
  - specialize (RT t). destruct (@rt_error unit t root s') as [[x|[]] s'']; cbn [snd] in *; exact RT.
Qed.

Theorem run_source_keeps ped lim fuel repl src root s : Inv s ->
  Inv (snd (run_source ped lim fuel repl src root s)) /\ K s (snd (run_source ped lim fuel repl src root s)).
Proof.
  intros HI. unfold run_source. destruct (lex ped src) as [toks|e]; cbn [snd].
  2:{ eapply IK_heap_same; [split; [exact HI|apply K_refl]|repeat split]. }
  destruct (parse_program ped toks) as [b ps|k t ps|]; cbn [snd].
  - assert (H1 : Inv (emit_warnings (p_warns ps) s) /\ K s (emit_warnings (p_warns ps) s)).
    { eapply IK_heap_same; [split; [exact HI|apply K_refl]|apply heap_same_emit_warnings]. }
    destruct H1 as [I1 K1]. pose proof (run_main_keeps ped lim fuel repl b root _ I1) as [I2 K2].
    destruct (run_main ped lim fuel repl b root (emit_warnings (p_warns ps) s)) as [[|d|st0] s2]; cbn [snd] in *;
      try (split; [exact I2|eapply K_trans; eauto]).
    eapply IK_heap_same; [split; [exact I2|eapply K_trans; eauto]|repeat split].
  - eapply IK_heap_same; [eapply IK_heap_same; [split; [exact HI|apply K_refl]|apply heap_same_emit_warnings]|repeat split].
  - split; [exact HI|apply K_refl].
Qed.

(* what "K" says, spelled out: after any entry -- successful, rejected by the lexer or the parser, or failing at run time half-way
   through -- every variable that existed still exists with its name, type, CONSTANT flag and owner; every protected constant has
   its value; every array that existed is the same array (bounds, element type, element cells) *)
Corollary entry_keeps_variables_constants_arrays ped lim fuel repl src root s : Inv s ->
  let s' := snd (run_source ped lim fuel repl src root s) in
  (forall id cl, nm_get id (s_cells s) = Some cl -> exists cl', nm_get id (s_cells s') = Some cl' /\ same_meta cl cl') /\
  (forall id cl, nm_get id (s_cells s) = Some cl -> protected_cell s cl -> nm_get id (s_cells s') = Some cl) /\
  (forall id a, nm_get id (s_arrs s) = Some a -> nm_get id (s_arrs s') = Some a).
Proof.
  intros HI s'. destruct (run_source_keeps ped lim fuel repl src root s HI) as [_ HK]. fold s' in HK.
  split; [exact (k_meta _ _ HK)|]. split; [exact (k_prot _ _ HK)|exact (k_arr _ _ HK)].
Qed.

(* ---- arrays and records, from the invariant ---- *)
Corollary array_elements_are_variables_of_the_element_type ped repl lim fuel bl c s a ar e : Inv s ->
  nm_get a (s_arrs (snd (run_block ped repl lim fuel bl c s))) = Some ar -> In e (a_elems ar) ->
  exists cl, nm_get e (s_cells (snd (run_block ped repl lim fuel bl c s))) = Some cl /\ c_const cl = false /\ c_type cl = a_type ar.
Proof. intros HI E Hin. destruct (run_block_keeps_constants ped repl lim fuel bl c s HI) as [HI' _]. exact (i_elems _ HI' a ar e E Hin). Qed.
Corollary record_values_own_a_record_context ped repl lim fuel bl c s id cl tn rc : Inv s ->
  nm_get id (s_cells (snd (run_block ped repl lim fuel bl c s))) = Some cl -> c_val cl = PRec tn rc ->
  rec_ctx (snd (run_block ped repl lim fuel bl c s)) rc /\ dk (c_type cl) = KRec /\ dname (c_type cl) = Some tn.
Proof.
  intros HI E Ev. destruct (run_block_keeps_constants ped repl lim fuel bl c s HI) as [HI' _]. split; [eapply (i_recval _ HI'); eauto|]. split.
  - rewrite <- (i_kind _ HI' id cl E). rewrite Ev. reflexivity.
  - apply (i_name _ HI' id cl E). rewrite Ev. reflexivity.
Qed.

(* ---- no type confusion: whatever a block does, it never ends in the abort that stands for "a variable's cell holds an object of
   another class than its declared type says" (in the C++: a static_cast to the wrong class).  The abort sites are in assignment to
   enumerated / pointer / record variables, FOR, pointer assignment, dereference and field access; each is excluded by the kind
   clause of the heap invariant. ---- *)
Theorem run_block_never_finds_a_cell_of_the_wrong_class ped repl lim fuel bl c s : Inv s ->
  fst (run_block ped repl lim fuel bl c s) <> Fail (FCrash "cell payload disagrees with its type").
Proof.
  intros HI E. destruct (evs_at_ok ped repl lim fuel) as [_ [_ [_ [_ [Hb _]]]]].
  destruct (Hb (fun _ => True) bl c stable_true s HI I) as [_ [_ O]]. unfold run_block in E. rewrite E in O. cbn in O. discriminate O.
Qed.
Theorem eval_never_finds_a_cell_of_the_wrong_class ped repl lim fuel n c s : Inv s ->
  fst (ev_eval (evs_at ped repl lim fuel) n c s) <> Fail (FCrash "cell payload disagrees with its type").
Proof.
  intros HI E. destruct (evs_at_ok ped repl lim fuel) as [He _].
  destruct (He (fun _ => True) n c stable_true s HI I) as [_ [_ O]]. rewrite E in O. cbn in O. discriminate O.
Qed.

(* the same for the abort of Variable::set ("payload reinterpreted as another type"): a field-wise or element-wise copy never meets a
   destination of another kind than the value copied into it -- the layout comparison before the copy has established it *)
Theorem run_block_never_reinterprets_a_payload ped repl lim fuel bl c s : Inv s ->
  fst (run_block ped repl lim fuel bl c s) <> Fail (FCrash "Variable::set: payload reinterpreted as another type").
Proof.
  intros HI E. destruct (evs_at_ok ped repl lim fuel) as [_ [_ [_ [_ [Hb _]]]]].
  destruct (Hb (fun _ => True) bl c stable_true s HI I) as [_ [_ O]]. unfold run_block in E. rewrite E in O. cbn in O. discriminate O.
Qed.
