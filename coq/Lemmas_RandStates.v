(* Lemmas_RandStates.v -- what SEEK, PUTRECORD and GETRECORD do when they are legal, statement by statement, in every state:
   SEEK moves the cursor of that handle and nothing else; PUTRECORD writes the text form of the variable's value at the cursor
   (rf_put: replace, or append at the end) and nothing else; GETRECORD loads the record at the cursor into the variable in place.
   File names are string literals. *)
From PE2 Require Import Eval Run Lemmas_Copy Lemmas_Out Lemmas_Scope Lemmas_ConstLogic Lemmas_FileStates.
Local Open Scope N_scope.

Section Rand.
Variables (ped repl : bool) (lim : limits) (fuel : nat).
Notation ev := (ev_eval (evs_at ped repl lim (S (S fuel)))).

Ltac start :=
  cbn [evs_at evs_step ev_eval]; unfold eval_body at 1;
  change (evs_step ped repl lim (evs_at ped repl lim fuel)) with (evs_at ped repl lim (S fuel));
  cbn [evs_at evs_step ev_eval eval_body]; unfold bind at 1; cbn [ret fst snd];
  unfold res_of, dt_is, dt_prim; cbn [r_type r_val dk negb as_str];
  change (dk_eqb KStr KStr) with true; cbn [negb]; cbv beta;
  unfold bind at 1; cbn [ret fst snd]; unfold bind at 1, gets at 1; cbn [fst snd].

Theorem seek_moves_the_cursor t name a c s ar addr fh fh' :
  ev_eval (evs_at ped repl lim (S fuel)) a c s = (Ok ar, s) -> dk (r_type ar) = KInt -> r_val ar = Some (PInt addr) -> (1 <= addr)%Z ->
  find_file (tval name) (s_files s) = Some fh -> of_mode fh = FRandom -> rf_seek fh addr = Some fh' ->
  ev (NSeek t (NStr name) a) c s = (Ok res_none, set_files (replace_file fh' (s_files s)) s).
Proof.
  intros Ea Hk Hv Hpos Hf Hm Hs. cbn [evs_at evs_step ev_eval]. unfold eval_body at 1.
  change (evs_step ped repl lim (evs_at ped repl lim fuel)) with (evs_at ped repl lim (S fuel)).
  unfold bind at 1. rewrite Ea. cbn [fst snd]. unfold dt_is. rewrite Hk. change (dk_eqb KInt KInt) with true. cbn [negb].
  unfold bind at 1, as_int at 1. rewrite Hv. cbn [ret fst snd].
  destruct (addr <? 1)%Z eqn:El; [apply Z.ltb_lt in El; exfalso; apply (Zlt_not_le _ _ El); exact Hpos|].
  cbn [evs_at evs_step ev_eval eval_body]. unfold bind at 1. cbn [ret fst snd]. unfold res_of, dt_prim. cbn [r_type r_val dk].
  change (dk_eqb KStr KStr) with true. cbn [negb]. unfold bind at 1, as_str at 1. cbn [r_val ret fst snd]. unfold bind at 1, gets at 1. cbn [fst snd].
  rewrite Hf, Hm, Hs. unfold update_file, modify, bind. cbn [fst snd ret]. reflexivity.
Qed.

(* PUTRECORD "f", v : v a variable (no array of that name) not of pointer type, whose value has the tree tr and the text txt *)
Theorem putrecord_writes_the_value_at_the_cursor t name id c s fh vid cl tr txt :
  find_file (tval name) (s_files s) = Some fh -> of_mode fh = FRandom ->
  lookup_var c (tval id) true s = (Ok (Some vid), s) -> lookup_arr c (tval id) true s = (Ok None, s) ->
  nm_get vid (s_cells s) = Some cl -> dk (c_type cl) <> KPtr -> abs_val hfuel c (c_val cl) s = (Ok tr, s) -> dump tr = Some txt ->
  ev (NPutRecord t (NStr name) id) c s = (Ok res_none, set_files (replace_file (rf_put fh txt) (s_files s)) s).
Proof.
  intros Hf Hm Hl Ha Ec Hk Hab Hd. start. rewrite Hf, Hm.
  unfold bind at 1. rewrite Hl. cbn [fst snd]. unfold bind at 1. rewrite Ha. cbn [fst snd].
  unfold bind at 1. unfold bind at 1, get_cell at 1. rewrite Ec. cbn [fst snd].
  unfold dt_is. destruct (dk_eqb (dk (c_type cl)) KPtr) eqn:E; [apply dk_eqb_eq in E; contradiction|].
  unfold bind at 1. cbn [ret fst snd]. unfold bind at 1. rewrite Hab. cbn [fst snd]. rewrite Hd. cbn [ret fst snd].
  unfold update_file, modify, bind. cbn [fst snd ret]. reflexivity.
Qed.

(* GETRECORD "f", v : the record at the cursor is loaded into the value that is there (load old rec: same shape, C13) and stored back
   in place; nothing but v's storage changes (store_tree) *)
Theorem getrecord_loads_the_record_at_the_cursor t name id c s fh vid cl rec old new rest s' :
  find_file (tval name) (s_files s) = Some fh -> of_mode fh = FRandom ->
  lookup_var c (tval id) true s = (Ok (Some vid), s) -> lookup_arr c (tval id) true s = (Ok None, s) ->
  nm_get vid (s_cells s) = Some cl -> dk (c_type cl) <> KPtr -> c_const cl = false -> rf_get fh = Some rec ->
  abs_val hfuel c (c_val cl) s = (Ok old, s) -> load old rec = (new, rest, true) -> store_tree hfuel vid new s = (Ok Datatypes.tt, s') ->
  ev (NGetRecord t (NStr name) id) c s = (Ok res_none, s').
Proof.
  intros Hf Hm Hl Ha Ec Hk Hc Hg Hab Hld Hst. start. rewrite Hf, Hm.
  unfold bind at 1. rewrite Hl. cbn [fst snd]. unfold bind at 1. rewrite Ha. cbn [fst snd].
  unfold bind at 1, get_cell at 1. rewrite Ec. cbn [fst snd].
  unfold dt_is. destruct (dk_eqb (dk (c_type cl)) KPtr) eqn:E; [apply dk_eqb_eq in E; contradiction|].
  unfold bind at 1. cbn [ret fst snd]. rewrite Hc. rewrite Hg. unfold bind at 1. rewrite Hab. cbn [fst snd]. rewrite Hld.
  unfold bind at 1. rewrite Hst. cbn [fst snd]. reflexivity.
Qed.
End Rand.
