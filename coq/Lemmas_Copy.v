(* Lemmas_Copy.v — copies of values. *)
From PE2 Require Import Heap.
Local Open Scope Z_scope.

(* primitives, enumerated values and pointers are copied as they are *)
Lemma copy_val_non_record fuel p s : (forall tn c, p <> PRec tn c) -> copy_val fuel p s = (Ok p, s).
Proof. intros H. destruct p as [| | | | | | | |tn0 c0]; try (destruct fuel; reflexivity). exfalso. exact (H tn0 c0 eq_refl). Qed.

Lemma bind_inv {A B} (m : M A) (k : A -> M B) s b s' :
  bind m k s = (Ok b, s') -> exists x s1, m s = (Ok x, s1) /\ k x s1 = (Ok b, s').
Proof. unfold bind. destruct (m s) as [[x|f] s1]; [eauto|discriminate]. Qed.

(* copying a record allocates a new private context: its identifier is the next unused one, so it
   differs from every existing context -- source and copy share no context *)
Lemma copy_ctx_fresh f c s c' s' : copy_ctx f c s = (Ok c', s') -> c' = s_next s.
Proof.
  destruct f as [|f']; [cbn; discriminate|]. cbn [copy_ctx]. intros E.
  apply bind_inv in E. destruct E as [cx [s1 [E1 E]]].
  assert (s1 = s) by (unfold get_ctx in E1; destruct (nm_get c (s_ctxs s)); inversion E1; reflexivity). subst s1.
  apply bind_inv in E. destruct E as [id [s2 [E2 E]]]. unfold fresh in E2. inversion E2; subst. clear E2.
  apply bind_inv in E. destruct E as [u1 [s3 [_ E]]].
  apply bind_inv in E. destruct E as [vars [s4 [_ E]]].
  apply bind_inv in E. destruct E as [arrs [s5 [_ E]]].
  apply bind_inv in E. destruct E as [u2 [s6 [_ E]]].
  inversion E; reflexivity.
Qed.

Lemma copy_record_fresh_ctx f tn c s p s' :
  copy_val (S f) (PRec tn c) s = (Ok p, s') -> exists c', p = PRec tn c' /\ c' = s_next s.
Proof.
  cbn [copy_val]. intros H. apply bind_inv in H. destruct H as [c' [s1 [E H]]]. inversion H; subst.
  exists c'. split; [reflexivity|]. eapply copy_ctx_fresh; eauto.
Qed.
