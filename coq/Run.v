(* Run.v — the launchers: runFile() and startREPL() (src/launch), producing the observation
   that the correspondence check compares with the implementation. *)
From PE2 Require Export Parser Eval.
Local Open Scope Z_scope.

Inductive status := SDone | SCrash (site : string) | SFuel | SUnsupported (what : string).

Record observation := mkObs {
  ob_out : str;                       (* standard output, byte for byte *)
  ob_diags : list diag;               (* diagnostics in the order printed on standard error *)
  ob_exit : Z;
  ob_fs : list (str * str);           (* files after the run *)
  ob_status : status;
  ob_misc : list str }.               (* other stderr lines (RUNFILE messages) *)

Definition root_id : N := 1%N.
Definition global_ctx : ctx := mkCtx None (str_of_string "Program") [] [] [] [] [] false false dt_none None None O.

Definition init_state (stdin : str) (fs : list (str * str)) (rnd : list Z) : st :=
  mkSt 2%N nm_empty nm_empty (nm_put root_id global_ctx nm_empty) [] [] [] stdin fs [] 0 0 0 rnd.

Definition warning_text (w : Z * Z) : str :=
  str_of_string "Warning on line " ++ z_to_str (fst w) ++ str_of_string " column " ++ z_to_str (snd w)
  ++ str_of_string ": Comparison result is ignored. Use '<-' instead of '=' if you wanted to assign." ++ [ch_nl].

Definition emit_warnings (ws : list (Z * Z)) (s : st) : st :=
  fold_left (fun s0 w => set_out (warning_text w :: s_out s0) s0) (rev ws) s.

Definition diag_of_lex (e : lexerr) : diag :=
  mkDiag (match le_kind e with LexSyntax => DSyntax | LexPedantic => DPedantic end) (le_line e) (le_col e) EOther [].
Definition diag_of_parse (k : lexkind) (t : token) : diag :=
  mkDiag (match k with LexSyntax => DSyntax | LexPedantic => DPedantic end) (tline t) (tcol t) EOther [].

Definition close_all_files : M unit :=
  fl <- gets s_files ;; iterM close_file_effect fl ;;; modify (set_files []).

Section Run.
Variable pedantic : bool.
Variable lim : limits.
Variable fuel : nat.

(* outcome of running one parsed block as the main block *)
Inductive entry_res := EOk | EDiag (d : diag) | EAbort (s : status).

(* MainBlock::run in context [root] *)
Definition run_main (repl : bool) (b : block) (root : N) (s : st) : entry_res * st :=
  match run_block pedantic repl lim fuel b root s with
  | (Ok _, s') => (EOk, s')
  | (Fail (FErr d), s') => (EDiag d, s')
  | (Fail (FBreak t), s') | (Fail (FContinue t), s') =>
    match @rt_error unit t root s' with
    | (Fail (FErr d), s'') => (EDiag d, s'')
    | (_, s'') => (EAbort (SCrash "traceback"), s'')
    end
  | (Fail FReturn, s') => (EAbort (SCrash "uncaught ReturnErrSignal"), s')
  | (Fail (FCrash site), s') => (EAbort (SCrash site), s')
  | (Fail FFuel, s') => (EAbort SFuel, s')
  | (Fail (FUnsupported w), s') => (EAbort (SUnsupported w), s')
  end.

(* lex + parse + run one source text; prints the blank line before a diagnostic as the launchers do *)
Definition run_source (repl : bool) (src : str) (root : N) (s : st) : entry_res * st :=
  match lex pedantic src with
  | inr e => (EDiag (diag_of_lex e), set_out ([ch_nl] :: s_out s) s)
  | inl toks =>
    match parse_program pedantic toks with
    | PFuel => (EAbort SFuel, s)
    | PFail k t ps => let s1 := emit_warnings (p_warns ps) s in
                      (EDiag (diag_of_parse k t), set_out ([ch_nl] :: s_out s1) s1)
    | POk b ps =>
      let s1 := emit_warnings (p_warns ps) s in
      match run_main repl b root s1 with
      | (EDiag d, s2) => (EDiag d, set_out ([ch_nl] :: s_out s2) s2)
      | r => r
      end
    end
  end.

(* runFile() on a program text already read from disk: a fresh global context with its own
   procedures, functions and file handles; handles are closed when it goes away *)
Definition run_file_text (content : str) (s : st) : entry_res * st :=
  let src := content ++ [ch_nl] in
  let saved_procs := s_procs s in let saved_funcs := s_funcs s in let saved_files := s_files s in
  match (new_ctx None (str_of_string "Program") false false dt_none) (set_files [] (set_funcs [] (set_procs [] s))) with
  | (Ok root, s0) =>
    let '(r, s1) := run_source false src root s0 in
    let s2 := match close_all_files s1 with (_, x) => x end in
    (r, set_files saved_files (set_funcs saved_funcs (set_procs saved_procs s2)))
  | (Fail _, s0) => (EAbort (SCrash "context"), s0)
  end.

Definition finish (r : entry_res) (s0 : st) (diags : list diag) (misc : list str) : observation :=
  let s := match close_all_files s0 with (_, x) => x end in      (* the global context goes away: handles are closed *)
  match r with
  | EOk => mkObs (out_string s) (rev diags) 0 (s_fs s) SDone (rev misc)
  | EDiag d => mkObs (out_string s) (rev (d :: diags)) 1 (s_fs s) SDone (rev misc)
  | EAbort st0 => mkObs (out_string s) (rev diags) (-1) (s_fs s) st0 (rev misc)
  end.

(* ---- file mode ---- *)
Definition run_file (content : str) (stdin : str) (fs : list (str * str)) (rnd : list Z) : observation :=
  let s := init_state stdin fs rnd in
  let '(r, s1) := run_source false (content ++ [ch_nl]) root_id s in
  let s2 := match close_all_files s1 with (_, x) => x end in
  finish r s2 [] [].

(* ---- REPL ---- *)
Definition repl_header : str :=
  str_of_string "PseudoEngine2 v1.0.1 REPL" ++ [ch_nl] ++ str_of_string "Enter '?' for help, 'EXIT' to quit" ++ [ch_nl].
Definition repl_help : str :=
  str_of_string "Visit https://github.com/SingularityT3/PseudoEngine2 for syntax, examples and more info" ++ [ch_nl]
  ++ str_of_string "Use `RUNFILE <filename>` to run programs stored in files" ++ [ch_nl].

Definition multiline_keywords : list string :=
  ["IF"; "CASE"; "WHILE"; "REPEAT"; "FOR"; "PROCEDURE"; "FUNCTION"; "TYPE"]%string.

Fixpoint first_keyword (code : str) (l : list string) : option string :=
  match l with
  | [] => None
  | k :: r => if starts_with (str_of_string k) code then Some k else first_keyword code r
  end.

Definition put (x : str) (s : st) : st := set_out (x :: s_out s) s.

(* getLine(line, prompt) of main.cpp without readline: (line, ok) where ok = !cin.eof() *)
Definition get_line (prompt : str) (s : st) : str * bool * st :=
  let s1 := put prompt s in
  match read_line s1 with
  | (Ok (l, eof), s2) => (l, negb eof, s2)
  | (_, s2) => ([], false, s2)
  end.

(* continuation lines of a multi-line entry; None = end of input (the REPL returns) *)
Fixpoint read_continuation (n : nat) (code : str) (s : st) : option str * st :=
  match n with
  | O => (Some code, s)
  | S k =>
    let '(l, ok, s1) := get_line (str_of_string ". ") s in
    if negb ok then (None, s1)
    else match l with
         | [] => (Some (code ++ [ch_nl]), s1)
         | _ => read_continuation k (code ++ [ch_nl] ++ l) s1
         end
  end.

Fixpoint strip_trailing_blanks_keep_first (r : str) : str :=      (* on the reversed file name *)
  match r with
  | [] => []
  | [c] => [c]
  | c :: t => if aeqb c ch_space || aeqb c ch_tab then strip_trailing_blanks_keep_first t else r
  end.

Definition exit_msg (ok : bool) : str :=
  [ch_nl] ++ str_of_string "==> Program exited " ++ str_of_string (if ok then "successfully" else "with an error") ++ [ch_nl].

Fixpoint repl_loop (n : nat) (s : st) (diags : list diag) (misc : list str) : observation :=
  match n with
  | O => finish (EAbort SFuel) s diags misc
  | S k =>
    let '(code, ok, s1) := get_line (str_of_string "> ") s in
    if negb ok then finish EOk s1 diags misc
    else
      match code with
      | [] => repl_loop k s1 diags misc
      | _ =>
        if str_eqb code (str_of_string "?") then repl_loop k (put repl_help s1) diags misc
        else if str_eqb code (str_of_string "EXIT") then finish EOk s1 diags misc
        else if starts_with (str_of_string "RUNFILE") code then
          if Nat.ltb (List.length code) 9 then repl_loop k s1 diags (str_of_string "Expected filename" :: misc)
          else
            let name := rev (strip_trailing_blanks_keep_first (rev (skipn 8 code))) in
            let s2 := put (str_of_string "==> Running file '" ++ name ++ str_of_string "'" ++ [ch_nl]) s1 in
            match fs_get name (s_fs s2) with
            | None => repl_loop k (put (exit_msg false) s2) diags (str_of_string "File not found" :: misc)
            | Some content =>
              match run_file_text content s2 with
              | (EOk, s3) => repl_loop k (put (exit_msg true) s3) diags misc
              | (EDiag d, s3) => repl_loop k (put (exit_msg false) s3) (d :: diags) misc
              | (EAbort st0, s3) => finish (EAbort st0) s3 diags misc
              end
            end
        else
          let multi :=
            match first_keyword code multiline_keywords with
            | Some kw => if String.eqb kw "TYPE" && existsb (fun c => aeqb c "="%char) code then false else true
            | None => false
            end in
          let '(full, s2) := if multi then read_continuation (S (List.length (s_in s1))) code s1 else (Some code, s1) in
          match full with
          | None => finish EOk s2 diags misc
          | Some src =>
            match run_source true src root_id s2 with
            | (EOk, s3) => repl_loop k s3 diags misc
            | (EDiag d, s3) => repl_loop k s3 (d :: diags) misc
            | (EAbort st0, s3) => finish (EAbort st0) s3 diags misc
            end
          end
      end
  end.

Definition run_repl (stdin : str) (fs : list (str * str)) (rnd : list Z) : observation :=
  let s := put repl_header (init_state stdin fs rnd) in
  let obs := repl_loop (S (S (List.length stdin))) s [] [] in
  obs.

End Run.
