(* Properties_C11.v — syntax is checked before anything runs.
   PARTIAL: the no-effects theorems are proved; positions and the traceback chain are checked by the
   correspondence (diagnostic line, column and the full (name, line, column) chain are compared). *)
From PE2 Require Import Run Lemmas_Run.
Local Open Scope Z_scope.

(* a lexical error anywhere: nothing executes -- the output is only the blank line the launcher prints
   before a diagnostic, no file changes, exactly one diagnostic, exit status 1 *)
Theorem C11_lexical_error_no_effects : forall ped lim fuel content stdin fs rnd e,
  lex ped (content ++ [ch_nl]) = inr e ->
  run_file ped lim fuel content stdin fs rnd = mkObs [ch_nl] [diag_of_lex e] 1 fs SDone [].
Proof. exact lex_error_no_effects. Qed.
Print Assumptions C11_lexical_error_no_effects.

(* a syntax error anywhere: the same, with the parser's warnings (diagnostics, not program output) in front *)
Theorem C11_syntax_error_no_effects : forall ped lim fuel content stdin fs rnd toks k t ps,
  lex ped (content ++ [ch_nl]) = inl toks -> parse_program ped toks = PFail k t ps ->
  let o := run_file ped lim fuel content stdin fs rnd in
  ob_diags o = [diag_of_parse k t] /\ ob_exit o = 1 /\ ob_fs o = fs /\ ob_status o = SDone /\
  ob_out o = List.concat (map warning_text (rev (p_warns ps))) ++ [ch_nl].
Proof. exact parse_error_no_effects. Qed.
Print Assumptions C11_syntax_error_no_effects.

(* non-vacuity: a program with a fault on its second line *)
Example C11_example :
  ob_exit (run_file false (mkLim 0 0 0 0) 100 (str_of_string "OUTPUT 1
OUTPUT )") [] [] []) = 1 /\ ob_out (run_file false (mkLim 0 0 0 0) 100 (str_of_string "OUTPUT 1
OUTPUT )") [] [] []) = [ch_nl].
Proof. vm_compute. split; reflexivity. Qed.
