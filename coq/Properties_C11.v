(* Properties_C11.v — syntax is checked before anything runs, and diagnostics point at the fault.
   Proved: a lexical or syntax error anywhere means nothing executes; and what a runtime diagnostic says, in every state -- the
   position of the failing token, its own frame, then the call site of every active caller, innermost first.  PARTIAL: that each
   call records its call site in the caller's context before the body runs (so that the frames are the ACTIVE call sites), and
   the positions of syntax diagnostics, are checked by the correspondence (line, column and the full chain are compared). *)
From PE2 Require Import Run Lemmas_Run Eval Lemmas_Traceback.
Local Open Scope Z_scope.

(* a lexical error anywhere: nothing executes -- the output is only the blank line the launcher prints
   before a diagnostic, no file changes, exactly one diagnostic, exit status 1 *)
Theorem C11_lexical_error_no_effects : forall ped lim fuel content stdin fs rnd e,
  lex ped (content ++ [ch_nl]) = inr e ->
  run_file ped lim fuel content stdin fs rnd = mkObs [ch_nl] [diag_of_lex e] 1 fs SDone [].
Proof. exact lex_error_no_effects. Qed.
Print Assumptions C11_lexical_error_no_effects.

(* a syntax error anywhere: the same, with the parser's warnings (diagnostics, not program output) in front *)
Theorem C11_syntax_error_no_effects : forall ped lim fuel content stdin fs rnd toks k t ps,
  lex ped (content ++ [ch_nl]) = inl toks -> parse_program ped toks = PFail k t ps ->
  let o := run_file ped lim fuel content stdin fs rnd in
  ob_diags o = [diag_of_parse k t] /\ ob_exit o = 1 /\ ob_fs o = fs /\ ob_status o = SDone /\
  ob_out o = List.concat (map warning_text (rev (p_warns ps))) ++ [ch_nl].
Proof. exact parse_error_no_effects. Qed.
Print Assumptions C11_syntax_error_no_effects.

(* non-vacuity: a program with a fault on its second line *)
Example C11_example :
  ob_exit (run_file false (mkLim 0 0 0 0) 100 (str_of_string "OUTPUT 1
OUTPUT )") [] [] []) = 1 /\ ob_out (run_file false (mkLim 0 0 0 0) 100 (str_of_string "OUTPUT 1
OUTPUT )") [] [] []) = [ch_nl].
Proof. vm_compute. split; reflexivity. Qed.

(* a runtime diagnostic, in every state: its position is the line and column of the token it was raised at; the first frame of the
   traceback is the context the failing statement ran in, with that line; then one frame for every ancestor context that is switched
   out at a call -- its name and the line and column of that call site -- innermost first (`frames` reads them off the context
   table by walking the parents) *)
Theorem C11_runtime_error_names_the_failing_token_and_the_call_sites : forall A t c s cx rest,
  nm_get c (s_ctxs s) = Some cx -> frames (S (x_depth cx)) (s_ctxs s) (x_parent cx) = Some rest ->
  @rt_error A t c s = (Fail (FErr (mkDiag DRuntime (tline t) (tcol t) EOther ((x_name cx, tline t, tcol t) :: rest))), s).
Proof. exact @runtime_error_names_the_failing_token. Qed.
Print Assumptions C11_runtime_error_names_the_failing_token_and_the_call_sites.

(* spelled out for a statement failing in Q, called from P, called from the program: three frames, innermost first, ending at the
   main program *)
Theorem C11_traceback_of_a_nested_call : forall t s q p root cq cp croot lp kp lr kr,
  nm_get q (s_ctxs s) = Some cq -> nm_get p (s_ctxs s) = Some cp -> nm_get root (s_ctxs s) = Some croot ->
  x_parent cq = Some p -> x_parent cp = Some root -> x_parent croot = None ->
  x_switch cp = Some (lp, kp) -> x_switch croot = Some (lr, kr) -> (2 <= x_depth cq)%nat ->
  @rt_error unit t q s = (Fail (FErr (mkDiag DRuntime (tline t) (tcol t) EOther
                                 [(x_name cq, tline t, tcol t); (x_name cp, lp, kp); (x_name croot, lr, kr)])), s).
Proof. exact three_frames. Qed.
Print Assumptions C11_traceback_of_a_nested_call.
