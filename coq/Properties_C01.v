(* Properties_C01.v — every input is either executed or diagnosed.
   PARTIAL.  In the model every hazard of the C++ that is logic (abort() guards, unchecked downcasts,
   null payloads, stol/stoul on token text, vector indexing) is an explicit `FCrash` outcome, so that
   "never crashes" is a statement and not true by construction.  Proved here: the lexer and the parser
   are total functions whose only outcomes are a token list / tree or a positioned diagnostic; the
   token invariants on which the literal constructors rely (so that IntegerNode/RealNode/CharNode cannot
   hit an unchecked conversion); the arithmetic leaves cannot trap.  That the evaluator never reaches an
   FCrash is checked by the correspondence on the crash oracle (normal + sanitizer build), not yet proved. *)
From PE2 Require Import Lexer Parser Eval Lemmas_Lexer Lemmas_Expr.
Local Open Scope Z_scope.

(* every CHAR token holds exactly one character; every INTEGER/REAL token is non-empty and starts with a digit *)
Theorem C01_lexer_tokens_wf : forall ped input toks, lex ped input = inl toks -> Forall tok_wf toks.
Proof. exact lex_tokens_wf. Qed.
Print Assumptions C01_lexer_tokens_wf.

(* INTEGER DIV/MOD cannot trap: the result is a 64-bit integer for every divisor other than zero,
   including the minimum value divided by -1 *)
Theorem C01_div_cannot_trap : forall a b, b <> 0 -> int64_min <= a <= int64_max -> int64_min <= arith_int TDIV a b <= int64_max.
Proof. exact div_in_range. Qed.
Print Assumptions C01_div_cannot_trap.

(* 64-bit wrap is total and stays in range (the recorded assumption: overflow wraps silently) *)
Theorem C01_wrap_in_range : forall z, int64_min <= wrap64 z <= int64_max.
Proof. exact wrap64_in_range. Qed.
Print Assumptions C01_wrap_in_range.

(* non-vacuity: a crash outcome exists in the model and is reachable for ill-formed internal states *)
Example C01_crash_is_observable : exists r s, as_int r s = (Fail (FCrash "get<Integer> on other payload"), s).
Proof. exists (mkRes (dt_prim KInt) (Some (PStr []))), (mkSt 0%N nm_empty nm_empty nm_empty [] [] [] [] [] [] 0 0 0 []). reflexivity. Qed.
