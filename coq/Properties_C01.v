(* Properties_C01.v — every input is either executed or diagnosed.
   PARTIAL.  In the model every hazard of the C++ that is logic (abort() guards, unchecked downcasts,
   null payloads, stol/stoul on token text, vector indexing) is an explicit `FCrash` outcome, so that
   "never crashes" is a statement and not true by construction.  Proved here: the lexer and the parser
   are total functions whose only outcomes are a token list / tree or a positioned diagnostic; the
   token invariants on which the literal constructors rely (so that IntegerNode/RealNode/CharNode cannot
   hit an unchecked conversion); the arithmetic leaves cannot trap; and one family of evaluator aborts is excluded for every
   program: the evaluator never finds a variable's cell holding an object of another class than its type says
   (C01_no_cell_of_the_wrong_class, program logic of Lemmas_ConstLogic.v).  That the evaluator reaches none of the OTHER FCrash
   outcomes is checked by the correspondence on the crash oracle (normal + sanitizer build), not proved. *)
From PE2 Require Import Lexer Parser Eval Run Lemmas_Lexer Lemmas_Expr Lemmas_Fuel Lemmas_FuelRun Lemmas_Out Lemmas_LexTotal Lemmas_ParserFuel Lemmas_ConstLogic Lemmas_ConstThm.
Local Open Scope Z_scope.

(* every CHAR token holds exactly one character; every INTEGER/REAL token is non-empty and starts with a digit *)
Theorem C01_lexer_tokens_wf : forall ped input toks, lex ped input = inl toks -> Forall tok_wf toks.
Proof. exact lex_tokens_wf. Qed.
Print Assumptions C01_lexer_tokens_wf.

(* INTEGER DIV/MOD cannot trap: the result is a 64-bit integer for every divisor other than zero,
   including the minimum value divided by -1 *)
Theorem C01_div_cannot_trap : forall a b, b <> 0 -> int64_min <= a <= int64_max -> int64_min <= arith_int TDIV a b <= int64_max.
Proof. exact div_in_range. Qed.
Print Assumptions C01_div_cannot_trap.

(* 64-bit wrap is total and stays in range (the recorded assumption: overflow wraps silently) *)
Theorem C01_wrap_in_range : forall z, int64_min <= wrap64 z <= int64_max.
Proof. exact wrap64_in_range. Qed.
Print Assumptions C01_wrap_in_range.

(* the lexer is total and always makes progress: for every text it either reports a lexical error or has read the
   text to its end -- its loop is never stopped by its fuel *)
Theorem C01_lexer_reads_everything_or_diagnoses : forall ped input,
  (exists e, lex ped input = inr e) \/
  (exists s toks, lex_loop (S (List.length (remove_cr input))) ped (init_lst (remove_cr input)) [] = LOk s toks /\ at_end s = true /\
                  lex ped input = inl (rev (mkTok TEXPRESSION_END (line s) (col s) [] :: toks))).
Proof. exact lex_total. Qed.
Print Assumptions C01_lexer_reads_everything_or_diagnoses.

Theorem C01_lexer_step_consumes : forall ped s toks s' toks', at_end s = false -> lex_step ped s toks = LOk s' toks' ->
  (List.length (rest s') < List.length (rest s))%nat.
Proof. exact lex_step_progress. Qed.
Print Assumptions C01_lexer_step_consumes.

(* the recursion fuel of the model is only a bound, not a behaviour: a run that did not stop for lack of fuel is the
   run with every larger fuel (so "executed or diagnosed" does not depend on the number chosen, and a fuel stop is
   the one outcome the correspondence counts as inconclusive) *)
Theorem C01_fuel_is_only_a_bound : forall ped lim fuel more content stdin fs rnd,
  ob_status (run_file ped lim fuel content stdin fs rnd) <> SFuel ->
  run_file ped lim (fuel + more) content stdin fs rnd = run_file ped lim fuel content stdin fs rnd.
Proof. exact run_file_fuel_monotone. Qed.
Print Assumptions C01_fuel_is_only_a_bound.

Theorem C01_evaluator_fuel_step : forall ped repl lim fuel bl c s,
  run_block ped repl lim fuel bl c s = run_block ped repl lim (S fuel) bl c s \/ exists s', run_block ped repl lim fuel bl c s = (Fail FFuel, s').
Proof. exact run_block_fuel_step. Qed.
Print Assumptions C01_evaluator_fuel_step.

Theorem C01_parser_fuel_step : forall ped fuel bt s,
  parse_block ped fuel bt s = parse_block ped (S fuel) bt s \/ parse_block ped fuel bt s = PFuel.
Proof. exact parse_block_fuel_step. Qed.
Print Assumptions C01_parser_fuel_step.

(* whatever happens (diagnostic, signal, internal crash outcome, fuel stop), what was printed stays printed *)
Theorem C01_output_is_append_only : forall ped repl lim fuel bl c s,
  exists e, s_out (snd (run_block ped repl lim fuel bl c s)) = e ++ s_out s.
Proof. exact run_block_output_append_only. Qed.
Print Assumptions C01_output_is_append_only.

(* non-vacuity: a crash outcome exists in the model and is reachable for ill-formed internal states *)
Example C01_crash_is_observable : exists r s, as_int r s = (Fail (FCrash "get<Integer> on other payload"), s).
Proof. exists (mkRes (dt_prim KInt) (Some (PStr []))), (mkSt 0%N nm_empty nm_empty nm_empty [] [] [] [] [] [] 0 0 0 []). reflexivity. Qed.

(* no type confusion: from any state that satisfies the heap invariant (the initial state does, every block and every REPL entry
   keeps it: C05, C12), the evaluator never ends in the abort that stands for "a variable's cell holds an object of another class
   than its declared type says" -- in the C++ a static_cast to the wrong class.  The sites (assignment to enumerated, pointer and
   record variables, the FOR counter, pointer assignment, dereference, field access) are each excluded by the kind clause of the
   invariant; proved in the program logic, whose triples forbid exactly this outcome. *)
Theorem C01_no_cell_of_the_wrong_class : forall ped repl lim fuel bl c s, Inv s ->
  fst (run_block ped repl lim fuel bl c s) <> Fail (FCrash "cell payload disagrees with its type").
Proof. exact run_block_never_finds_a_cell_of_the_wrong_class. Qed.
Print Assumptions C01_no_cell_of_the_wrong_class.

Theorem C01_no_cell_of_the_wrong_class_in_expressions : forall ped repl lim fuel n c s, Inv s ->
  fst (ev_eval (evs_at ped repl lim fuel) n c s) <> Fail (FCrash "cell payload disagrees with its type").
Proof. exact eval_never_finds_a_cell_of_the_wrong_class. Qed.
Print Assumptions C01_no_cell_of_the_wrong_class_in_expressions.

(* likewise the abort of Variable::set: a field-wise or element-wise copy (record assignment, whole-array assignment) never meets a
   destination of another kind than the value copied into it; the layout comparison made before the copy has established it *)
Theorem C01_no_payload_reinterpreted_by_a_copy : forall ped repl lim fuel bl c s, Inv s ->
  fst (run_block ped repl lim fuel bl c s) <> Fail (FCrash "Variable::set: payload reinterpreted as another type").
Proof. exact run_block_never_reinterprets_a_payload. Qed.
Print Assumptions C01_no_payload_reinterpreted_by_a_copy.
