(* Lemmas_FileStates.v -- the handle state machine of the file statements: a statement used in a state in which it is
   not legal is a runtime error that leaves the WHOLE state (every file's contents, every handle, every variable, the
   output) exactly as it was.  Stated for statements whose file name is a string literal, in every state and context. *)
From PE2 Require Import Eval Run Lemmas_Copy Lemmas_Out Lemmas_Scope Lemmas_ConstLogic.
Local Open Scope N_scope.

Lemma rt_error_pure {A} t c s : exists f, @rt_error A t c s = (Fail f, s).
Proof.
  destruct (@rt_error_fails A t c s) as [f [s' E]]. exists f. pose proof (@ro_runtime_error_cls A EOther t c s) as R.
  unfold rt_error in *. rewrite E in R. cbn in R. subst s'. exact E.
Qed.

Section Illegal.
Variables (ped repl : bool) (lim : limits) (fuel : nat).
Notation ev := (ev_eval (evs_at ped repl lim (S (S fuel)))).

Ltac start :=
  cbn [evs_at evs_step ev_eval]; unfold eval_body at 1;
  change (evs_step ped repl lim (evs_at ped repl lim fuel)) with (evs_at ped repl lim (S fuel));
  cbn [evs_at evs_step ev_eval eval_body]; unfold bind at 1; cbn [ret fst snd];
  unfold res_of, dt_is, dt_prim; cbn [r_type r_val dk dk_eqb negb as_str]; 
  try (unfold bind at 1; cbn [ret fst snd]); try (unfold bind at 1, gets at 1; cbn [fst snd]);
  change (dk_eqb KStr KStr) with true; cbn [negb]; cbv beta.

Theorem readfile_needs_a_read_handle t name id c s :
  (find_file (tval name) (s_files s) = None \/ exists fh, find_file (tval name) (s_files s) = Some fh /\ of_mode fh <> FRead) ->
  exists f, ev (NReadFile t (NStr name) id) c s = (Fail f, s).
Proof.
  intros H. start. destruct H as [H|[fh [H M]]]; rewrite H; [apply rt_error_pure|]. destruct (of_mode fh); try apply rt_error_pure. congruence.
Qed.

Theorem writefile_needs_a_write_or_append_handle t name d c s :
  (find_file (tval name) (s_files s) = None \/ exists fh, find_file (tval name) (s_files s) = Some fh /\ (of_mode fh = FRead \/ of_mode fh = FRandom)) ->
  exists f, ev (NWriteFile t (NStr name) d) c s = (Fail f, s).
Proof.
  intros H. start. destruct H as [H|[fh [H [M|M]]]]; rewrite H; [apply rt_error_pure| |]; rewrite M; apply rt_error_pure.
Qed.

Theorem closefile_needs_an_open_handle t name c s :
  find_file (tval name) (s_files s) = None -> exists f, ev (NCloseFile t (NStr name)) c s = (Fail f, s).
Proof. intros H. start. rewrite H. apply rt_error_pure. Qed.

Theorem openfile_needs_a_closed_name t name mode c s fh :
  find_file (tval name) (s_files s) = Some fh -> exists f, ev (NOpenFile t (NStr name) mode) c s = (Fail f, s).
Proof. intros H. start. rewrite H. apply rt_error_pure. Qed.

Theorem getrecord_needs_a_random_handle t name id c s :
  (find_file (tval name) (s_files s) = None \/ exists fh, find_file (tval name) (s_files s) = Some fh /\ of_mode fh <> FRandom) ->
  exists f, ev (NGetRecord t (NStr name) id) c s = (Fail f, s).
Proof.
  intros H. start. destruct H as [H|[fh [H M]]]; rewrite H; [apply rt_error_pure|]. destruct (of_mode fh); try apply rt_error_pure. congruence.
Qed.

Theorem putrecord_needs_a_random_handle t name id c s :
  (find_file (tval name) (s_files s) = None \/ exists fh, find_file (tval name) (s_files s) = Some fh /\ of_mode fh <> FRandom) ->
  exists f, ev (NPutRecord t (NStr name) id) c s = (Fail f, s).
Proof.
  intros H. start. destruct H as [H|[fh [H M]]]; rewrite H; [apply rt_error_pure|]. destruct (of_mode fh); try apply rt_error_pure. congruence.
Qed.

(* SEEK: the address is evaluated first; for any address expression that yields an INTEGER >= 1 without touching the state *)
Theorem seek_needs_a_random_handle t name a c s ar addr :
  ev_eval (evs_at ped repl lim (S fuel)) a c s = (Ok ar, s) -> dk (r_type ar) = KInt -> r_val ar = Some (PInt addr) -> (1 <= addr)%Z ->
  (find_file (tval name) (s_files s) = None \/ exists fh, find_file (tval name) (s_files s) = Some fh /\ (of_mode fh <> FRandom \/ rf_seek fh addr = None)) ->
  exists f, ev (NSeek t (NStr name) a) c s = (Fail f, s).
Proof.
  intros Ea Hk Hv Hpos H. cbn [evs_at evs_step ev_eval]. unfold eval_body at 1.
  change (evs_step ped repl lim (evs_at ped repl lim fuel)) with (evs_at ped repl lim (S fuel)).
  unfold bind at 1. rewrite Ea. cbn [fst snd]. unfold dt_is. rewrite Hk. change (dk_eqb KInt KInt) with true. cbn [negb].
  unfold bind at 1, as_int at 1. rewrite Hv. cbn [ret fst snd].
  destruct (addr <? 1)%Z eqn:El; [apply Z.ltb_lt in El; exfalso; apply (Zlt_not_le _ _ El); exact Hpos|].
  cbn [evs_at evs_step ev_eval eval_body]. unfold bind at 1. cbn [ret fst snd]. unfold res_of, dt_prim. cbn [r_type r_val dk].
  change (dk_eqb KStr KStr) with true. cbn [negb]. unfold bind at 1, as_str at 1. cbn [r_val ret fst snd]. unfold bind at 1, gets at 1. cbn [fst snd].
  destruct H as [H|[fh [H M]]]; rewrite H; [apply rt_error_pure|]. destruct (of_mode fh) eqn:Em; try apply rt_error_pure.
  destruct M as [M|M]; [congruence|]. rewrite M. apply rt_error_pure.
Qed.
End Illegal.
