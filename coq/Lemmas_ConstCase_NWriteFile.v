(* one node class of eval_body: the program logic of Lemmas_ConstLogic.v carried through this case (generated from a common template; see DESIGN.md) *)
From PE2 Require Import Eval Lemmas_Copy Lemmas_DeepCopy Lemmas_Out Lemmas_ConstLogic Lemmas_ConstEval Lemmas_ConstExpr.
Require Import Lia.
Local Open Scope N_scope.

Section Level3.
Variables (ped repl : bool) (lim : limits) (self : evs).
Hypothesis He : forall (P : st -> Prop) n c, stable P -> tr P (ev_eval self n c) (fun r s => resok r s).
Hypothesis Hr : forall (P : st -> Prop) r c, stable P -> tr P (ev_resolve self r c) (fun _ _ => True).
Hypothesis Hce : forall (P : st -> Prop) v e c, stable P -> tr P (ev_case_equals self v e c) (fun _ _ => True).
Hypothesis Hcr : forall (P : st -> Prop) v lo hi c, stable P -> tr P (ev_case_range self v lo hi c) (fun _ _ => True).
Hypothesis Hb : forall (P : st -> Prop) bl c, stable P -> tr P (ev_run_block self bl c) (fun _ _ => True).
Hypothesis Hv : forall (P : st -> Prop) name ty cst owner, stable P -> tr P (ev_new_var self name ty cst owner) (newvar_post name ty cst owner).
Hypothesis Ha : forall (P : st -> Prop) name ty dims owner, stable P -> tr P (ev_new_array self name ty dims owner) (fun _ _ => True).
Hypothesis Hba : forall (P : st -> Prop) t params args vals c fc, stable P ->
  (forall s, P s -> ctxkind fc false s /\ Forall (fun v => resok v s) vals) -> tr P (ev_bind_args self t params args vals c fc) (fun _ _ => True).
Hypothesis Hp : forall (P : st -> Prop) t name args c, stable P -> tr P (ev_call_procedure self t name args c) (fun r s => resok r s).
Hypothesis Hf : forall (P : st -> Prop) t args c, stable P -> tr P (ev_call_function self t args c) (fun r s => resok r s).

Lemma hn_lookup_def {D} (table : ctx -> list (str * D)) c name global : hn (lookup_def table c name global).
Proof. unfold lookup_def. hnt ltac:(apply hn_lookup_def_aux). Qed.
Lemma hn_root_of id : hn (root_of id).
Proof. unfold root_of. hnt ltac:(apply hn_root_of_aux). Qed.

Ltac hknown := first [ (apply hn_ro; [apply ro_arr_layout; intros; apply ro_same_layout | apply nb_arr_layout; intros; apply nb_same_layout]) | apply hn_lookup_def | apply hn_lookup_def_aux | apply hn_root_of | apply hn_root_of_aux | apply hn_on_chain_aux | apply hn_nonrec_ancestor_aux | apply hn_abs_val
                     | (apply hn_mapM; intros ?) | (apply hn_iterM; intros ?) ].



Ltac kind_facts :=
  unfold dt_is in *;
  repeat match goal with
         | H : negb _ = false |- _ => apply negb_false_iff in H
         | H : dk_eqb _ _ = true |- _ => apply dk_eqb_eq in H
         | H : _ && _ = true |- _ => apply andb_prop in H; destruct H
         | H : _ || _ = false |- _ => apply orb_false_elim in H; destruct H
         end.
Ltac kind_tac := cbn; first [ reflexivity | assumption | congruence | (eapply resok_kind; eassumption)
                            | (kind_facts; cbn in *; first [assumption | congruence | (symmetry; assumption)]) ].
Ltac name_tac := cbn; first [ assumption | (eapply resok_named; eassumption) | (eapply named_ok_pname; [eassumption | eassumption])
                            | (apply named_ok_prim; first [reflexivity | assumption])
                            | (let tn := fresh "tn" in let Hn := fresh "Hn" in intros tn Hn; cbn in *; first [discriminate Hn | congruence | (inversion Hn; subst; first [reflexivity | assumption | congruence])]) ].
Ltac resok_leaf :=
  let a := fresh "a" in let s := fresh "s" in let HPs := fresh "HPs" in let p := fresh "p" in let E := fresh "E" in
  intros a s [-> HPs] p E; cbn in E;
  first [ discriminate E
        | (decompose [and] HPs; match goal with H : resok _ _ |- _ => exact (H _ E) end)
        | (inversion E; subst; decompose [and] HPs; split; [ first [ (apply valok_nonrec; intros; discriminate) | eauto ] | split; [ kind_tac | name_tac ] ]) ].

Lemma trR_if_chain_map t c comps : trR (if_chain t c (map (if_comp (fun x => ev_eval self x c) (fun b => ev_run_block self b c)) comps)).
Proof.
  apply trR_if_chain. apply Forall_forall. intros p Hin. apply in_map_iff in Hin. destruct Hin as [q [Hq _]]. subst p.
  unfold if_comp. cbn [fst snd]. split; [|intros P SP; apply Hb; exact SP]. intros ce E. destruct (fst q); inversion E; subst. intros P SP. eapply tr_true. apply He. exact SP.
Qed.
Lemma trR_case_chain_map {A} (f : A -> M bool * M unit) l : (forall x, trT (fst (f x)) /\ trT (snd (f x))) -> trR (case_chain (map f l)).
Proof. intros H. apply trR_case_chain. apply Forall_forall. intros p Hin. apply in_map_iff in Hin. destruct Hin as [q [Hq _]]. subst p. apply H. Qed.

Ltac noself m := lazymatch m with context [self] => fail | _ => idtac end.
Ltac ht known :=
  repeat first
    [ (apply tr_failm; okf) | apply tr_rt_error | apply tr_error_cls | apply tr_ret_none
    | match goal with |- tr _ (ret _) (fun _ _ => True) => eapply tr_true; apply tr_ret end
    | match goal with |- tr _ (ret _) (fun r s => resok r s) => eapply tr_post; [apply tr_ret | try solve [resok_leaf]] end
    | known
    | match goal with |- tr _ ?m (fun _ _ => True) => noself m; apply tr_hn_true; [stab2 | solve [hnt hknown]] end
    | match goal with
      | |- tr _ (assign_val _ _ _) _ => apply tr_assign_val; [stab2 | ]
      | |- tr _ (set_cell_val _ _) _ => apply tr_set_cell_val
      | |- tr _ (add_var _ _ _) _ => eapply tr_true; apply tr_add_var; [stab2 | ]
      | |- tr _ (add_arr _ _ _) _ => unfold add_arr; eapply tr_true; apply tr_upd_ctx_keepvars; [stab2 | intros ?; repeat split]
      | |- tr _ (store_tree _ _ _) _ => apply tr_store_tree; [stab2 | ]
      | |- tr _ (copy_array_data _ _ _) _ => apply tr_copy_array_data; [stab2 | ]
      | |- tr _ (upd_ctx _ (ctx_with_retval _)) _ => eapply tr_true; apply tr_set_retval; [stab2 | ]
      | |- tr _ (upd_ctx _ _) _ => eapply tr_true; apply tr_upd_ctx_keepvars; [stab2 | intros ?; repeat split]
      | |- tr _ (copy_val _ _) _ => eapply tr_true; apply (proj1 (copy_tr _)); [stab2 | ]
      | |- tr _ (catch_cls _ _ _) _ => apply tr_catch_cls; [stab2 | | intros ?]
      | |- tr _ (iterM _ _) _ => apply tr_iterM; [stab2 | intros ? ?]
      | |- tr _ (zipM _ _ _) _ => apply tr_zipM; [stab2 | intros ? ? ?]
      | |- tr _ (while_loop _ _ _ _ _ _) _ => apply trR_while; [intros ? ?; eapply tr_true; apply He; assumption | intros ? ?; apply Hb; assumption | stab2]
      | |- tr _ (repeat_loop _ _ _ _ _ _) _ => apply trR_repeat; [intros ? ?; eapply tr_true; apply He; assumption | intros ? ?; apply Hb; assumption | stab2]
      | |- tr _ (for_loop _ _ _ _ _ _ _ _) _ => apply trR_for; [intros ? ?; apply Hb; assumption | stab2 | ]
      | |- tr _ (if_chain _ _ (map (if_comp _ _) _)) _ => apply trR_if_chain_map; stab2
      | |- tr _ (case_chain (map _ _)) _ => apply trR_case_chain_map; [intros ?; split; intros ? ? | stab2]
      | |- tr _ (bind fresh (fun id => bind (put_cell id _) _)) _ => apply tr_alloc_cell; [stab2 | | intros ?]
      | |- tr _ (bind (get_cell _) _) _ => eapply tr_bind; [stab2 | apply tr_get_cell | intros ?]
      | |- tr _ (bind (get_arr _) _) _ => eapply tr_bind; [stab2 | apply tr_get_arr | intros ?]
      | |- tr _ (bind (get_ctx _) _) _ => eapply tr_bind; [stab2 | apply tr_get_ctx | intros ?]
      | |- tr _ (bind (new_ctx _ _ _ _ _) _) _ => eapply tr_bind; [stab2 | apply tr_new_ctx; stab2 | intros ?]
      | |- tr _ (bind (ev_new_var self _ _ _ _) _) _ => eapply tr_bind; [stab2 | apply Hv; stab2 | intros ?]
      | |- tr _ (bind (ev_eval self _ _) _) _ => eapply tr_bind; [stab2 | apply He; stab2 | intros ?]
      | |- tr _ (bind (copy_val _ _) _) _ => eapply tr_bind; [stab2 | apply (proj1 (copy_tr _)); [stab2 | ] | intros ?]
      | |- tr _ (bind (bind _ _) _) _ => apply tr_assoc
      | |- tr _ (bind (ret _) _) _ => apply tr_ret_bind
      | |- tr _ (bind (failm _) _) _ => (apply tr_fail_bind; okf)
      | |- tr _ (bind (crash _) _) _ => (apply tr_fail_bind; okf)
      | |- tr _ (bind (rt_error _ _) _) _ => apply tr_error_bind
      | |- tr _ (bind (not_defined_error _ _) _) _ => apply tr_error_bind
      | |- tr _ (bind (array_direct_error _ _) _) _ => apply tr_error_bind
      | |- tr _ (bind (as_payload _) _) _ => eapply tr_bind; [stab2 | apply tr_as_payload | intros ?]
      | |- tr _ (bind (cast_prim _ _ _ _) _) _ => eapply tr_bind; [stab2 | apply tr_cast_prim; stab2 | intros ?]
      | |- tr _ (bind (implicit_cast _ _) _) _ => eapply tr_bind; [stab2 | apply tr_implicit_cast; [stab2 | ] | intros ?]
      | |- tr _ (bind ?m _) _ => noself m; eapply tr_bind with (Q := fun _ _ => True); [stab2 | apply tr_hn_true; [stab2 | solve [hnt hknown]] | intros ?]
      | |- tr _ (bind (catch_cls _ _ _) _) _ => apply tr_bind_catch_cls; [stab2 | | intros ?]
      | |- tr _ (bind (match ?x with _ => _ end) _) _ => destruct x eqn:?
      | |- tr _ (bind (if ?c then _ else _) _) _ => destruct c eqn:?
      | |- tr _ (bind _ _) _ => eapply tr_bind with (Q := fun _ _ => True); [stab2 | | intros ?]
      | |- tr _ (if ?c then _ else _) _ => destruct c eqn:?
      | |- tr _ (match ?x with _ => _ end) _ => destruct x eqn:?
      | |- tr _ (let _ := _ in _) _ => cbv zeta
      | |- tr _ ?m _ => let h := head_of m in unfold h
      end ].
Ltac evk :=
  first [ (apply He; stab2) | (eapply tr_true; apply He; stab2) | (apply Hr; stab2) | (apply Hce; stab2) | (apply Hcr; stab2) | (apply Hb; stab2) | (eapply tr_true; apply Hv; stab2) | (apply Ha; stab2)
        | (apply Hp; stab2) | (apply Hf; stab2) | (eapply tr_true; apply Hp; stab2) | (eapply tr_true; apply Hf; stab2)
        | (apply tr_eval_arith; stab2) | (apply tr_eval_cmp; stab2)
        | (apply trT_eval_indices; [intros ? ? ?; eapply tr_true; apply He; assumption | stab2])
        | (apply trT_eval_bounds; [intros ? ? ?; eapply tr_true; apply He; assumption | stab2]) ].

Ltac wr_tac := first [eapply newvar_wr0; eassumption | eapply wr_nonconst_meta; eassumption | eapply wr_ptr_meta; eassumption ].
Ltac valok_tac := first [apply valok_nonrec; intros; discriminate | assumption | (eapply resok_payload; eassumption) | (cbn [c_val]; eapply resok_payload; eassumption)].
Ltac fits_tac := first [ assumption | (eapply cellmeta_fits; [eassumption | kind_tac | name_tac]) | (eapply newvar_fits; [eassumption | kind_tac | name_tac]) ].
Ltac ent :=
  intros; cbv beta in *;
  repeat match goal with H : _ /\ _ |- _ => destruct H end;
  first
   [ assumption
   | (eapply own_from_newvar; eassumption)
   | (eapply own_from_cellmeta; [eassumption | reflexivity | eassumption | eassumption])
   | (split; [ wr_tac | split; [ valok_tac | fits_tac ] ])
   | (split; [ wr_tac | fits_tac ])
   | (cbn [c_val c_type]; split; [ valok_tac | split; [ kind_tac | name_tac ] ])
   | wr_tac
   | (eapply resok_payload; eassumption)
   | (apply nonconst_wr; match goal with H : Forall _ _ |- _ => rewrite Forall_forall in H; apply H; assumption end)
   | (cbn [c_val]; eapply resok_payload; eassumption)
   | (eexists; eexists; split; [eassumption | split; [eassumption | (match goal with H : negb (dt_eq _ _) = false |- _ => apply negb_false_iff in H; exact H end)]])
   | (let p := fresh in let E := fresh in intros p E; cbn in E; inversion E; subst; split; [ match goal with H : forall tn k, _ <> PRec tn k |- _ => apply valok_nonrec; exact H end | split; [ kind_tac | name_tac ] ]) ].

Lemma tr_eval_case (P : st -> Prop) x1 x2 x3 ctx0 : stable P -> tr P (eval_body ped lim self (NWriteFile x1 x2 x3) ctx0) (fun r s => resok r s).
Proof.
  intros SP. unfold eval_body.
  ht evk.
  all: try solve [ent].
  all: try solve [bad_contra].
Qed.
End Level3.
