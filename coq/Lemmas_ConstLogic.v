(* Lemmas_Const.v — constants never change: a CONSTANT cell of primitive type that belongs to an ordinary (non-record)
   context keeps its payload through everything the evaluator does, for every syntax tree, fuel and outcome.
   The guards are where the C++ has them (assignment, FOR, INPUT, READFILE, GETRECORD test the flag of the cell they are
   about to write; pointer assignment, record copy and array copy have no test and are safe because of what they write to),
   so the proof is a program logic over the evaluator: triples {P} m {Q} whose frame part (the heap invariant below and
   "protected cells are untouched") is built in, P and Q being facts that stay true whatever runs in between. *)
From PE2 Require Import Eval Lemmas_Copy Lemmas_DeepCopy Lemmas_Out.
Require Import Lia.
Local Open Scope N_scope.
Ltac okf := first [ exact I | reflexivity ].

(* ------------------------------------------------------------------ what is protected *)
Definition prim_kind (k : dkind) : bool :=
  match k with KInt | KReal | KBool | KChar | KStr | KDate => true | _ => false end.
Definition rec_ctx (s : st) (c : N) : Prop := exists cx, nm_get c (s_ctxs s) = Some cx /\ x_isrec cx = true.
Definition plain_ctx (s : st) (c : N) : Prop := exists cx, nm_get c (s_ctxs s) = Some cx /\ x_isrec cx = false.
Definition protected_cell (s : st) (cl : cell) : Prop :=
  c_const cl = true /\ prim_kind (dk (c_type cl)) = true /\ plain_ctx s (c_owner cl).

(* the name of a user type carried by a payload, and its agreement with a declared type *)
Definition pname (p : payload) : option str := match p with PEnum tn _ | PPtr tn _ _ | PRec tn _ => Some tn | _ => None end.
Definition named_ok (p : payload) (ty : dtype) : Prop := forall tn, pname p = Some tn -> dname ty = Some tn.
Definition named_kind (k : dkind) : bool := match k with KEnum | KPtr | KRec => true | _ => false end.
Lemma pname_kind p tn : pname p = Some tn -> named_kind (payload_kind p) = true.
Proof. destruct p; cbn; intros H; try discriminate H; reflexivity. Qed.
Lemma kind_pname p : named_kind (payload_kind p) = true -> exists tn, pname p = Some tn.
Proof. destruct p; cbn; intros H; try discriminate H; eauto. Qed.

(* ------------------------------------------------------------------ the heap invariant *)
Record Inv (s : st) : Prop := mkInv {
  i_hb : hb s;
  (* the variables listed in a record's private context are cells of a record context *)
  i_recvars : forall rc cx nm id, nm_get rc (s_ctxs s) = Some cx -> x_isrec cx = true -> In (nm, id) (x_vars cx) ->
              exists cl, nm_get id (s_cells s) = Some cl /\ rec_ctx s (c_owner cl);
  (* array elements are never constants *)
  i_elems : forall a ar e, nm_get a (s_arrs s) = Some ar -> In e (a_elems ar) ->
            exists cl, nm_get e (s_cells s) = Some cl /\ c_const cl = false /\ c_type cl = a_type ar;
  (* a record value in a cell refers to a record context *)
  i_recval : forall id cl tn c, nm_get id (s_cells s) = Some cl -> c_val cl = PRec tn c -> rec_ctx s c;
  (* so does a record value kept as a function's return value *)
  i_retval : forall id cx r tn c, nm_get id (s_ctxs s) = Some cx -> x_retval cx = Some r -> r_val r = Some (PRec tn c) -> rec_ctx s c;
  (* the payload of a cell is of the kind its declared type says: no value is ever reinterpreted as another type *)
  i_kind : forall id cl, nm_get id (s_cells s) = Some cl -> payload_kind (c_val cl) = dk (c_type cl);
  (* and a kept return value is of the kind its own type says *)
  i_retkind : forall id cx r p, nm_get id (s_ctxs s) = Some cx -> x_retval cx = Some r -> r_val r = Some p -> payload_kind p = dk (r_type r);
  (* and of the user type it says: an enumerated, pointer or record value carries the name of the declared type *)
  i_name : forall id cl, nm_get id (s_cells s) = Some cl -> named_ok (c_val cl) (c_type cl);
  i_retname : forall id cx r p, nm_get id (s_ctxs s) = Some cx -> x_retval cx = Some r -> r_val r = Some p -> named_ok p (r_type r) }.

(* ------------------------------------------------------------------ what every computation keeps *)
Definition same_ctx_kind (c c' : ctx) : Prop := x_isrec c' = x_isrec c.
Record K (s s' : st) : Prop := mkK {
  k_next : s_next s <= s_next s';
  k_meta : forall id cl, nm_get id (s_cells s) = Some cl -> exists cl', nm_get id (s_cells s') = Some cl' /\ same_meta cl cl';
  k_ctx : forall id cx, nm_get id (s_ctxs s) = Some cx -> exists cx', nm_get id (s_ctxs s') = Some cx' /\ same_ctx_kind cx cx';
  k_arr : forall id a, nm_get id (s_arrs s) = Some a -> nm_get id (s_arrs s') = Some a;
  k_prot : forall id cl, nm_get id (s_cells s) = Some cl -> protected_cell s cl -> nm_get id (s_cells s') = Some cl }.

Lemma K_refl s : K s s.
Proof. constructor; intros; eauto; try lia. - exists cl. split; [assumption|apply same_meta_refl]. - exists cx. split; [assumption|reflexivity]. Qed.

Lemma plain_ctx_K s s' c : K s s' -> plain_ctx s c -> plain_ctx s' c.
Proof. intros H [cx [E F]]. destruct (k_ctx _ _ H c cx E) as [cx' [E' S]]. exists cx'. split; [exact E'|]. unfold same_ctx_kind in S. congruence. Qed.
Lemma rec_ctx_K s s' c : K s s' -> rec_ctx s c -> rec_ctx s' c.
Proof. intros H [cx [E F]]. destruct (k_ctx _ _ H c cx E) as [cx' [E' S]]. exists cx'. split; [exact E'|]. unfold same_ctx_kind in S. congruence. Qed.
Lemma protected_K s s' cl : K s s' -> protected_cell s cl -> protected_cell s' cl.
Proof. intros H [A [B C]]. split; [exact A|]. split; [exact B|]. eapply plain_ctx_K; eauto. Qed.

Lemma K_trans a b c : K a b -> K b c -> K a c.
Proof.
  intros H1 H2. constructor.
  - pose proof (k_next _ _ H1). pose proof (k_next _ _ H2). lia.
  - intros id cl E. destruct (k_meta _ _ H1 id cl E) as [x [Ex Mx]]. destruct (k_meta _ _ H2 id x Ex) as [y [Ey My]].
    exists y. split; [exact Ey|eapply same_meta_trans; eauto].
  - intros id cx E. destruct (k_ctx _ _ H1 id cx E) as [x [Ex Mx]]. destruct (k_ctx _ _ H2 id x Ex) as [y [Ey My]].
    exists y. split; [exact Ey|]. unfold same_ctx_kind in *. congruence.
  - intros id x E. apply (k_arr _ _ H2). apply (k_arr _ _ H1). exact E.
  - intros id cl E P. pose proof (k_prot _ _ H1 id cl E P) as E1. apply (k_prot _ _ H2 id cl E1). eapply protected_K; eauto.
Qed.

(* ------------------------------------------------------------------ facts that stay true *)
Definition stable (F : st -> Prop) : Prop := forall s s', K s s' -> F s -> F s'.
(* the cell exists and has this name, type, CONSTANT flag and owner *)
Definition cellmeta (id : N) (cl : cell) (s : st) : Prop := exists c', nm_get id (s_cells s) = Some c' /\ same_meta cl c'.
(* the cell exists and may be written: it is not a protected constant *)
Definition writable (id : N) (s : st) : Prop := exists cl, nm_get id (s_cells s) = Some cl /\ ~ protected_cell s cl.
Definition ctxkind (c : N) (b : bool) (s : st) : Prop := exists cx, nm_get c (s_ctxs s) = Some cx /\ x_isrec cx = b.

Lemma stable_true : stable (fun _ => True).
Proof. intros s s' _ _. okf. Qed.
Lemma stable_and F G : stable F -> stable G -> stable (fun s => F s /\ G s).
Proof. intros HF HG s s' H [A B]. split; [eapply HF|eapply HG]; eauto. Qed.
Lemma stable_pure (X : Prop) : stable (fun _ => X).
Proof. intros s s' _ H. exact H. Qed.
Lemma stable_cellmeta id cl : stable (cellmeta id cl).
Proof. intros s s' H [c' [E M]]. destruct (k_meta _ _ H id c' E) as [c'' [E' M']]. exists c''. split; [exact E'|eapply same_meta_trans; eauto]. Qed.
Lemma stable_ctxkind c b : stable (ctxkind c b).
Proof. intros s s' H [cx [E F]]. destruct (k_ctx _ _ H c cx E) as [cx' [E' S]]. exists cx'. split; [exact E'|]. unfold same_ctx_kind in S. congruence. Qed.

(* a cell whose flag, type or owner rule it out is writable, and stays so *)
Definition unprotected_meta (s : st) (cl : cell) : Prop :=
  c_const cl = false \/ prim_kind (dk (c_type cl)) = false \/ rec_ctx s (c_owner cl).
Lemma unprotected_not_protected s cl : unprotected_meta s cl -> ~ protected_cell s cl.
Proof.
  intros [H|[H|[cx [E F]]]] [A [B [cx' [E' F']]]]; try congruence.
Qed.
Definition wr (id : N) (s : st) : Prop := exists cl, nm_get id (s_cells s) = Some cl /\ unprotected_meta s cl.
Lemma wr_writable id s : wr id s -> writable id s.
Proof. intros [cl [E U]]. exists cl. split; [exact E|apply unprotected_not_protected; exact U]. Qed.
Lemma stable_wr id : stable (wr id).
Proof.
  intros s s' H [cl [E U]]. destruct (k_meta _ _ H id cl E) as [cl' [E' [M1 [M2 [M3 M4]]]]]. exists cl'. split; [exact E'|].
  unfold unprotected_meta in *. rewrite M2, M3, M4. destruct U as [U|[U|U]]; auto. right. right. eapply rec_ctx_K; eauto.
Qed.
Lemma cellmeta_wr id cl s : cellmeta id cl s -> (c_const cl = false \/ prim_kind (dk (c_type cl)) = false) -> wr id s.
Proof.
  intros [c' [E [M1 [M2 [M3 M4]]]]] H. exists c'. split; [exact E|]. unfold unprotected_meta. rewrite M2, M3. destruct H; auto.
Qed.

(* ------------------------------------------------------------------ triples *)
(* the failures a computation may end in: anything but the abort that stands for "a variable holds an object of another class than
   its type says" (static_cast on the wrong class in the C++) *)
Definition bad_site (w : string) : bool :=
  String.eqb w "cell payload disagrees with its type" || String.eqb w "Variable::set: payload reinterpreted as another type".
Definition ok_fail (f : fail) : Prop := match f with FCrash w => bad_site w = false | _ => True end.
Definition ok_out {A} (o : outcome A) : Prop := match o with Ok _ => True | Fail f => ok_fail f end.
Definition tr {A} (P : st -> Prop) (m : M A) (Q : A -> st -> Prop) : Prop :=
  forall s, Inv s -> P s ->
    Inv (snd (m s)) /\ K s (snd (m s)) /\ match fst (m s) with Ok a => Q a (snd (m s)) | Fail f => ok_fail f end.

Lemma tr_ret {A} (P : st -> Prop) (a : A) : tr P (ret a) (fun x s => x = a /\ P s).
Proof. intros s HI HP. cbn. split; [exact HI|]. split; [apply K_refl|auto]. Qed.
Lemma tr_failm {A} (P : st -> Prop) f (Q : A -> st -> Prop) : ok_fail f -> tr P (failm f) Q.
Proof. intros Hf s HI HP. cbn. split; [exact HI|]. split; [apply K_refl|exact Hf]. Qed.
Lemma tr_post {A} (P : st -> Prop) (m : M A) (Q Q' : A -> st -> Prop) : tr P m Q -> (forall a s, Q a s -> Q' a s) -> tr P m Q'.
Proof. intros H HQ s HI HP. destruct (H s HI HP) as [A1 [A2 A3]]. split; [exact A1|]. split; [exact A2|]. destruct (fst (m s)); auto. Qed.
Lemma tr_pre {A} (P P' : st -> Prop) (m : M A) (Q : A -> st -> Prop) : (forall s, P s -> P' s) -> tr P' m Q -> tr P m Q.
Proof. intros HP H s HI Hs. apply (H s HI (HP s Hs)). Qed.
Lemma tr_true {A} (P : st -> Prop) (m : M A) (Q : A -> st -> Prop) : tr P m Q -> tr P m (fun _ _ => True).
Proof. intros H. eapply tr_post; [exact H|auto]. Qed.

(* sequencing: what held before stays true, what the first computation established is known to the second *)
Lemma tr_bind {A B} (P : st -> Prop) (m : M A) (Q : A -> st -> Prop) (k : A -> M B) (R : B -> st -> Prop) :
  stable P -> tr P m Q -> (forall a, tr (fun s => P s /\ Q a s) (k a) R) -> tr P (bind m k) R.
Proof.
  intros SP Hm Hk s HI HP. unfold bind. destruct (Hm s HI HP) as [A1 [A2 A3]].
  destruct (m s) as [[a|f] s1]; cbn [fst snd] in *.
  - destruct (Hk a s1 A1 (conj (SP _ _ A2 HP) A3)) as [B1 [B2 B3]]. split; [exact B1|]. split; [eapply K_trans; eauto|exact B3].
  - split; [exact A1|]. split; [exact A2|exact A3].
Qed.
Lemma tr_catch {A} (P : st -> Prop) (m : M A) (Q : A -> st -> Prop) h : stable P -> tr P m Q -> (forall f m', h f = Some m' -> tr P m' Q) -> tr P (catch m h) Q.
Proof.
  intros SP Hm Hh s HI HP. unfold catch. destruct (Hm s HI HP) as [A1 [A2 A3]].
  destruct (m s) as [[a|f] s1]; cbn [fst snd] in *; [auto|].
  destruct (h f) as [m'|] eqn:E; [|cbn [fst snd]; auto].
  destruct (Hh f m' E s1 A1 (SP _ _ A2 HP)) as [B1 [B2 B3]]. split; [exact B1|]. split; [eapply K_trans; eauto|exact B3].
Qed.

(* a computation that leaves the state alone *)
Definition ro {A} (m : M A) : Prop := forall s, snd (m s) = s.
(* a computation that does not end in the excluded abort *)
Definition nb {A} (m : M A) : Prop := forall s, ok_out (fst (m s)).
Lemma tr_ro {A} (P : st -> Prop) (m : M A) : ro m -> nb m -> tr P m (fun _ s => P s).
Proof. intros H Hn s HI HP. rewrite (H s). split; [exact HI|]. split; [apply K_refl|]. specialize (Hn s). destruct (fst (m s)); [exact HP|exact Hn]. Qed.
Lemma nb_ret {A} (a : A) : nb (ret a). Proof. intros s; okf. Qed.
Lemma nb_failm {A} f : ok_fail f -> nb (@failm A f). Proof. intros H s; exact H. Qed.
Lemma nb_crash {A} w : bad_site w = false -> nb (@crash A w). Proof. intros H s; exact H. Qed.
Lemma nb_gets {A} (f : st -> A) : nb (gets f). Proof. intros s; okf. Qed.
Lemma nb_bind {A B} (m : M A) (k : A -> M B) : nb m -> (forall a, nb (k a)) -> nb (bind m k).
Proof. intros Hm Hk s. unfold bind. specialize (Hm s). destruct (m s) as [[a|f] s1]; cbn [fst snd] in *; [apply Hk|exact Hm]. Qed.
Lemma nb_if {A} (b : bool) (m1 m2 : M A) : nb m1 -> nb m2 -> nb (if b then m1 else m2).
Proof. destruct b; auto. Qed.
Lemma nb_get_cell id : nb (get_cell id). Proof. intros s. unfold get_cell. destruct (nm_get id (s_cells s)); [okf|reflexivity]. Qed.
Lemma nb_get_arr id : nb (get_arr id). Proof. intros s. unfold get_arr. destruct (nm_get id (s_arrs s)); [okf|reflexivity]. Qed.
Lemma nb_get_ctx id : nb (get_ctx id). Proof. intros s. unfold get_ctx. destruct (nm_get id (s_ctxs s)); [okf|reflexivity]. Qed.
Lemma ro_ret {A} (a : A) : ro (ret a). Proof. intros s; reflexivity. Qed.
Lemma ro_failm {A} f : ro (@failm A f). Proof. intros s; reflexivity. Qed.
Lemma ro_gets {A} (f : st -> A) : ro (gets f). Proof. intros s; reflexivity. Qed.
Lemma ro_bind {A B} (m : M A) (k : A -> M B) : ro m -> (forall a, ro (k a)) -> ro (bind m k).
Proof. intros Hm Hk s. unfold bind. specialize (Hm s). destruct (m s) as [[a|f] s1]; cbn in *; subst; [apply Hk|reflexivity]. Qed.
Lemma ro_get_cell id : ro (get_cell id). Proof. intros s. unfold get_cell. destruct (nm_get id (s_cells s)); reflexivity. Qed.
Lemma ro_get_arr id : ro (get_arr id). Proof. intros s. unfold get_arr. destruct (nm_get id (s_arrs s)); reflexivity. Qed.
Lemma ro_get_ctx id : ro (get_ctx id). Proof. intros s. unfold get_ctx. destruct (nm_get id (s_ctxs s)); reflexivity. Qed.

(* an update of anything but the heap *)
Definition heap_same (s s' : st) : Prop := s_next s' = s_next s /\ s_cells s' = s_cells s /\ s_arrs s' = s_arrs s /\ s_ctxs s' = s_ctxs s.
Lemma Inv_heap_same s s' : heap_same s s' -> Inv s -> Inv s'.
Proof.
  intros [H1 [H2 [H3 H4]]] [A B C D E F G IN IRN]. constructor; unfold hb, rec_ctx in *; rewrite ?H1, ?H2, ?H3, ?H4; auto.
Qed.
Lemma K_heap_same s s' : heap_same s s' -> K s s'.
Proof.
  intros [H1 [H2 [H3 H4]]]. constructor; rewrite ?H1, ?H2, ?H3, ?H4; intros; eauto; try lia.
  - exists cl. split; [assumption|apply same_meta_refl].
  - exists cx. split; [assumption|reflexivity].
Qed.
Lemma tr_modify_other (P : st -> Prop) f : stable P -> (forall s, heap_same s (f s)) -> tr P (modify f) (fun _ s => P s).
Proof.
  intros SP H s HI HP. cbn. pose proof (K_heap_same _ _ (H s)) as HK. split; [eapply Inv_heap_same; eauto|]. split; [exact HK|eapply SP; eauto].
Qed.

(* ------------------------------------------------------------------ primitives *)
Definition valok (v : payload) (s : st) : Prop := forall tn c, v = PRec tn c -> ctxkind c true s.
Lemma stable_valok v : stable (valok v).
Proof. intros s s' H V tn c E. eapply stable_ctxkind; eauto. Qed.
Lemma valok_nonrec v s : (forall tn c, v <> PRec tn c) -> valok v s.
Proof. intros H tn c E. exfalso. eapply H; eauto. Qed.
Lemma rec_ctx_kind s c : rec_ctx s c <-> ctxkind c true s.
Proof. unfold rec_ctx, ctxkind. tauto. Qed.
(* the value is of the kind the cell's declared type says *)
Definition fits (id : N) (v : payload) (s : st) : Prop := exists cl, nm_get id (s_cells s) = Some cl /\ payload_kind v = dk (c_type cl) /\ named_ok v (c_type cl).
Lemma stable_fits id v : stable (fits id v).
Proof. intros s s' H [cl [E [F G]]]. destruct (k_meta _ _ H id cl E) as [cl' [E' [_ [M2 _]]]]. exists cl'. split; [exact E'|]. rewrite M2. split; assumption. Qed.
Lemma cellmeta_fits id cl v s : cellmeta id cl s -> payload_kind v = dk (c_type cl) -> named_ok v (c_type cl) -> fits id v s.
Proof. intros [c' [E [_ [M2 _]]]] H G. exists c'. split; [exact E|]. rewrite M2. split; assumption. Qed.
Lemma named_ok_prim v ty : pname v = None -> named_ok v ty.
Proof. intros H tn E. congruence. Qed.
(* a result: a record value refers to a record context, and the value is of the kind the result's type says *)
Definition resok (r : result) (s : st) : Prop := forall p, r_val r = Some p -> valok p s /\ payload_kind p = dk (r_type r) /\ named_ok p (r_type r).
Lemma stable_resok r : stable (resok r).
Proof. intros s s' H R p E. destruct (R p E) as [A B]. split; [eapply stable_valok; eauto|exact B]. Qed.
Definition nonconst (id : N) (s : st) : Prop := exists cl, nm_get id (s_cells s) = Some cl /\ c_const cl = false.
Lemma stable_nonconst id : stable (nonconst id).
Proof. intros s s' H [cl [E C]]. destruct (k_meta _ _ H id cl E) as [cl' [E' [_ [_ [M3 _]]]]]. exists cl'. split; [exact E'|congruence]. Qed.
Lemma nonconst_wr id s : nonconst id s -> wr id s.
Proof. intros [cl [E C]]. exists cl. split; [exact E|left; exact C]. Qed.
Lemma stable_Forall {A} (F : A -> st -> Prop) l : (forall x, stable (F x)) -> stable (fun s => Forall (fun x => F x s) l).
Proof. intros H s s' HK HF. eapply Forall_impl; [|exact HF]. intros x Hx. eapply H; eauto. Qed.

(* reading a cell: its name, type, flag and owner are known from now on; a record value in it refers to a record context *)
Lemma tr_get_cell (P : st -> Prop) id :
  tr P (get_cell id) (fun cl s => cellmeta id cl s /\ valok (c_val cl) s /\ payload_kind (c_val cl) = dk (c_type cl) /\ named_ok (c_val cl) (c_type cl)).
Proof.
  intros s HI HP. unfold get_cell. destruct (nm_get id (s_cells s)) as [cl|] eqn:E; cbn [fst snd]; (split; [exact HI|]; split; [apply K_refl|]); [|okf].
  split; [exists cl; split; [exact E|apply same_meta_refl]|]. split; [|split; [eapply (i_kind s HI); eauto|eapply (i_name s HI); eauto]]. intros tn c Ev. apply rec_ctx_kind. eapply (i_recval s HI); eauto.
Qed.
(* reading an array: its elements may be written *)
Definition hastype (e : N) (ty : dtype) (s : st) : Prop := exists cl, nm_get e (s_cells s) = Some cl /\ c_type cl = ty /\ (named_kind (dk ty) = true -> dname ty <> None).
Lemma stable_hastype e ty : stable (hastype e ty).
Proof. intros s s' H [cl [E [T Nm]]]. destruct (k_meta _ _ H e cl E) as [cl' [E' [_ [M2 _]]]]. exists cl'. split; [exact E'|]. split; [congruence|exact Nm]. Qed.
Lemma Inv_type_named s id cl : Inv s -> nm_get id (s_cells s) = Some cl -> named_kind (dk (c_type cl)) = true -> dname (c_type cl) <> None.
Proof.
  intros HI E Hk. rewrite <- (i_kind s HI id cl E) in Hk. destruct (kind_pname _ Hk) as [tn Hp]. rewrite (i_name s HI id cl E tn Hp). discriminate.
Qed.
Definition arris (id : N) (ar : arr) (s : st) : Prop := nm_get id (s_arrs s) = Some ar.
Lemma stable_arris id ar : stable (arris id ar).
Proof. intros s s' H E. apply (k_arr _ _ H). exact E. Qed.
Lemma tr_get_arr (P : st -> Prop) id :
  tr P (get_arr id) (fun ar s => Forall (fun e => nonconst e s) (a_elems ar) /\ Forall (fun e => hastype e (a_type ar) s) (a_elems ar) /\ arris id ar s).
Proof.
  intros s HI HP. unfold get_arr. destruct (nm_get id (s_arrs s)) as [ar|] eqn:E; cbn [fst snd]; (split; [exact HI|]; split; [apply K_refl|]); [|okf].
  split; [|split; [|exact E]]; apply Forall_forall; intros e He; destruct (i_elems s HI id ar e E He) as [cl [Ecl [C T]]]; exists cl; [auto|].
  split; [exact Ecl|]. split; [exact T|]. rewrite <- T. eapply Inv_type_named; eauto.
Qed.
(* reading a context: its kind is known; the variables of a record's context may be written; a kept return value is a proper value *)
Definition retok (cx : ctx) (s : st) : Prop := forall r, x_retval cx = Some r -> resok r s.
Lemma stable_retok cx : stable (retok cx).
Proof. intros s s' H R r E1. eapply stable_resok; eauto. Qed.
Lemma tr_get_ctx (P : st -> Prop) id :
  tr P (get_ctx id) (fun cx s => ctxkind id (x_isrec cx) s /\ (x_isrec cx = true -> Forall (fun nv : str * N => wr (snd nv) s) (x_vars cx)) /\ retok cx s).
Proof.
  intros s HI HP. unfold get_ctx. destruct (nm_get id (s_ctxs s)) as [cx|] eqn:E; cbn [fst snd]; (split; [exact HI|]; split; [apply K_refl|]); [|okf].
  split; [exists cx; auto|]. split.
  - intros Hr. apply Forall_forall. intros [nm v] Hin.
    destruct (i_recvars s HI id cx nm v E Hr Hin) as [cl [Ecl Ho]]. exists cl. split; [exact Ecl|]. right. right. exact Ho.
  - intros r E1 p E2. split; [|split; [eapply (i_retkind s HI); eauto|eapply (i_retname s HI); eauto]]. intros tn c ->. apply rec_ctx_kind. eapply (i_retval s HI); eauto.
Qed.

(* ---- writing a payload ---- *)
Lemma rec_ctx_same_ctxs s s' c : s_ctxs s' = s_ctxs s -> rec_ctx s c -> rec_ctx s' c.
Proof. intros E [cx H]. exists cx. rewrite E. exact H. Qed.
Lemma plain_ctx_same_ctxs s s' c : s_ctxs s' = s_ctxs s -> plain_ctx s c -> plain_ctx s' c.
Proof. intros E [cx H]. exists cx. rewrite E. exact H. Qed.

Lemma tr_set_cell_val (P : st -> Prop) id v : (forall s, P s -> wr id s /\ valok v s /\ fits id v s) -> tr P (set_cell_val id v) (fun _ _ => True).
Proof.
  intros Hpre s HI HP. destruct (Hpre s HP) as [[c0 [E0 U0]] [HV [c1 [E1 [HF HN]]]]]. assert (c1 = c0) by congruence. subst c1. unfold set_cell_val, bind, get_cell. rewrite E0. cbn [fst snd put_cell modify].
  set (c' := mkCell (c_name c0) (c_type c0) (c_const c0) (c_owner c0) v).
  set (s' := set_cells (nm_put id c' (s_cells s)) s).
  assert (Ec : s_ctxs s' = s_ctxs s) by reflexivity.
  assert (G : forall j, nm_get j (s_cells s') = if N.eq_dec id j then Some c' else nm_get j (s_cells s)).
  { intros j. unfold s'. cbn. destruct (N.eq_dec id j) as [<-|Hne]; [apply nm_get_put_same|apply nm_get_put_other; exact Hne]. }
  split; [|split; [|okf]].
  - destruct HI as [[H1 [H2 H3]] B C D E IK IR IN IRN]. constructor.
    + split; [|split]; [|exact H2|exact H3]. intros j x Ex. rewrite G in Ex. destruct (N.eq_dec id j) as [<-|Hne]; [apply (H1 id c0 E0)|apply (H1 j x Ex)].
    + intros rc cx nm j Erc Hr Hin. destruct (B rc cx nm j Erc Hr Hin) as [cl [Ecl Ho]]. rewrite G. destruct (N.eq_dec id j) as [<-|Hne].
      * exists c'. split; [reflexivity|]. assert (cl = c0) by congruence. subst cl. cbn. apply (rec_ctx_same_ctxs s s' _ Ec Ho).
      * exists cl. split; [exact Ecl|apply (rec_ctx_same_ctxs s s' _ Ec Ho)].
    + intros a ar e Ea He. destruct (C a ar e Ea He) as [cl [Ecl Hc]]. rewrite G. destruct (N.eq_dec id e) as [<-|Hne].
      * exists c'. split; [reflexivity|]. assert (cl = c0) by congruence. subst cl. exact Hc.
      * exists cl. auto.
    + intros j cl tn c Ej Ev. rewrite G in Ej. destruct (N.eq_dec id j) as [<-|Hne].
      * inversion Ej; subst cl. cbn in Ev. apply (rec_ctx_same_ctxs s s' _ Ec). apply rec_ctx_kind. eapply HV; eauto.
      * apply (rec_ctx_same_ctxs s s' _ Ec). eapply D; eauto.
    + intros j cx r tn c Ej Er Ev. apply (rec_ctx_same_ctxs s s' _ Ec). eapply E; eauto.
    + intros j cl Ej. rewrite G in Ej. destruct (N.eq_dec id j) as [<-|Hne]; [inversion Ej; subst cl; cbn; exact HF|eapply IK; eauto].
    + intros j cx r p Ej Er Ev. eapply IR; eauto.
    + intros j cl Ej. rewrite G in Ej. destruct (N.eq_dec id j) as [<-|Hne]; [inversion Ej; subst cl; cbn; exact HN|eapply IN; eauto].
    + intros j cx r p Ej Er Ev. eapply IRN; eauto.
  - constructor.
    + cbn. lia.
    + intros j cl Ej. rewrite G. destruct (N.eq_dec id j) as [<-|Hne].
      * exists c'. split; [reflexivity|]. assert (cl = c0) by congruence. subst cl. repeat split.
      * exists cl. split; [exact Ej|apply same_meta_refl].
    + intros j cx Ej. exists cx. split; [exact Ej|reflexivity].
    + intros j a Ej. exact Ej.
    + intros j cl Ej Pj. rewrite G. destruct (N.eq_dec id j) as [<-|Hne]; [|exact Ej].
      exfalso. assert (cl = c0) by congruence. subst cl. exact (unprotected_not_protected s c0 U0 Pj).
Qed.

(* ---- allocation ---- *)
Lemma rec_ctx_ext s s' c : ext s s' -> rec_ctx s c -> rec_ctx s' c.
Proof. intros [_ [_ E]] [cx [H F]]. exists cx. split; [apply E; exact H|exact F]. Qed.
Lemma plain_ctx_ext s s' c : ext s s' -> plain_ctx s c -> plain_ctx s' c.
Proof. intros [_ [_ E]] [cx [H F]]. exists cx. split; [apply E; exact H|exact F]. Qed.

Lemma K_of_ext s s' : ext s s' -> s_next s <= s_next s' -> s_arrs s' = s_arrs s \/ True -> K s s'.
Proof.
  intros [E1 [E2 E3]] Hn _. constructor; [exact Hn| | | |].
  - intros id cl E. exists cl. split; [apply E1; exact E|apply same_meta_refl].
  - intros id cx E. exists cx. split; [apply E3; exact E|reflexivity].
  - intros id a E. apply E2. exact E.
  - intros id cl E _. apply E1. exact E.
Qed.

Lemma alloc_cell_inv cl s : Inv s -> valok (c_val cl) s -> payload_kind (c_val cl) = dk (c_type cl) -> named_ok (c_val cl) (c_type cl) ->
  Inv (alloc_cell cl s) /\ K s (alloc_cell cl s) /\ cellmeta (s_next s) cl (alloc_cell cl s).
Proof.
  intros HI HV HKd HNm. destruct (alloc_cell_spec cl s (i_hb s HI)) as [Hb' [[Hext [_ Hn]] Hg]].
  assert (Ec : s_ctxs (alloc_cell cl s) = s_ctxs s) by reflexivity.
  assert (Ea : s_arrs (alloc_cell cl s) = s_arrs s) by reflexivity.
  split; [|split; [apply K_of_ext; auto|exists cl; split; [exact Hg|apply same_meta_refl]]].
  destruct HI as [A B C D E IK IR IN IRN]. constructor; [exact Hb'| | | | | | | |].
  - intros rc cx nm j Erc Hr Hin. rewrite Ec in Erc. destruct (B rc cx nm j Erc Hr Hin) as [x [Ex Ho]].
    exists x. split; [apply (proj1 Hext); exact Ex|apply (rec_ctx_same_ctxs s _ _ Ec Ho)].
  - intros a ar e Ea' He. rewrite Ea in Ea'. destruct (C a ar e Ea' He) as [x [Ex Hc]]. exists x. split; [apply (proj1 Hext); exact Ex|exact Hc].
  - intros j x tn c Ej Ev. apply (rec_ctx_same_ctxs s _ _ Ec).
    destruct (N.eq_dec (s_next s) j) as [<-|Hne].
    + rewrite Hg in Ej. inversion Ej; subst x. apply rec_ctx_kind. eapply HV; eauto.
    + unfold alloc_cell in Ej. cbn in Ej. rewrite nm_get_put_other in Ej by exact Hne. eapply D; eauto.
  - intros j cx r tn c Ej Er Ev. rewrite Ec in Ej. apply (rec_ctx_same_ctxs s _ _ Ec). eapply E; eauto.
  - intros j x Ej. destruct (N.eq_dec (s_next s) j) as [<-|Hne].
    + rewrite Hg in Ej. inversion Ej; subst x. exact HKd.
    + unfold alloc_cell in Ej. cbn in Ej. rewrite nm_get_put_other in Ej by exact Hne. eapply IK; eauto.
  - intros j cx r p Ej Er Ev. rewrite Ec in Ej. eapply IR; eauto.
  - intros j x Ej. destruct (N.eq_dec (s_next s) j) as [<-|Hne].
    + rewrite Hg in Ej. inversion Ej; subst x. exact HNm.
    + unfold alloc_cell in Ej. cbn in Ej. rewrite nm_get_put_other in Ej by exact Hne. eapply IN; eauto.
  - intros j cx r p Ej Er Ev. rewrite Ec in Ej. eapply IRN; eauto.
Qed.

Lemma tr_alloc_cell {B} (P : st -> Prop) cl (k : N -> M B) R : stable P ->
  (forall s, P s -> valok (c_val cl) s /\ payload_kind (c_val cl) = dk (c_type cl) /\ named_ok (c_val cl) (c_type cl)) ->
  (forall id, tr (fun s => P s /\ cellmeta id cl s) (k id) R) ->
  tr P (id <- fresh ;; put_cell id cl ;;; k id) R.
Proof.
  intros SP HV Hk s HI HP. unfold bind, fresh, put_cell, modify. cbn [fst snd].
  change (set_cells _ _) with (alloc_cell cl s).
  destruct (alloc_cell_inv cl s HI (proj1 (HV s HP)) (proj1 (proj2 (HV s HP))) (proj2 (proj2 (HV s HP)))) as [I1 [K1 M1]].
  destruct (Hk (s_next s) (alloc_cell cl s) I1 (conj (SP _ _ K1 HP) M1)) as [I2 [K2 Q2]].
  split; [exact I2|]. split; [eapply K_trans; eauto|exact Q2].
Qed.

Lemma alloc_arr_inv a s : Inv s -> Forall (fun e => nonconst e s /\ hastype e (a_type a) s) (a_elems a) -> Inv (alloc_arr a s) /\ K s (alloc_arr a s).
Proof.
  intros HI HE. destruct (alloc_arr_spec a s (i_hb s HI)) as [Hb' [[Hext [_ Hn]] Hg]].
  assert (Ec : s_ctxs (alloc_arr a s) = s_ctxs s) by reflexivity.
  assert (Ece : s_cells (alloc_arr a s) = s_cells s) by reflexivity.
  split; [|apply K_of_ext; auto].
  destruct HI as [A B C D E IK IR IN IRN]. constructor; [exact Hb'| | | | | | | |].
  - intros rc cx nm j Erc Hr Hin. rewrite Ec in Erc. rewrite Ece. destruct (B rc cx nm j Erc Hr Hin) as [x [Ex Ho]].
    exists x. split; [exact Ex|apply (rec_ctx_same_ctxs s _ _ Ec Ho)].
  - intros j ar e Ej He. rewrite Ece. destruct (N.eq_dec (s_next s) j) as [<-|Hne].
    + rewrite Hg in Ej. inversion Ej; subst ar. rewrite Forall_forall in HE. destruct (HE e He) as [[cl [E1 C1]] [cl2 [E2 [T2 _]]]].
      exists cl. split; [exact E1|]. split; [exact C1|congruence].
    + unfold alloc_arr in Ej. cbn in Ej. rewrite nm_get_put_other in Ej by exact Hne. eapply C; eauto.
  - intros j x tn c Ej Ev. rewrite Ece in Ej. apply (rec_ctx_same_ctxs s _ _ Ec). eapply D; eauto.
  - intros j cx r tn c Ej Er Ev. rewrite Ec in Ej. apply (rec_ctx_same_ctxs s _ _ Ec). eapply E; eauto.
  - intros j x Ej. rewrite Ece in Ej. eapply IK; eauto.
  - intros j cx r p Ej Er Ev. rewrite Ec in Ej. eapply IR; eauto.
  - intros j x Ej. rewrite Ece in Ej. eapply IN; eauto.
  - intros j cx r p Ej Er Ev. rewrite Ec in Ej. eapply IRN; eauto.
Qed.
Lemma tr_alloc_arr {B} (P : st -> Prop) a (k : N -> M B) R : stable P ->
  (forall s, P s -> Forall (fun e => nonconst e s /\ hastype e (a_type a) s) (a_elems a)) ->
  (forall id, tr P (k id) R) ->
  tr P (id <- fresh ;; put_arr id a ;;; k id) R.
Proof.
  intros SP HV Hk s HI HP. unfold bind, fresh, put_arr, modify. cbn [fst snd].
  change (set_arrs _ _) with (alloc_arr a s).
  destruct (alloc_arr_inv a s HI (HV s HP)) as [I1 K1].
  destruct (Hk (s_next s) (alloc_arr a s) I1 (SP _ _ K1 HP)) as [I2 [K2 Q2]].
  split; [exact I2|]. split; [eapply K_trans; eauto|exact Q2].
Qed.

Lemma alloc_ctx_inv cx s : Inv s -> x_vars cx = [] -> x_retval cx = None -> Inv (alloc_ctx cx s) /\ K s (alloc_ctx cx s) /\ ctxkind (s_next s) (x_isrec cx) (alloc_ctx cx s).
Proof.
  intros HI HE HR. destruct (alloc_ctx_spec cx s (i_hb s HI)) as [Hb' [[Hext [_ Hn]] Hg]].
  assert (Ece : s_cells (alloc_ctx cx s) = s_cells s) by reflexivity.
  assert (Ea : s_arrs (alloc_ctx cx s) = s_arrs s) by reflexivity.
  split; [|split; [apply K_of_ext; auto|exists cx; auto]].
  destruct HI as [A B C D E IK IR IN IRN]. constructor; [exact Hb'| | | | | | | |].
  - intros rc cx0 nm j Erc Hr Hin. rewrite Ece. destruct (N.eq_dec (s_next s) rc) as [<-|Hne].
    + rewrite Hg in Erc. inversion Erc; subst cx0. rewrite HE in Hin. contradiction.
    + unfold alloc_ctx in Erc. cbn in Erc. rewrite nm_get_put_other in Erc by exact Hne.
      destruct (B rc cx0 nm j Erc Hr Hin) as [x [Ex Ho]]. exists x. split; [exact Ex|eapply rec_ctx_ext; eauto].
  - intros j ar e Ej He. rewrite Ea in Ej. rewrite Ece. eapply C; eauto.
  - intros j x tn c Ej Ev. rewrite Ece in Ej. eapply rec_ctx_ext; [exact Hext|]. eapply D; eauto.
  - intros j cx0 r tn c Ej Er Ev. eapply rec_ctx_ext; [exact Hext|]. destruct (N.eq_dec (s_next s) j) as [<-|Hne].
    + rewrite Hg in Ej. inversion Ej; subst cx0. congruence.
    + unfold alloc_ctx in Ej. cbn in Ej. rewrite nm_get_put_other in Ej by exact Hne. eapply E; eauto.
  - intros j x Ej. rewrite Ece in Ej. eapply IK; eauto.
  - intros j cx0 r p Ej Er Ev. destruct (N.eq_dec (s_next s) j) as [<-|Hne].
    + rewrite Hg in Ej. inversion Ej; subst cx0. congruence.
    + unfold alloc_ctx in Ej. cbn in Ej. rewrite nm_get_put_other in Ej by exact Hne. eapply IR; eauto.
  - intros j x Ej. rewrite Ece in Ej. eapply IN; eauto.
  - intros j cx0 r p Ej Er Ev. destruct (N.eq_dec (s_next s) j) as [<-|Hne].
    + rewrite Hg in Ej. inversion Ej; subst cx0. congruence.
    + unfold alloc_ctx in Ej. cbn in Ej. rewrite nm_get_put_other in Ej by exact Hne. eapply IRN; eauto.
Qed.
Lemma tr_alloc_ctx {B} (P : st -> Prop) cx (k : N -> M B) R : stable P -> x_vars cx = [] -> x_retval cx = None ->
  (forall id, tr (fun s => P s /\ ctxkind id (x_isrec cx) s) (k id) R) ->
  tr P (id <- fresh ;; put_ctx id cx ;;; k id) R.
Proof.
  intros SP HV HR Hk s HI HP. unfold bind, fresh, put_ctx, modify. cbn [fst snd].
  change (set_ctxs _ _) with (alloc_ctx cx s).
  destruct (alloc_ctx_inv cx s HI HV HR) as [I1 [K1 M1]].
  destruct (Hk (s_next s) (alloc_ctx cx s) I1 (conj (SP _ _ K1 HP) M1)) as [I2 [K2 Q2]].
  split; [exact I2|]. split; [eapply K_trans; eauto|exact Q2].
Qed.

(* ---- updating a context that exists ---- *)
Definition ownrec (id : N) (s : st) : Prop := exists cl, nm_get id (s_cells s) = Some cl /\ rec_ctx s (c_owner cl).
Lemma stable_ownrec id : stable (ownrec id).
Proof.
  intros s s' H [cl [E R]]. destruct (k_meta _ _ H id cl E) as [cl' [E' [_ [_ [_ M4]]]]]. exists cl'. split; [exact E'|]. rewrite M4. eapply rec_ctx_K; eauto.
Qed.

Lemma Inv_retok s c cx r : Inv s -> nm_get c (s_ctxs s) = Some cx -> x_retval cx = Some r -> resok r s.
Proof. intros HI E Er p Ev. split; [|split; [eapply (i_retkind s HI); eauto|eapply (i_retname s HI); eauto]]. intros tn k ->. apply rec_ctx_kind. eapply (i_retval s HI); eauto. Qed.
(* the new record of the context has the same kind; if the context is a record's, every variable it lists is a cell of a record context *)
Lemma upd_ctx_inv c cx cx' s : Inv s -> nm_get c (s_ctxs s) = Some cx -> x_isrec cx' = x_isrec cx ->
  (x_isrec cx = true -> forall nm id, In (nm, id) (x_vars cx') -> ownrec id s) ->
  (forall r, x_retval cx' = Some r -> resok r s) ->
  let s' := set_ctxs (nm_put c cx' (s_ctxs s)) s in Inv s' /\ K s s'.
Proof.
  intros HI E Hk Hv Hret s'.
  assert (G : forall j, nm_get j (s_ctxs s') = if N.eq_dec c j then Some cx' else nm_get j (s_ctxs s)).
  { intros j. unfold s'. cbn. destruct (N.eq_dec c j) as [<-|Hne]; [apply nm_get_put_same|apply nm_get_put_other; exact Hne]. }
  assert (RC : forall j, rec_ctx s j -> rec_ctx s' j).
  { intros j [x [Ex Fx]]. unfold rec_ctx. rewrite G. destruct (N.eq_dec c j) as [<-|Hne]; [exists cx'; split; [reflexivity|]; assert (x = cx) by congruence; subst x; congruence|exists x; auto]. }
  assert (PC : forall j, plain_ctx s j -> plain_ctx s' j).
  { intros j [x [Ex Fx]]. unfold plain_ctx. rewrite G. destruct (N.eq_dec c j) as [<-|Hne]; [exists cx'; split; [reflexivity|]; assert (x = cx) by congruence; subst x; congruence|exists x; auto]. }
  split.
  - destruct HI as [[H1 [H2 H3]] B C D E0 IK IR IN IRN]. constructor.
    + split; [exact H1|]. split; [exact H2|]. intros j x Ex. rewrite G in Ex. destruct (N.eq_dec c j) as [<-|Hne]; [apply (H3 c cx E)|apply (H3 j x Ex)].
    + intros rc x nm j Erc Hr Hin. rewrite G in Erc. destruct (N.eq_dec c rc) as [<-|Hne].
      * inversion Erc; subst x. rewrite Hk in Hr. destruct (Hv Hr nm j Hin) as [cl [Ecl Ho]]. exists cl. split; [exact Ecl|apply RC; exact Ho].
      * destruct (B rc x nm j Erc Hr Hin) as [cl [Ecl Ho]]. exists cl. split; [exact Ecl|apply RC; exact Ho].
    + exact C.
    + intros j cl tn k Ej Ev. apply RC. eapply D; eauto.
    + intros j x r tn k Ej Er Ev. apply RC. rewrite G in Ej. destruct (N.eq_dec c j) as [<-|Hne]; [inversion Ej; subst x; apply rec_ctx_kind; eapply (proj1 (Hret r Er _ Ev)); reflexivity|eapply E0; eauto].
    + exact IK.
    + intros j x r p Ej Er Ev. rewrite G in Ej. destruct (N.eq_dec c j) as [<-|Hne]; [inversion Ej; subst x; exact (proj1 (proj2 (Hret r Er _ Ev)))|eapply IR; eauto].
    + exact IN.
    + intros j x r p Ej Er Ev. rewrite G in Ej. destruct (N.eq_dec c j) as [<-|Hne]; [inversion Ej; subst x; exact (proj2 (proj2 (Hret r Er _ Ev)))|eapply IRN; eauto].
  - constructor.
    + cbn. lia.
    + intros j cl Ej. exists cl. split; [exact Ej|apply same_meta_refl].
    + intros j x Ej. rewrite G. destruct (N.eq_dec c j) as [<-|Hne]; [exists cx'; split; [reflexivity|]; assert (x = cx) by congruence; subst x; exact Hk|exists x; split; [exact Ej|reflexivity]].
    + intros j a Ej. exact Ej.
    + intros j cl Ej _. exact Ej.
Qed.


(* an update that leaves the variable table, the kind and the return value alone (arrays, types, call site) *)
Lemma tr_upd_ctx_keepvars (P : st -> Prop) c f : stable P -> (forall k, x_vars (f k) = x_vars k /\ x_isrec (f k) = x_isrec k /\ x_retval (f k) = x_retval k) ->
  tr P (upd_ctx c f) (fun _ s => P s).
Proof.
  intros SP Hf s HI HP. unfold upd_ctx, bind, get_ctx. destruct (nm_get c (s_ctxs s)) as [cx|] eqn:E; cbn [fst snd put_ctx modify].
  - destruct (Hf cx) as [F1 [F2 F3]].
    destruct (upd_ctx_inv c cx (f cx) s HI E F2) as [I1 K1].
    { intros Hr nm id Hin. rewrite F1 in Hin. destruct (i_recvars s HI c cx nm id E Hr Hin) as [cl H]. exists cl. exact H. }
    { intros r Er. rewrite F3 in Er. eapply Inv_retok; eauto. }
    split; [exact I1|]. split; [exact K1|eapply SP; eauto].
  - split; [exact HI|]. split; [apply K_refl|okf].
Qed.
(* recording the value of RETURN *)
Lemma tr_set_retval (P : st -> Prop) c r : stable P -> (forall s, P s -> resok r s) -> tr P (upd_ctx c (ctx_with_retval (Some r))) (fun _ s => P s).
Proof.
  intros SP Hr s HI HP. unfold upd_ctx, bind, get_ctx. destruct (nm_get c (s_ctxs s)) as [cx|] eqn:E; cbn [fst snd put_ctx modify].
  - destruct (upd_ctx_inv c cx (ctx_with_retval (Some r) cx) s HI E eq_refl) as [I1 K1].
    { intros Hk nm id Hin. cbn in Hin. destruct (i_recvars s HI c cx nm id E Hk Hin) as [cl H]. exists cl. exact H. }
    { intros r0 Er. cbn in Er. inversion Er; subst r0. exact (Hr s HP). }
    split; [exact I1|]. split; [exact K1|eapply SP; eauto].
  - split; [exact HI|]. split; [apply K_refl|okf].
Qed.
(* entering a variable in a context's table: in a record's context only cells of a record context *)
Lemma tr_add_var (P : st -> Prop) c name id : stable P ->
  (forall s, P s -> forall cx, nm_get c (s_ctxs s) = Some cx -> x_isrec cx = true -> ownrec id s) ->
  tr P (add_var c name id) (fun _ s => P s).
Proof.
  intros SP Hpre s HI HP. unfold add_var, upd_ctx, bind, get_ctx. destruct (nm_get c (s_ctxs s)) as [cx|] eqn:E; cbn [fst snd put_ctx modify].
  - destruct (upd_ctx_inv c cx (ctx_with_vars (x_vars cx ++ [(name, id)]) cx) s HI E eq_refl) as [I1 K1].
    { intros Hr nm j Hin. cbn [x_vars ctx_with_vars] in Hin. apply in_app_or in Hin. destruct Hin as [Hin|[Hin|[]]].
      - destruct (i_recvars s HI c cx nm j E Hr Hin) as [cl H]. exists cl. exact H.
      - inversion Hin; subst. eapply Hpre; eauto. }
    { intros r Er. cbn in Er. eapply Inv_retok; eauto. }
    split; [exact I1|]. split; [exact K1|eapply SP; eauto].
  - split; [exact HI|]. split; [apply K_refl|okf].
Qed.

Lemma tr_upd_ctx_gen (P : st -> Prop) c f : stable P -> (forall k, x_isrec (f k) = x_isrec k /\ x_retval (f k) = x_retval k) ->
  (forall s k nm id, P s -> x_isrec k = true -> In (nm, id) (x_vars (f k)) -> In (nm, id) (x_vars k) \/ ownrec id s) ->
  tr P (upd_ctx c f) (fun _ s => P s).
Proof.
  intros SP Hf Hv s HI HP. unfold upd_ctx, bind, get_ctx. destruct (nm_get c (s_ctxs s)) as [cx|] eqn:E; cbn [fst snd put_ctx modify].
  - destruct (Hf cx) as [F2 F3]. destruct (upd_ctx_inv c cx (f cx) s HI E F2) as [I1 K1].
    { intros Hr nm id Hin. destruct (Hv s cx nm id HP Hr Hin) as [H|H]; [|exact H]. destruct (i_recvars s HI c cx nm id E Hr H) as [cl X]. exists cl. exact X. }
    { intros r Er. rewrite F3 in Er. eapply Inv_retok; eauto. }
    split; [exact I1|]. split; [exact K1|eapply SP; eauto].
  - split; [exact HI|]. split; [apply K_refl|okf].
Qed.

(* ---- loops over lists ---- *)
Lemma tr_mapM {A B} (P : st -> Prop) (f : A -> M B) (Q : A -> B -> st -> Prop) l : stable P ->
  (forall x y, stable (Q x y)) -> (forall x, In x l -> tr P (f x) (Q x)) ->
  tr P (mapM f l) (fun ys s => Forall2 (fun x y => Q x y s) l ys).
Proof.
  intros SP SQ. induction l as [|x r IH]; intros H; cbn [mapM].
  - eapply tr_post; [apply tr_ret|]. intros a s [-> _]. constructor.
  - eapply tr_bind; [exact SP|apply H; left; reflexivity|]. intros y.
    eapply tr_bind; [apply stable_and; [exact SP|apply SQ]| |].
    + eapply tr_pre; [|apply IH; intros z Hz; apply H; right; exact Hz]. intros s0 [HA _]. exact HA.
    + intros ys. eapply tr_post; [apply tr_ret|]. intros a s [-> [[_ Hy] Hys]]. constructor; assumption.
Qed.
Lemma tr_iterM {A} (P : st -> Prop) (f : A -> M unit) l : stable P -> (forall x, In x l -> tr P (f x) (fun _ _ => True)) ->
  tr P (iterM f l) (fun _ _ => True).
Proof.
  intros SP. induction l as [|x r IH]; intros H; cbn [iterM]; [eapply tr_true; apply tr_ret|].
  eapply tr_bind; [exact SP|apply H; left; reflexivity|]. intros u. eapply tr_pre; [|apply IH; intros z Hz; apply H; right; exact Hz]. intros s0 [HA _]. exact HA.
Qed.
Lemma tr_zipM {A B} (P : st -> Prop) (f : A -> B -> M unit) l1 : forall l2, stable P ->
  (forall x y, In x l1 -> tr P (f x y) (fun _ _ => True)) -> tr P (zipM f l1 l2) (fun _ _ => True).
Proof.
  induction l1 as [|x r IH]; intros l2 SP H; cbn [zipM]; [eapply tr_true; apply tr_ret|].
  destruct l2 as [|y r2]; [(apply tr_failm; okf)|].
  eapply tr_bind; [exact SP|apply H; left; reflexivity|]. intros u. eapply tr_pre; [|apply IH; [exact SP|intros a b Ha; apply H; right; exact Ha]]. intros s0 [HA _]. exact HA.
Qed.
Lemma tr_repeatM {A} (P : st -> Prop) (m : M A) (Q : A -> st -> Prop) k : stable P -> (forall y, stable (Q y)) -> tr P m Q ->
  tr P (repeatM k m) (fun ys s => Forall (fun y => Q y s) ys).
Proof.
  intros SP SQ H. induction k as [|k IH]; cbn [repeatM].
  - eapply tr_post; [apply tr_ret|]. intros a s [-> _]. constructor.
  - eapply tr_bind; [exact SP|exact H|]. intros y. eapply tr_bind; [apply stable_and; [exact SP|apply SQ]| |].
    + eapply tr_pre; [|exact IH]. intros s0 [HA _]. exact HA.
    + intros ys. eapply tr_post; [apply tr_ret|]. intros a s [-> [[_ Hy] Hys]]. constructor; assumption.
Qed.

Lemma ctxkind_unique c b b' s : ctxkind c b s -> ctxkind c b' s -> b = b'.
Proof. intros [x [E F]] [y [E' F']]. congruence. Qed.
Lemma cellmeta_ownrec id cl s : cellmeta id cl s -> ctxkind (c_owner cl) true s -> ownrec id s.
Proof. intros [c' [E [_ [_ [_ M4]]]]] Hk. exists c'. split; [exact E|]. rewrite M4. apply rec_ctx_kind. exact Hk. Qed.
Lemma cellmeta_nonconst id cl s : cellmeta id cl s -> c_const cl = false -> nonconst id s.
Proof. intros [c' [E [_ [_ [M3 _]]]]] Hc. exists c'. split; [exact E|congruence]. Qed.

Lemma stable_Forall2 {A B} (F : A -> B -> st -> Prop) l l' : (forall x y, stable (F x y)) -> stable (fun s => Forall2 (fun x y => F x y s) l l').
Proof. intros H s s' HK HF. induction HF; constructor; auto. eapply H; eauto. Qed.
Lemma stable_impl (X : Prop) F : stable F -> stable (fun s => X -> F s).
Proof. intros H s s' HK HF x. eapply H; eauto. Qed.

Ltac stab := repeat first [ assumption | apply stable_retok | apply stable_impl | apply stable_and | apply stable_true | apply stable_pure | apply stable_cellmeta | apply stable_ctxkind | apply stable_wr
                          | apply stable_valok | apply stable_nonconst | apply stable_ownrec | apply stable_fits | apply stable_resok | apply stable_hastype | apply stable_arris | (apply stable_Forall; intros ?) | (apply stable_Forall2; intros ? ?) ].

Lemma tr_false {A} (P : st -> Prop) (m : M A) (Q : A -> st -> Prop) : (forall s, P s -> False) -> tr P m Q.
Proof. intros H s _ HP. exfalso. eapply H; eauto. Qed.
(* a branch that would mean "the cell holds an object of another class than its type says": excluded by the kind clause *)
Ltac kind_contra Ed Ek :=
  apply tr_false; let s0 := fresh "s0" in let H0 := fresh "H0" in intros s0 H0; decompose [and] H0;
  match goal with Hk : payload_kind _ = dk _ |- _ => try rewrite Ed in Hk; try rewrite Ek in Hk; cbn in Hk; discriminate Hk end.

(* ------------------------------------------------------------------ Heap.v: the copy constructor *)
Definition copy_val_tr (f : nat) : Prop := forall (P : st -> Prop) p, stable P -> (forall s, P s -> valok p s) ->
  tr P (copy_val f p) (fun v s => valok v s /\ payload_kind v = payload_kind p /\ pname v = pname p).
Definition copy_ctx_tr (f : nat) : Prop := forall (P : st -> Prop) c, stable P -> (forall s, P s -> ctxkind c true s) -> tr P (copy_ctx f c) (fun c' s => ctxkind c' true s).

Lemma Forall2_right {A B} (Q : B -> Prop) (R : A -> B -> Prop) l l' : Forall2 R l l' -> (forall x y, R x y -> Q y) -> Forall Q l'.
Proof. intros F H. induction F; constructor; eauto. Qed.
Lemma named_ok_pname p q ty : pname q = pname p -> named_ok p ty -> named_ok q ty.
Proof. intros E H tn Hq. apply H. congruence. Qed.
Lemma cellmeta_hastype id cl ty s : cellmeta id cl s -> c_type cl = ty -> (named_kind (dk ty) = true -> dname ty <> None) -> hastype id ty s.
Proof. intros [c' [E [_ [M2 _]]]] T Hn. exists c'. split; [exact E|]. split; [congruence|exact Hn]. Qed.

Lemma copy_tr : forall f, copy_val_tr f /\ copy_ctx_tr f.
Proof.
  induction f as [|f [IHv IHc]].
  - split.
    + intros P p SP HV. destruct p; cbn [copy_val]; try (eapply tr_post; [apply tr_ret|]; intros a0 s0 [-> Hs]; split; [apply valok_nonrec; intros; discriminate|split; reflexivity]). (apply tr_failm; okf).
    + intros P c SP HV. cbn [copy_ctx]. (apply tr_failm; okf).
  - split.
    + intros P p SP HV. destruct p as [| | | | | | | |tn c]; cbn [copy_val]; try (eapply tr_post; [apply tr_ret|]; intros a0 s0 [-> Hs]; split; [apply valok_nonrec; intros; discriminate|split; reflexivity]).
      eapply tr_bind; [exact SP|apply IHc; [exact SP|intros s Hs; eapply HV; eauto]|]. intros c'.
      eapply tr_post; [apply tr_ret|]. intros a s [-> [_ Hk]]. split; [|split; reflexivity]. intros tn' c0 E. inversion E; subst. exact Hk.
    + intros P c SP HV. cbn [copy_ctx].
      eapply tr_bind; [exact SP|apply tr_get_ctx|]. intros cx.
      destruct (x_isrec cx) eqn:Hr; [|apply tr_false; intros s [Hs [Hk _]]; pose proof (ctxkind_unique _ _ _ _ Hk (HV s Hs)) as X; congruence].
      apply tr_alloc_ctx; [stab|reflexivity|reflexivity|]. intros id. change (x_isrec (blank_ctx_like cx)) with (x_isrec cx). rewrite Hr.
      set (P1 := fun s => (P s /\ ctxkind c true s /\ (true = true -> Forall (fun nv : str * N => wr (snd nv) s) (x_vars cx)) /\ retok cx s) /\ ctxkind id true s).
      assert (SP1 : stable P1) by (unfold P1; stab).
      (* one cell: copy the value, allocate the new cell, owned by the new context, of the type of the old one *)
      assert (CELL : forall (P2 : st -> Prop) (keep : bool) src ty, stable P2 -> (forall s, P2 s -> P1 s /\ hastype src ty s) ->
                        tr P2 (cl <- get_cell src ;; v' <- copy_val f (c_val cl) ;; nid <- fresh ;;
                        put_cell nid (mkCell (c_name cl) (c_type cl) (if keep then c_const cl else false) id v') ;;; ret nid)
                        (fun nid s => ownrec nid s /\ (keep = false -> nonconst nid s) /\ hastype nid ty s)).
      { intros P2 keep src ty SP2 HP2. eapply tr_bind; [exact SP2|apply tr_get_cell|]. intros cl.
        eapply tr_bind; [stab|apply IHv; [stab|intros s [_ [_ [Hv _]]]; exact Hv]|]. intros v'.
        apply tr_alloc_cell; [stab|intros s [[_ [_ [_ [Hk Hn]]]] [Hv [Hk' Hn']]]; cbn [c_val c_type]; split; [exact Hv|split; [congruence|eapply named_ok_pname; eauto]]|]. intros nid.
        eapply tr_post; [apply tr_ret|]. intros a s [-> [[[HP2s [Hmsrc _]] _] Hm]]. destruct (HP2 s HP2s) as [HP1 [cs [Es [Ts Ns]]]]. split; [|split].
        - eapply cellmeta_ownrec; [exact Hm|]. cbn. apply HP1.
        - intros ->. eapply cellmeta_nonconst; [exact Hm|reflexivity].
        - destruct Hmsrc as [c' [E' [_ [M2 _]]]]. assert (c' = cs) by congruence. subst c'.
          eapply cellmeta_hastype; [exact Hm| |exact Ns]. cbn [c_type]. congruence. }
      eapply tr_bind; [exact SP1| |].
      { apply (tr_mapM P1 _ (fun (nv y : str * N) s => ownrec (snd y) s)); [exact SP1|intros; stab|]. intros nv _.
        eapply tr_bind; [exact SP1|apply tr_get_cell|]. intros cl.
        eapply tr_bind; [stab|apply IHv; [stab|intros s [_ [_ [Hv _]]]; exact Hv]|]. intros v'.
        apply tr_alloc_cell; [stab|intros s [[_ [_ [_ [Hk Hn]]]] [Hv [Hk' Hn']]]; cbn [c_val c_type]; split; [exact Hv|split; [congruence|eapply named_ok_pname; eauto]]|]. intros nid.
        eapply tr_post; [apply tr_ret|]. intros a s [-> [[[HP1 _] _] Hm]]. cbn [snd].
        eapply cellmeta_ownrec; [exact Hm|]. cbn. apply HP1. }
      intros vars'.
      eapply tr_bind; [stab| |].
      { eapply (tr_mapM _ _ (fun (na y : str * N) (_ : st) => True)); [stab|intros; stab|]. intros na _.
        eapply tr_bind; [stab|apply tr_get_arr|]. intros a.
        eapply tr_bind; [stab| |].
        { eapply (tr_mapM _ _ (fun (e y : N) (s : st) => nonconst y s /\ hastype y (a_type a) s)); [stab|intros; stab|]. intros e Hin.
          eapply tr_post; [apply (CELL _ false e (a_type a)); [stab|]|].
          - intros s [[HA _] [_ [HT _]]]. split; [exact HA|]. rewrite Forall_forall in HT. apply HT. exact Hin.
          - intros nid s [_ [Hn Ht]]. split; [apply Hn; reflexivity|exact Ht]. }
        intros elems'. apply tr_alloc_arr; [stab| |].
        - intros s [_ HF]. cbn [a_elems a_type]. eapply Forall2_right; [exact HF|]. intros x y Hy. exact Hy.
        - intros naid. eapply tr_post; [apply tr_ret|]. intros; okf. }
      intros arrs'.
      eapply tr_bind; [stab| |].
      { apply tr_upd_ctx_gen; [stab|intros k; split; reflexivity|]. intros s k nm j [[_ HF] _] _ Hin. right.
        cbn [x_vars ctx_with_arrs ctx_with_vars] in Hin.
        assert (G : Forall (fun y : str * N => ownrec (snd y) s) vars') by (eapply Forall2_right; [exact HF|]; intros x y Hy; exact Hy).
        rewrite Forall_forall in G. apply (G (nm, j) Hin). }
      intros u. eapply tr_post; [apply tr_ret|]. intros a s [-> [[[[_ Hk] _] _] _]]. exact Hk.
Qed.

(* ------------------------------------------------------------------ computations that only read *)
Lemma ro_if {A} (b : bool) (m1 m2 : M A) : ro m1 -> ro m2 -> ro (if b then m1 else m2).
Proof. destruct b; auto. Qed.
Lemma ro_trace_aux fuel : forall id, ro (trace_aux fuel id).
Proof. induction fuel as [|f IH]; intros id; cbn [trace_aux]; [apply ro_ret|]. destruct id; [|apply ro_ret]. apply ro_bind; [apply ro_get_ctx|]. intros c. apply ro_bind; [apply IH|]. intros r. apply ro_ret. Qed.
Lemma ro_runtime_error_cls {A} cls t c : ro (@runtime_error_cls A cls t c).
Proof.
  intros s. unfold runtime_error_cls.
  assert (H : ro (cx <- get_ctx c ;; rest <- trace_aux (S (x_depth cx)) (x_parent cx) ;; ret (mkDiag DRuntime (tline t) (tcol t) cls ((x_name cx, tline t, tcol t) :: rest)))).
  { apply ro_bind; [apply ro_get_ctx|]. intros cx. apply ro_bind; [apply ro_trace_aux|]. intros r. apply ro_ret. }
  specialize (H s). destruct ((cx <- get_ctx c ;; _) s) as [[d|f] s1]; exact H.
Qed.
Lemma nb_trace_aux fuel : forall id, nb (trace_aux fuel id).
Proof. induction fuel as [|f IH]; intros id; cbn [trace_aux]; [apply nb_ret|]. destruct id; [|apply nb_ret]. apply nb_bind; [apply nb_get_ctx|]. intros c. apply nb_bind; [apply IH|]. intros r. apply nb_ret. Qed.
Lemma nb_runtime_error_cls {A} cls t c : nb (@runtime_error_cls A cls t c).
Proof.
  intros s. unfold runtime_error_cls.
  assert (H : nb (cx <- get_ctx c ;; rest <- trace_aux (S (x_depth cx)) (x_parent cx) ;; ret (mkDiag DRuntime (tline t) (tcol t) cls ((x_name cx, tline t, tcol t) :: rest)))).
  { apply nb_bind; [apply nb_get_ctx|]. intros cx. apply nb_bind; [apply nb_trace_aux|]. intros r. apply nb_ret. }
  specialize (H s). destruct ((cx <- get_ctx c ;; _) s) as [[d|f] s1]; cbn [fst] in *; [exact I|exact H].
Qed.
Lemma tr_error_cls {A} (P : st -> Prop) cls t c (Q : A -> st -> Prop) : tr P (runtime_error_cls cls t c) Q.
Proof.
  intros s HI HP. pose proof (@ro_runtime_error_cls A cls t c s) as H. rewrite H.
  split; [exact HI|]. split; [apply K_refl|]. pose proof (@nb_runtime_error_cls A cls t c s) as N.
  unfold runtime_error_cls in *. destruct ((cx <- get_ctx c ;; _) s) as [[d|f] s1]; cbn [fst] in *; exact N.
Qed.
Lemma tr_rt_error {A} (P : st -> Prop) t c (Q : A -> st -> Prop) : tr P (rt_error t c) Q.
Proof. apply tr_error_cls. Qed.
Lemma ro_all2M {A B} (f : A -> B -> M bool) l1 : forall l2, (forall x y, ro (f x y)) -> ro (all2M f l1 l2).
Proof.
  induction l1 as [|x r IH]; intros l2 H; cbn [all2M]; [apply ro_ret|]. destruct l2 as [|y r2]; [apply ro_ret|].
  apply ro_bind; [apply H|]. intros ok. destruct ok; [apply IH; exact H|apply ro_ret].
Qed.
Lemma ro_crash {A} w : ro (@crash A w). Proof. intros s; reflexivity. Qed.
Lemma ro_rec_pair_layout sl e1 e2 : (forall x y, ro (sl x y)) -> ro (rec_pair_layout sl e1 e2).
Proof.
  intros H. unfold rec_pair_layout. apply ro_bind; [apply ro_get_cell|]. intros c1. apply ro_bind; [apply ro_get_cell|]. intros c2.
  destruct (c_val c1); try apply ro_crash. destruct (c_val c2); try apply ro_crash. apply H.
Qed.
Lemma ro_arr_layout sl a1 a2 : (forall x y, ro (sl x y)) -> ro (arr_layout sl a1 a2).
Proof. intros H. unfold arr_layout. repeat apply ro_if; try apply ro_ret. apply ro_all2M. intros x y. apply ro_rec_pair_layout. exact H. Qed.
Lemma ro_same_layout fuel : forall a b, ro (same_layout fuel a b).
Proof.
  induction fuel as [|f IH]; intros a b; cbn [same_layout]; [apply ro_failm|].
  apply ro_bind; [apply ro_get_ctx|]. intros dx. apply ro_bind; [apply ro_get_ctx|]. intros sx. apply ro_if; [apply ro_ret|].
  apply ro_bind.
  - apply ro_all2M. intros dv sv. apply ro_bind; [apply ro_get_cell|]. intros d. apply ro_bind; [apply ro_get_cell|]. intros s0.
    apply ro_if; [apply ro_ret|]. apply ro_if; [|apply ro_ret]. destruct (c_val d); try apply ro_crash. destruct (c_val s0); try apply ro_crash. apply IH.
  - intros ok. apply ro_if; [apply ro_ret|]. apply ro_all2M. intros da sa. apply ro_bind; [apply ro_get_arr|]. intros a1. apply ro_bind; [apply ro_get_arr|]. intros a2.
    apply ro_arr_layout. exact IH.
Qed.

Lemma nb_all2M {A B} (f : A -> B -> M bool) l1 : forall l2, (forall x y, nb (f x y)) -> nb (all2M f l1 l2).
Proof.
  induction l1 as [|x r IH]; intros l2 H; cbn [all2M]; [apply nb_ret|]. destruct l2 as [|y r2]; [apply nb_ret|].
  apply nb_bind; [apply H|]. intros ok. destruct ok; [apply IH; exact H|apply nb_ret].
Qed.
Lemma nb_rec_pair_layout sl e1 e2 : (forall x y, nb (sl x y)) -> nb (rec_pair_layout sl e1 e2).
Proof.
  intros H. unfold rec_pair_layout. apply nb_bind; [apply nb_get_cell|]. intros c1. apply nb_bind; [apply nb_get_cell|]. intros c2.
  destruct (c_val c1); try (apply nb_crash; reflexivity). destruct (c_val c2); try (apply nb_crash; reflexivity). apply H.
Qed.
Lemma nb_arr_layout sl a1 a2 : (forall x y, nb (sl x y)) -> nb (arr_layout sl a1 a2).
Proof. intros H. unfold arr_layout. repeat apply nb_if; try apply nb_ret. apply nb_all2M. intros x y. apply nb_rec_pair_layout. exact H. Qed.
Lemma nb_same_layout fuel : forall a b, nb (same_layout fuel a b).
Proof.
  induction fuel as [|f IH]; intros a b; cbn [same_layout]; [apply nb_failm; exact I|].
  apply nb_bind; [apply nb_get_ctx|]. intros dx. apply nb_bind; [apply nb_get_ctx|]. intros sx. apply nb_if; [apply nb_ret|].
  apply nb_bind.
  - apply nb_all2M. intros dv sv. apply nb_bind; [apply nb_get_cell|]. intros d. apply nb_bind; [apply nb_get_cell|]. intros s0.
    apply nb_if; [apply nb_ret|]. apply nb_if; [|apply nb_ret]. destruct (c_val d); try (apply nb_crash; reflexivity). destruct (c_val s0); try (apply nb_crash; reflexivity). apply IH.
  - intros ok. apply nb_if; [apply nb_ret|]. apply nb_all2M. intros da sa. apply nb_bind; [apply nb_get_arr|]. intros a1. apply nb_bind; [apply nb_get_arr|]. intros a2.
    apply nb_arr_layout. exact IH.
Qed.

(* ------------------------------------------------------------------ what a successful layout check says *)
Lemma all2M_true {A B} (f : A -> B -> M bool) : (forall x y, ro (f x y)) -> forall l1 l2 s,
  fst (all2M f l1 l2 s) = Ok true -> forall x y, In (x, y) (combine l1 l2) -> fst (f x y s) = Ok true.
Proof.
  intros Hro. induction l1 as [|a r1 IH]; intros l2 s H x y Hin; [contradiction|].
  destruct l2 as [|b r2]; [contradiction|]. cbn [all2M] in H. unfold bind in H.
  pose proof (Hro a b s) as R. destruct (f a b s) as [[ok|e] s1] eqn:E; cbn [fst snd] in *; [|discriminate H]. subst s1.
  destruct ok; [|cbn in H; discriminate H].
  destruct Hin as [Hin|Hin]; [inversion Hin; subst; rewrite E; reflexivity|]. eapply IH; eauto.
Qed.

Definition field_check (f : nat) (dv sv : str * N) : M bool :=
  d <- get_cell (snd dv) ;; s <- get_cell (snd sv) ;;
  if negb (dt_eq (c_type d) (c_type s)) then ret false
  else if dt_is (c_type d) KRec then
    match c_val d, c_val s with
    | PRec _ x, PRec _ y => same_layout f x y
    | _, _ => crash "get<Composite> on other payload"
    end
  else ret true.
Definition arr_check (f : nat) (da sa : str * N) : M bool :=
  a1 <- get_arr (snd da) ;; a2 <- get_arr (snd sa) ;; arr_layout (same_layout f) a1 a2.
Lemma ro_field_check f dv sv : ro (field_check f dv sv).
Proof.
  unfold field_check. apply ro_bind; [apply ro_get_cell|]. intros d. apply ro_bind; [apply ro_get_cell|]. intros s0.
  apply ro_if; [apply ro_ret|]. apply ro_if; [|apply ro_ret]. destruct (c_val d); try apply ro_crash. destruct (c_val s0); try apply ro_crash. apply ro_same_layout.
Qed.
Lemma ro_arr_check f da sa : ro (arr_check f da sa).
Proof.
  unfold arr_check. apply ro_bind; [apply ro_get_arr|]. intros a1. apply ro_bind; [apply ro_get_arr|]. intros a2. apply ro_arr_layout. apply ro_same_layout.
Qed.
Definition field_types_agree (s : st) (dv sv : str * N) : Prop :=
  exists d s0, nm_get (snd dv) (s_cells s) = Some d /\ nm_get (snd sv) (s_cells s) = Some s0 /\ dt_eq (c_type d) (c_type s0) = true.
Definition arr_types_agree (s : st) (da sa : str * N) : Prop :=
  exists a1 a2, nm_get (snd da) (s_arrs s) = Some a1 /\ nm_get (snd sa) (s_arrs s) = Some a2 /\ dt_eq (a_type a1) (a_type a2) = true.
Lemma field_check_true f dv sv s : fst (field_check f dv sv s) = Ok true -> field_types_agree s dv sv.
Proof.
  unfold field_check, bind, get_cell. intros H. destruct (nm_get (snd dv) (s_cells s)) as [d|] eqn:Ed; cbn [fst snd] in H; [|discriminate H].
  destruct (nm_get (snd sv) (s_cells s)) as [s0|] eqn:Es; cbn [fst snd] in H; [|discriminate H].
  exists d, s0. split; [first [exact Ed|reflexivity]|]. split; [first [exact Es|reflexivity]|]. destruct (dt_eq (c_type d) (c_type s0)); [reflexivity|cbn in H; discriminate H].
Qed.
Lemma arr_check_true f da sa s : fst (arr_check f da sa s) = Ok true -> arr_types_agree s da sa.
Proof.
  unfold arr_check, bind, get_arr. intros H. destruct (nm_get (snd da) (s_arrs s)) as [a1|] eqn:Ed; cbn [fst snd] in H; [|discriminate H].
  destruct (nm_get (snd sa) (s_arrs s)) as [a2|] eqn:Es; cbn [fst snd] in H; [|discriminate H].
  exists a1, a2. split; [first [exact Ed|reflexivity]|]. split; [first [exact Es|reflexivity]|]. unfold arr_layout in H. destruct (dt_eq (a_type a1) (a_type a2)); [reflexivity|cbn in H; discriminate H].
Qed.
Lemma same_layout_unfold f dc sc : same_layout (S f) dc sc =
  (dx <- get_ctx dc ;; sx <- get_ctx sc ;;
   if negb (Nat.eqb (List.length (x_vars dx)) (List.length (x_vars sx))) || negb (Nat.eqb (List.length (x_arrs dx)) (List.length (x_arrs sx))) then ret false else
   ok <- all2M (field_check f) (x_vars dx) (x_vars sx) ;;
   if negb ok then ret false else all2M (arr_check f) (x_arrs dx) (x_arrs sx)).
Proof. reflexivity. Qed.
Lemma same_layout_true f dc sc s : fst (same_layout (S f) dc sc s) = Ok true ->
  exists dx sx, nm_get dc (s_ctxs s) = Some dx /\ nm_get sc (s_ctxs s) = Some sx /\
    (forall dv sv, In (dv, sv) (combine (x_vars dx) (x_vars sx)) -> field_types_agree s dv sv) /\
    (forall da sa, In (da, sa) (combine (x_arrs dx) (x_arrs sx)) -> arr_types_agree s da sa).
Proof.
  rewrite same_layout_unfold. unfold bind at 1, get_ctx at 1. intros H.
  destruct (nm_get dc (s_ctxs s)) as [dx|] eqn:Edx; cbn [fst snd] in H; [|discriminate H].
  unfold bind at 1, get_ctx at 1 in H. destruct (nm_get sc (s_ctxs s)) as [sx|] eqn:Esx; cbn [fst snd] in H; [|discriminate H].
  exists dx, sx. split; [first [exact Edx|reflexivity]|]. split; [first [exact Esx|reflexivity]|].
  destruct (negb _ || negb _); [cbn in H; discriminate H|].
  unfold bind at 1 in H.
  assert (R : ro (all2M (field_check f) (x_vars dx) (x_vars sx))) by (apply ro_all2M; intros; apply ro_field_check).
  pose proof (R s) as Rs. destruct (all2M (field_check f) (x_vars dx) (x_vars sx) s) as [[ok|e] s1] eqn:E1; cbn [fst snd] in *; [|discriminate H]. subst s1.
  destruct ok; [|cbn in H; discriminate H]. cbn [negb] in H. split.
  - intros dv sv Hin. eapply field_check_true. eapply (all2M_true (field_check f)); [intros; apply ro_field_check| |exact Hin]. rewrite E1. reflexivity.
  - intros da sa Hin. eapply arr_check_true. eapply (all2M_true (arr_check f)); [intros; apply ro_arr_check|exact H|exact Hin].
Qed.

(* two types that passed the comparison carry the same name whenever they are user types *)
Definition namesagree (td ts : dtype) : Prop := named_kind (dk ts) = true -> dname td = dname ts.
Lemma dt_eq_namesagree td ts : dt_eq td ts = true -> (named_kind (dk td) = true -> dname td <> None) -> (named_kind (dk ts) = true -> dname ts <> None) -> namesagree td ts.
Proof.
  unfold dt_eq, namesagree. intros H Hd Hs Hk. destruct (dname td) as [x|] eqn:Ed, (dname ts) as [y|] eqn:Es.
  - apply andb_prop in H. destruct H as [_ H]. apply str_eqb_eq in H. congruence.
  - exfalso. apply Hs; auto.
  - apply dk_eqb_eq in H. exfalso. apply Hd; [congruence|reflexivity].
  - reflexivity.
Qed.
Definition typair (d s0 : N) (st0 : st) : Prop :=
  exists cd cs, nm_get d (s_cells st0) = Some cd /\ nm_get s0 (s_cells st0) = Some cs /\ namesagree (c_type cd) (c_type cs) /\ dk (c_type cd) = dk (c_type cs).
Lemma dt_eq_kind td ts : dt_eq td ts = true -> dk td = dk ts.
Proof. unfold dt_eq. destruct (dname td), (dname ts); intros H; try (apply andb_prop in H; destruct H as [H _]); apply dk_eqb_eq in H; exact H. Qed.
Lemma stable_typair d s0 : stable (typair d s0).
Proof.
  intros s s' H [cd [cs [E1 [E2 [Hn Hk]]]]]. destruct (k_meta _ _ H d cd E1) as [cd' [E1' [_ [M2 _]]]]. destruct (k_meta _ _ H s0 cs E2) as [cs' [E2' [_ [N2 _]]]].
  exists cd', cs'. split; [exact E1'|]. split; [exact E2'|]. rewrite M2, N2. split; [exact Hn|exact Hk].
Qed.
Definition nfits (dst : N) (src : payload) (s : st) : Prop := exists cl, nm_get dst (s_cells s) = Some cl /\ named_ok src (c_type cl) /\ payload_kind src = dk (c_type cl).
Lemma stable_nfits dst src : stable (nfits dst src).
Proof. intros s s' H [cl [E [Hn Hk]]]. destruct (k_meta _ _ H dst cl E) as [cl' [E' [_ [M2 _]]]]. exists cl'. split; [exact E'|]. rewrite M2. split; [exact Hn|exact Hk]. Qed.
Lemma typair_nfits d s0 cs st0 : typair d s0 st0 -> cellmeta s0 cs st0 -> payload_kind (c_val cs) = dk (c_type cs) -> named_ok (c_val cs) (c_type cs) -> nfits d (c_val cs) st0.
Proof.
  intros [cd [cs' [E1 [E2 [Hn Hkk]]]]] [c' [E' [_ [M2 _]]]] Hk Hnm. assert (c' = cs') by congruence. subst c'.
  exists cd. split; [exact E1|]. split; [|congruence]. intros tn Hp. rewrite Hn; [rewrite M2; apply Hnm; exact Hp|]. rewrite M2, <- Hk. eapply pname_kind; eauto.
Qed.
Lemma hastype_typair e1 e2 t1 t2 s : hastype e1 t1 s -> hastype e2 t2 s -> dt_eq t1 t2 = true -> typair e1 e2 s.
Proof.
  intros [c1 [E1 [T1 N1]]] [c2 [E2 [T2 N2]]] H. exists c1, c2. split; [exact E1|]. split; [exact E2|]. rewrite T1, T2. split; [apply dt_eq_namesagree; assumption|apply dt_eq_kind; exact H].
Qed.
Definition arrpair (d s0 : N) (st0 : st) : Prop := exists a1 a2, arris d a1 st0 /\ arris s0 a2 st0 /\ dt_eq (a_type a1) (a_type a2) = true.
Lemma stable_arrpair d s0 : stable (arrpair d s0).
Proof. intros s s' H [a1 [a2 [E1 [E2 T]]]]. exists a1, a2. split; [eapply stable_arris; eauto|]. split; [eapply stable_arris; eauto|exact T]. Qed.

Ltac stab3 := repeat first [ assumption | apply stable_typair | apply stable_nfits | apply stable_arrpair | apply stable_retok | apply stable_impl | apply stable_and | apply stable_true | apply stable_pure
                           | apply stable_cellmeta | apply stable_ctxkind | apply stable_wr | apply stable_valok | apply stable_nonconst | apply stable_ownrec | apply stable_fits | apply stable_resok
                           | apply stable_hastype | apply stable_arris | (apply stable_Forall; intros ?) | (apply stable_Forall2; intros ? ?) ].

Lemma tr_zipM_pairs {A B} (P : st -> Prop) (f : A -> B -> M unit) l1 : forall l2, stable P ->
  (forall x y, In (x, y) (combine l1 l2) -> tr P (f x y) (fun _ _ => True)) -> tr P (zipM f l1 l2) (fun _ _ => True).
Proof.
  induction l1 as [|x r IH]; intros l2 SP H; cbn [zipM]; [eapply tr_true; apply tr_ret|].
  destruct l2 as [|y r2]; [(apply tr_failm; okf)|].
  eapply tr_bind; [exact SP|apply H; left; reflexivity|]. intros u. eapply tr_pre; [|apply IH; [exact SP|intros a b Ha; apply H; right; exact Ha]]. intros s0 [HA _]. exact HA.
Qed.

(* ------------------------------------------------------------------ Heap.v: assignment into an existing value *)
Definition set_copy_tr (f : nat) : Prop := forall (P : st -> Prop) dst src, stable P -> (forall s, P s -> wr dst s /\ valok src s /\ nfits dst src s) ->
  tr P (set_copy f dst src) (fun _ _ => True).
(* the layout check and, when it succeeds, Context::copyVariableData *)
Definition comp_tr (f : nat) : Prop := forall (P : st -> Prop) dc sc, stable P -> (forall s, P s -> ctxkind dc true s) ->
  tr P (ok <- same_layout f dc sc ;; if ok then copy_var_data f dc sc else rt_error err_token dc) (fun _ _ => True).

Lemma tr_copy_go (P : st -> Prop) (sc : N -> payload -> M unit) : stable P ->
  (forall (P' : st -> Prop) d p, stable P' -> (forall s, P' s -> wr d s /\ valok p s /\ nfits d p s) -> tr P' (sc d p) (fun _ _ => True)) ->
  forall l1 l2, (forall s, P s -> Forall (fun e => wr e s) l1) -> (forall s, P s -> Forall (fun p => typair (fst p) (snd p) s) (combine l1 l2)) ->
  tr P ((fix go (l1 l2 : list N) : M unit :=
           match l1, l2 with
           | e1 :: r1, e2 :: r2 => s <- get_cell e2 ;; sc e1 (c_val s) ;;; go r1 r2
           | _, _ => ret Datatypes.tt
           end) l1 l2) (fun _ _ => True).
Proof.
  intros SP H. induction l1 as [|e1 r1 IH]; intros l2 HF HT; [destruct l2; eapply tr_true; apply tr_ret|].
  destruct l2 as [|e2 r2]; [eapply tr_true; apply tr_ret|].
  eapply tr_bind; [exact SP|apply tr_get_cell|]. intros cl.
  eapply tr_bind; [stab3| |].
  - apply H; [stab3|]. intros s [Hs [Hm [Hv [Hk Hn]]]]. split; [specialize (HF s Hs); inversion HF; assumption|]. split; [exact Hv|].
    specialize (HT s Hs). cbn [combine] in HT. inversion HT as [|? ? Hp _]; subst. cbn [fst snd] in Hp. eapply typair_nfits; eauto.
  - intros u. eapply tr_pre; [|apply IH].
    + intros s [[Hs _] _]. exact Hs.
    + intros s Hs. specialize (HF s Hs). inversion HF; assumption.
    + intros s Hs. specialize (HT s Hs). cbn [combine] in HT. inversion HT; assumption.
Qed.

Lemma tr_composite_assign (P : st -> Prop) f tn0 dc tn sc : stable P -> comp_tr f -> (forall s, P s -> ctxkind dc true s) ->
  tr P (composite_assign (copy_var_data f) f tn0 dc tn sc) (fun _ _ => True).
Proof.
  intros SP H HV. unfold composite_assign. destruct (str_eqb tn0 tn); [|(apply tr_failm; okf)]. apply H; assumption.
Qed.

Lemma set_copy_both : forall f, set_copy_tr f /\ comp_tr f.
Proof.
  induction f as [|f [IHs IHc]].
  - split; [intros P a b SP HV; cbn [set_copy]; (apply tr_failm; okf)|]. intros P dc sc SP HV s0 HI HP. cbn [same_layout]. unfold bind, failm. cbn [fst snd]. split; [exact HI|]. split; [apply K_refl|okf].
  - split.
    + intros P dst src SP HV. cbn [set_copy]. eapply tr_bind; [exact SP|apply tr_get_cell|]. intros d.
      assert (ELSE : tr (fun s => P s /\ cellmeta dst d s /\ valok (c_val d) s /\ payload_kind (c_val d) = dk (c_type d) /\ named_ok (c_val d) (c_type d))
                        (if dk_eqb (dk (c_type d)) (payload_kind src) then v' <- copy_val f src ;; set_cell_val dst v' else crash "Variable::set: payload reinterpreted as another type")
                        (fun _ _ => True)).
      { destruct (dk_eqb (dk (c_type d)) (payload_kind src)) eqn:Edk.
        2:{ apply tr_false. intros s [Hs [[c' [E' [_ [M2 _]]]] _]]. destruct (HV s Hs) as [_ [_ [cl [Ecl [_ Hkk]]]]]. assert (c' = cl) by congruence. subst c'.
            assert (X : dk_eqb (dk (c_type d)) (payload_kind src) = true) by (apply dk_eqb_eq; congruence). congruence. }
        apply dk_eqb_eq in Edk.
        eapply tr_bind; [stab3|apply (proj1 (copy_tr f)); [stab3|intros s [Hs _]; apply (HV s Hs)]|]. intros v'.
        apply tr_set_cell_val. intros s [[Hs [Hm _]] [Hv [Hk Hp]]]. destruct (HV s Hs) as [Hw [_ [cl [Ecl [Hnf _]]]]]. split; [exact Hw|]. split; [exact Hv|].
        destruct Hm as [c' [E' [_ [M2 _]]]]. assert (c' = cl) by congruence. subst c'.
        exists cl. split; [exact Ecl|]. split; [congruence|eapply named_ok_pname; eauto]. }
      destruct (c_val d) as [| | | | | | | |tn dc] eqn:Ed; try (rewrite <- Ed in ELSE; exact ELSE).
      destruct src as [| | | | | | | |tn' sc]; try (rewrite <- Ed in ELSE; exact ELSE).
      apply tr_composite_assign; [stab3|exact IHc|]. intros s [_ [_ [Hv _]]]. eapply Hv. exact Ed.
    + intros P dc sc SP HV s HI HP. unfold bind.
      pose proof (ro_same_layout (S f) dc sc s) as R. destruct (same_layout (S f) dc sc s) as [[ok|e] s1] eqn:E; cbn [fst snd] in R |- *; subst s1.
      2:{ split; [exact HI|]. split; [apply K_refl|]. pose proof (nb_same_layout (S f) dc sc s) as Nb. rewrite E in Nb. exact Nb. }
      destruct ok; [|exact (tr_rt_error P err_token dc (fun _ _ => True) s HI HP)].
      assert (Et : fst (same_layout (S f) dc sc s) = Ok true) by (rewrite E; reflexivity).
      destruct (same_layout_true f dc sc s Et) as [dx [sx [Edx [Esx [HVars HArrs]]]]].
      destruct (HV s HP) as [dx0 [Edx0 Hrec]]. assert (dx0 = dx) by congruence. subst dx0.
      set (P' := fun st0 => P st0 /\ Forall (fun nv : str * N => wr (snd nv) st0) (x_vars dx)
                            /\ Forall (fun p : (str * N) * (str * N) => typair (snd (fst p)) (snd (snd p)) st0) (combine (x_vars dx) (x_vars sx))
                            /\ Forall (fun p : (str * N) * (str * N) => arrpair (snd (fst p)) (snd (snd p)) st0) (combine (x_arrs dx) (x_arrs sx))).
      assert (SP' : stable P') by (unfold P'; stab3).
      assert (HP' : P' s).
      { unfold P'. split; [exact HP|]. split; [|split].
        - apply Forall_forall. intros [nm v] Hin. destruct (i_recvars s HI dc dx nm v Edx Hrec Hin) as [cl [Ecl Ho]]. exists cl. split; [exact Ecl|]. right. right. exact Ho.
        - apply Forall_forall. intros [dv sv] Hin. destruct (HVars dv sv Hin) as [d [s0 [Ed [Es Hdt]]]]. exists d, s0. split; [exact Ed|]. split; [exact Es|].
          split; [apply dt_eq_namesagree; [exact Hdt| |]; intros Hk; eapply Inv_type_named; eauto|apply dt_eq_kind; exact Hdt].
        - apply Forall_forall. intros [da sa] Hin. destruct (HArrs da sa Hin) as [a1 [a2 [E1 [E2 Hdt]]]]. exists a1, a2. split; [exact E1|]. split; [exact E2|exact Hdt]. }
      assert (BODY : tr P' (zipM (fun (dv sv : str * N) => s0 <- get_cell (snd sv) ;; set_copy f (snd dv) (c_val s0)) (x_vars dx) (x_vars sx) ;;;
                            zipM (fun (da sa : str * N) =>
                                    a1 <- get_arr (snd da) ;; a2 <- get_arr (snd sa) ;;
                                    (fix go (l1 l2 : list N) : M unit :=
                                       match l1, l2 with
                                       | e1 :: r1, e2 :: r2 => s0 <- get_cell e2 ;; set_copy f e1 (c_val s0) ;;; go r1 r2
                                       | _, _ => ret Datatypes.tt
                                       end) (a_elems a1) (a_elems a2)) (x_arrs dx) (x_arrs sx)) (fun _ _ => True)).
      { eapply tr_bind; [exact SP'| |].
        * apply tr_zipM_pairs; [exact SP'|]. intros dv sv Hin. eapply tr_bind; [exact SP'|apply tr_get_cell|]. intros cl.
          apply IHs; [stab3|]. intros st0 [[_ [HW [HT _]]] [Hm [Hv [Hk Hn]]]]. split; [|split; [exact Hv|]].
          -- rewrite Forall_forall in HW. apply (HW dv). eapply in_combine_l; eauto.
          -- rewrite Forall_forall in HT. specialize (HT (dv, sv) Hin). cbn [fst snd] in HT. eapply typair_nfits; eauto.
        * intros u. apply tr_zipM_pairs; [stab3|]. intros da sa Hin.
          eapply tr_bind; [stab3|apply tr_get_arr|]. intros a1. eapply tr_bind; [stab3|apply tr_get_arr|]. intros a2.
          apply tr_copy_go; [stab3|exact IHs| |].
          -- intros st0 [[_ [HF _]] _]. eapply Forall_impl; [|exact HF]. intros e He. apply nonconst_wr. exact He.
          -- intros st0 [[[[_ [_ [_ HA]]] _] [_ [HT1 HA1]]] [_ [HT2 HA2]]]. rewrite Forall_forall in HA. destruct (HA (da, sa) Hin) as [b1 [b2 [B1 [B2 Hdt]]]]. cbn [fst snd] in B1, B2.
             unfold arris in *. assert (b1 = a1) by congruence. assert (b2 = a2) by congruence. subst b1 b2.
             apply Forall_forall. intros [e1 e2] Hin2. cbn [fst snd]. rewrite Forall_forall in HT1, HT2.
             eapply hastype_typair; [apply HT1; eapply in_combine_l; eauto|apply HT2; eapply in_combine_r; eauto|exact Hdt]. }
      match type of BODY with tr _ ?b _ => assert (EQ : copy_var_data (S f) dc sc s = b s) end.
      { cbn [copy_var_data]. unfold bind at 1, get_ctx at 1. rewrite Edx. cbv beta iota. unfold bind at 1, get_ctx at 1. rewrite Esx. cbv beta iota. reflexivity. }
      rewrite EQ. exact (BODY s HI HP').
Qed.

Lemma tr_copy_array_data (P : st -> Prop) fuel d s0 : stable P -> (forall s, P s -> arrpair d s0 s) -> tr P (copy_array_data fuel d s0) (fun _ _ => True).
Proof.
  intros SP HA. unfold copy_array_data. destruct (N.eqb d s0); [eapply tr_true; apply tr_ret|].
  eapply tr_bind; [exact SP|apply tr_get_arr|]. intros a1. eapply tr_bind; [stab3|apply tr_get_arr|]. intros a2.
  apply tr_copy_go; [stab3|apply (proj1 (set_copy_both fuel))| |].
  - intros s [[_ [HF _]] _]. eapply Forall_impl; [|exact HF]. intros e He. apply nonconst_wr. exact He.
  - intros s [[Hs [_ [HT1 HA1]]] [_ [HT2 HA2]]]. destruct (HA s Hs) as [b1 [b2 [B1 [B2 Hdt]]]].
    unfold arris in *. assert (b1 = a1) by congruence. assert (b2 = a2) by congruence. subst b1 b2.
    apply Forall_forall. intros [e1 e2] Hin2. cbn [fst snd]. rewrite Forall_forall in HT1, HT2.
    eapply hastype_typair; [apply HT1; eapply in_combine_l; eauto|apply HT2; eapply in_combine_r; eauto|exact Hdt].
Qed.

Lemma tr_assign_val (P : st -> Prop) fuel dst v : stable P -> (forall s, P s -> wr dst s) -> tr P (assign_val fuel dst v) (fun _ _ => True).
Proof.
  intros SP HV. unfold assign_val. eapply tr_bind; [exact SP|apply tr_get_cell|]. intros d.
  assert (SET : forall p (Q : st -> Prop), (forall tn c, p <> PRec tn c) -> payload_kind p = dk (c_type d) -> named_ok p (c_type d) -> (forall s, Q s -> P s /\ cellmeta dst d s) ->
                tr Q (set_cell_val dst p) (fun _ _ => True)).
  { intros p Q Hp Hk Hn HQ. apply tr_set_cell_val. intros s Hq. destruct (HQ s Hq) as [Hs Hm]. split; [apply (HV s Hs)|]. split; [apply valok_nonrec; exact Hp|eapply cellmeta_fits; eauto]. }
  destruct (dk (c_type d)) eqn:Ek; try (apply tr_failm; okf);
    (destruct (r_val v) as [p|]; [|(apply tr_failm; okf)]); destruct p; try (apply tr_failm; okf); try (apply SET; [intros; discriminate|reflexivity|apply named_ok_prim; reflexivity|intros s0 H0; tauto]).
  - destruct (c_val d) eqn:Ed; try (kind_contra Ed Ek). destruct (str_eqb tn0 tn); [|(apply tr_failm; okf)].
    apply tr_set_cell_val. intros s [Hs [Hm [_ [_ Hn]]]]. split; [apply (HV s Hs)|]. split; [apply valok_nonrec; intros; discriminate|].
    eapply cellmeta_fits; [exact Hm|cbn; congruence|]. intros t0 Ht. apply Hn. first [rewrite Ed|idtac]. cbn in *. exact Ht.
  - destruct (c_val d) eqn:Ed; try (kind_contra Ed Ek). destruct (str_eqb tn0 tn); [|(apply tr_failm; okf)].
    apply tr_set_cell_val. intros s [Hs [Hm [_ [_ Hn]]]]. split; [apply (HV s Hs)|]. split; [apply valok_nonrec; intros; discriminate|].
    eapply cellmeta_fits; [exact Hm|cbn; congruence|]. intros t0 Ht. apply Hn. first [rewrite Ed|idtac]. cbn in *. exact Ht.
  - destruct (c_val d) as [| | | | | | | |tn0 dc] eqn:Ed; try (kind_contra Ed Ek).
    apply tr_composite_assign; [stab3|apply (proj2 (set_copy_both fuel))|]. intros s [_ [_ [Hv _]]]. eapply Hv. first [exact Ed|reflexivity].
Qed.

Lemma tr_store_tree : forall f (P : st -> Prop) id t, stable P -> (forall s, P s -> wr id s) -> tr P (store_tree f id t) (fun _ _ => True).
Proof.
  induction f as [|f IH]; intros P id t SP HV; cbn [store_tree]; [(apply tr_failm; okf)|].
  eapply tr_bind; [exact SP|apply tr_get_cell|]. intros cl.
  assert (SET : forall p, (forall tn c, p <> PRec tn c) -> payload_kind p = payload_kind (c_val cl) -> pname p = pname (c_val cl) ->
                tr (fun s => P s /\ cellmeta id cl s /\ valok (c_val cl) s /\ payload_kind (c_val cl) = dk (c_type cl) /\ named_ok (c_val cl) (c_type cl)) (set_cell_val id p) (fun _ _ => True)).
  { intros p Hp Hk Hpn. apply tr_set_cell_val. intros s [Hs [Hm [_ [Hk' Hn']]]]. split; [apply (HV s Hs)|]. split; [apply valok_nonrec; exact Hp|].
    eapply cellmeta_fits; [exact Hm|congruence|eapply named_ok_pname; eauto]. }
  destruct t; destruct (c_val cl) as [| | | | | | | |tn0 rc] eqn:Ed; try (apply tr_failm; okf);
    try (apply SET; [intros; discriminate|first [rewrite Ed|idtac]; reflexivity|first [rewrite Ed|idtac]; reflexivity]); try (eapply tr_true; apply tr_ret).
  - destruct (str_eqb tn tn0); [|(apply tr_failm; okf)]. apply SET; [intros; discriminate|first [rewrite Ed|idtac]; reflexivity|first [rewrite Ed|idtac]; reflexivity].
  - eapply tr_bind; [stab3|apply tr_get_ctx|]. intros cx.
    destruct (x_isrec cx) eqn:Hr.
    2:{ apply tr_false. intros s [[_ [_ [Hv _]]] [Hk _]]. pose proof (ctxkind_unique _ _ _ _ Hk (Hv _ _ ltac:(first [exact Ed|reflexivity]))) as X. congruence. }
    eapply tr_bind; [stab3| |].
    + apply tr_zipM; [stab3|]. intros nv t' Hin. apply IH; [stab3|]. intros s [_ [_ [HF _]]]. specialize (HF Hr). rewrite Forall_forall in HF. apply (HF nv Hin).
    + intros u. apply tr_zipM; [stab3|]. intros na ts Hin. eapply tr_bind; [stab3|apply tr_get_arr|]. intros a.
      apply tr_zipM; [stab3|]. intros e t' He. apply IH; [stab3|]. intros s [_ [HF _]]. rewrite Forall_forall in HF. apply nonconst_wr. apply (HF e He).
Qed.


(* ------------------------------------------------------------------ computations that leave the heap alone *)
(* ... and do not end in the excluded abort *)
Definition hn {A} (m : M A) : Prop := forall s, heap_same s (snd (m s)) /\ ok_out (fst (m s)).
Lemma heap_same_refl s : heap_same s s. Proof. repeat split. Qed.
Lemma heap_same_trans a b c : heap_same a b -> heap_same b c -> heap_same a c.
Proof. unfold heap_same. intros [A1 [A2 [A3 A4]]] [B1 [B2 [B3 B4]]]. repeat split; congruence. Qed.
Lemma hn_ro {A} (m : M A) : ro m -> nb m -> hn m.
Proof. intros H N s. rewrite H. split; [apply heap_same_refl|apply N]. Qed.
Lemma hn_ret {A} (a : A) : hn (ret a). Proof. apply hn_ro; [apply ro_ret|apply nb_ret]. Qed.
Lemma hn_failm {A} f : ok_fail f -> hn (@failm A f). Proof. intros H. apply hn_ro; [apply ro_failm|apply nb_failm; exact H]. Qed.
Lemma hn_gets {A} (f : st -> A) : hn (gets f). Proof. apply hn_ro; [apply ro_gets|apply nb_gets]. Qed.
Lemma hn_get_cell id : hn (get_cell id). Proof. apply hn_ro; [apply ro_get_cell|apply nb_get_cell]. Qed.
Lemma hn_get_arr id : hn (get_arr id). Proof. apply hn_ro; [apply ro_get_arr|apply nb_get_arr]. Qed.
Lemma hn_get_ctx id : hn (get_ctx id). Proof. apply hn_ro; [apply ro_get_ctx|apply nb_get_ctx]. Qed.
Lemma hn_runtime_error_cls {A} cls t c : hn (@runtime_error_cls A cls t c). Proof. apply hn_ro; [apply ro_runtime_error_cls|apply nb_runtime_error_cls]. Qed.
Lemma hn_same_layout fuel a b : hn (same_layout fuel a b). Proof. apply hn_ro; [apply ro_same_layout|apply nb_same_layout]. Qed.
Lemma hn_bind {A B} (m : M A) (k : A -> M B) : hn m -> (forall a, hn (k a)) -> hn (bind m k).
Proof.
  intros Hm Hk s. unfold bind. destruct (Hm s) as [H1 H2]. destruct (m s) as [[a|f] s1]; cbn [fst snd] in *.
  - destruct (Hk a s1) as [G1 G2]. split; [eapply heap_same_trans; eauto|exact G2].
  - split; assumption.
Qed.
Lemma hn_modify f : (forall s, heap_same s (f s)) -> hn (modify f).
Proof. intros H s. split; [apply H|exact I]. Qed.
Lemma hn_catch {A} (m : M A) h : hn m -> (forall f m', h f = Some m' -> hn m') -> hn (catch m h).
Proof.
  intros Hm Hh s. unfold catch. destruct (Hm s) as [H1 H2]. destruct (m s) as [[a|f] s1]; cbn [fst snd] in *; [split; assumption|].
  destruct (h f) as [m'|] eqn:E; [|split; assumption]. destruct (Hh f m' E s1) as [G1 G2]. split; [eapply heap_same_trans; eauto|exact G2].
Qed.
Lemma tr_hn {A} (P : st -> Prop) (m : M A) : stable P -> hn m -> tr P m (fun _ s => P s).
Proof.
  intros SP H s HI HP. destruct (H s) as [Hs Ho]. pose proof (K_heap_same _ _ Hs) as HK.
  split; [eapply Inv_heap_same; eauto|]. split; [exact HK|]. destruct (fst (m s)); [eapply SP; eauto|exact Ho].
Qed.
Lemma tr_hn_true {A} (P : st -> Prop) (m : M A) : stable P -> hn m -> tr P m (fun _ _ => True).
Proof. intros SP H. eapply tr_true. apply tr_hn; assumption. Qed.

Ltac head_of t := match t with ?f _ => head_of f | _ => t end.
Ltac hnt known :=
  repeat first
    [ apply hn_ret | (apply hn_failm; okf) | apply hn_gets | apply hn_get_cell | apply hn_get_arr | apply hn_get_ctx | apply hn_runtime_error_cls | apply hn_same_layout
    | known
    | match goal with
      | |- hn (bind _ _) => apply hn_bind; [ | intros ? ]
      | |- hn (modify _) => apply hn_modify; intros ?; repeat split
      | |- hn (if ?c then _ else _) => destruct c
      | |- hn (match ?x with _ => _ end) => destruct x
      | |- hn (let _ := _ in _) => cbv zeta
      | |- hn (fst (match ?x with _ => _ end)) => destruct x; cbn [fst snd]
      | |- hn ?m => let h := head_of m in unfold h
      end ].

Lemma hn_root_of_aux fuel : forall id, hn (root_of_aux fuel id).
Proof. induction fuel as [|f IH]; intros id; cbn [root_of_aux]; hnt ltac:(apply IH). Qed.
Lemma hn_nonrec_ancestor_aux fuel : forall id, hn (nonrec_ancestor_aux fuel id).
Proof. induction fuel as [|f IH]; intros id; cbn [nonrec_ancestor_aux]; hnt ltac:(apply IH). Qed.
Lemma hn_on_chain_aux fuel : forall id target, hn (on_chain_aux fuel id target).
Proof. induction fuel as [|f IH]; intros id target; cbn [on_chain_aux]; hnt ltac:(apply IH). Qed.
Lemma hn_lookup_def_aux {D} (table : ctx -> list (str * D)) fuel : forall c name global, hn (lookup_def_aux table fuel c name global).
Proof. induction fuel as [|f IH]; intros c name global; cbn [lookup_def_aux]; hnt ltac:(first [apply IH | apply hn_root_of_aux]). Qed.
Lemma hn_mapM {A B} (f : A -> M B) l : (forall x, hn (f x)) -> hn (mapM f l).
Proof. intros H. induction l as [|x r IH]; cbn [mapM]; [apply hn_ret|]. apply hn_bind; [apply H|]. intros y. apply hn_bind; [exact IH|]. intros ys. apply hn_ret. Qed.
Lemma hn_iterM {A} (f : A -> M unit) l : (forall x, hn (f x)) -> hn (iterM f l).
Proof. intros H. induction l as [|x r IH]; cbn [iterM]; [apply hn_ret|]. apply hn_bind; [apply H|]. intros y. exact IH. Qed.
Lemma hn_abs_val fuel : forall c p, hn (abs_val fuel c p).
Proof.
  induction fuel as [|f IH]; intros c p; destruct p; cbn [abs_val];
    hnt ltac:(first [apply hn_lookup_def_aux | apply hn_root_of_aux | apply IH | (apply hn_mapM; intros ?)]).
Qed.


Lemma tr_catch_cls {A} (P : st -> Prop) (m : M A) (Q : A -> st -> Prop) want h : stable P -> tr P m Q -> (forall d, tr P (h (FErr d)) Q) -> tr P (catch_cls m want h) Q.
Proof.
  intros SP Hm Hh. unfold catch_cls. apply tr_catch; [exact SP|exact Hm|]. intros f m' E.
  destruct f; try discriminate. destruct (want (d_cls d)); [|discriminate]. inversion E; subst. apply Hh.
Qed.
Lemma tr_ret_none (P : st -> Prop) : tr P (ret res_none) (fun r s => resok r s).
Proof. eapply tr_post; [apply tr_ret|]. intros a s [-> _] p E. discriminate E. Qed.

(* monad laws, as rules *)
Lemma tr_assoc {A B C} (P : st -> Prop) (a : M A) (f : A -> M B) (k : B -> M C) (R : C -> st -> Prop) :
  tr P (bind a (fun x => bind (f x) k)) R -> tr P (bind (bind a f) k) R.
Proof.
  intros H s HI HP. specialize (H s HI HP). unfold bind in *. destruct (a s) as [[x|e] s1]; cbn [fst snd] in *; exact H.
Qed.
Lemma tr_ret_bind {A B} (P : st -> Prop) (x : A) (k : A -> M B) (R : B -> st -> Prop) : tr P (k x) R -> tr P (bind (ret x) k) R.
Proof. intros H s HI HP. exact (H s HI HP). Qed.
Lemma tr_fail_bind {A B} (P : st -> Prop) f (k : A -> M B) (R : B -> st -> Prop) : ok_fail f -> tr P (bind (failm f) k) R.
Proof. intros Hf s HI HP. cbn. split; [exact HI|]. split; [apply K_refl|exact Hf]. Qed.
Lemma tr_error_bind {A B} (P : st -> Prop) cls t c (k : A -> M B) (R : B -> st -> Prop) : tr P (bind (runtime_error_cls cls t c) k) R.
Proof.
  intros s HI HP. pose proof (@ro_runtime_error_cls A cls t c s) as H. pose proof (@nb_runtime_error_cls A cls t c s) as N. unfold bind.
  unfold runtime_error_cls in *. destruct ((cx <- get_ctx c ;; _) s) as [[d|f] s1]; cbn [fst snd] in *; subst; (split; [exact HI|]; split; [apply K_refl|exact N]).
Qed.

Lemma tr_bind_catch_cls {A B} (P : st -> Prop) (m : M A) want h (k : A -> M B) (R : B -> st -> Prop) : stable P ->
  tr P (bind m k) R -> (forall d, tr P (bind (h (FErr d)) k) R) -> tr P (bind (catch_cls m want h) k) R.
Proof.
  intros SP Hm Hh s HI HP. specialize (Hm s HI HP). unfold bind, catch_cls, catch in *.
  destruct (m s) as [[a|f] s1]; cbn [fst snd] in *; [exact Hm|].
  destruct Hm as [I1 [K1 O1]].
  destruct f; try (split; [exact I1|]; split; [exact K1|exact O1]).
  destruct (want (d_cls d)); [|split; [exact I1|]; split; [exact K1|exact I]].
  destruct (Hh d s1 I1 (SP _ _ K1 HP)) as [I2 [K2 Q2]]. unfold bind in *.
  split; [exact I2|]. split; [eapply K_trans; eauto|exact Q2].
Qed.
