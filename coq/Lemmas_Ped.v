(* Lemmas_Ped.v — --pedantic only rejects: the evaluator run with the option either fails with a pedantic
   Error or behaves exactly (result and state) as without it.  Relational congruence over the monad. *)
From PE2 Require Import Eval.
Local Open Scope Z_scope.

Definition ped_fail {A} (x : outcome A * st) : Prop :=
  exists d s, x = (Fail (FErr d), s) /\ d_kind d = DPedantic /\ d_cls d = EOther.
Definition R {A} (x y : outcome A * st) : Prop := x = y \/ ped_fail x.
Definition RM {A} (m1 m2 : M A) : Prop := forall s, R (m1 s) (m2 s).

Definition is_ped_failure (f : fail) : bool :=
  match f with FErr d => match d_kind d, d_cls d with DPedantic, EOther => true | _, _ => false end | _ => false end.

Lemma RM_refl {A} (m : M A) : RM m m.
Proof. intros s. left. reflexivity. Qed.

Lemma RM_bind {A B} (m1 m2 : M A) (k1 k2 : A -> M B) :
  RM m1 m2 -> (forall a, RM (k1 a) (k2 a)) -> RM (bind m1 k1) (bind m2 k2).
Proof.
  intros Hm Hk s. unfold bind. destruct (Hm s) as [E|[d [s' [E Hd]]]].
  - rewrite E. destruct (m2 s) as [[a|f] s1]; [apply Hk|left; reflexivity].
  - rewrite E. right. exists d, s'. split; [reflexivity|exact Hd].
Qed.

Lemma RM_ped_guard t : RM (ped_guard true t) (ped_guard false t).
Proof. intros s. right. unfold ped_guard, pedantic_error, failm. eexists. eexists. split; [reflexivity|split; reflexivity]. Qed.

Lemma RM_if {A} (b : bool) (x1 x2 y1 y2 : M A) : RM x1 x2 -> RM y1 y2 -> RM (if b then x1 else y1) (if b then x2 else y2).
Proof. destruct b; auto. Qed.

(* handlers never catch a pedantic failure (they test the error class, pedantic errors have class EOther
   and no handler matches EOther) and are related on every other failure *)
Definition handler_rel {A} (h1 h2 : fail -> option (M A)) : Prop :=
  (forall f, is_ped_failure f = true -> h1 f = None) /\
  (forall f, match h1 f, h2 f with
             | Some a, Some b => RM a b
             | None, None => True
             | _, _ => False
             end).

Lemma RM_catch {A} (m1 m2 : M A) (h1 h2 : fail -> option (M A)) :
  RM m1 m2 -> handler_rel h1 h2 -> RM (catch m1 h1) (catch m2 h2).
Proof.
  intros Hm [Hp Hh] s. unfold catch. destruct (Hm s) as [E|[d [s' [E Hd]]]].
  - rewrite E. destruct (m2 s) as [[a|f] s1]; [left; reflexivity|].
    specialize (Hh f). destruct (h1 f) as [a|], (h2 f) as [b|]; try contradiction; [apply Hh|left; reflexivity].
  - rewrite E. assert (Hn : h1 (FErr d) = None) by (apply Hp; cbn; destruct Hd as [Hk Hc]; rewrite Hk, Hc; reflexivity).
    rewrite Hn. right. exists d, s'. split; [reflexivity|exact Hd].
Qed.

Lemma RM_mapM {A B} (f1 f2 : A -> M B) l : (forall x, RM (f1 x) (f2 x)) -> RM (mapM f1 l) (mapM f2 l).
Proof.
  intros H. induction l as [|x r IH]; cbn [mapM]; [apply RM_refl|].
  apply RM_bind; [apply H|]. intros y. apply RM_bind; [exact IH|]. intros ys. apply RM_refl.
Qed.
Lemma RM_iterM {A} (f1 f2 : A -> M unit) l : (forall x, RM (f1 x) (f2 x)) -> RM (iterM f1 l) (iterM f2 l).
Proof.
  intros H. induction l as [|x r IH]; cbn [iterM]; [apply RM_refl|]. apply RM_bind; [apply H|]. intros _. exact IH.
Qed.
Lemma RM_repeatM {A} k (m1 m2 : M A) : RM m1 m2 -> RM (repeatM k m1) (repeatM k m2).
Proof.
  intros H. induction k as [|k IH]; cbn [repeatM]; [apply RM_refl|].
  apply RM_bind; [exact H|]. intros x. apply RM_bind; [exact IH|]. intros r. apply RM_refl.
Qed.

Lemma RM_call_body d cc b (m1 m2 : M unit) : RM m1 m2 -> RM (call_body d cc b m1) (call_body d cc b m2).
Proof.
  intros H s. unfold call_body. destruct (H s) as [E|[dg [s' [E Hd]]]].
  - rewrite E. left. reflexivity.
  - rewrite E. right. exists dg, (set_depth d s'). split; [reflexivity|exact Hd].
Qed.

Lemma RM_eval_bounds (ev1 ev2 : node -> M result) c bs total :
  (forall e, RM (ev1 e) (ev2 e)) -> RM (eval_bounds ev1 c bs total) (eval_bounds ev2 c bs total).
Proof.
  intros H.
  assert (G : forall n bs0 total0, (List.length bs0 <= n)%nat -> RM (eval_bounds ev1 c bs0 total0) (eval_bounds ev2 c bs0 total0)).
  { induction n as [|n IH]; intros bs0 total0 Hl.
    - destruct bs0; [apply RM_refl|cbn in Hl; lia].
    - destruct bs0 as [|lo [|hi rest]]; cbn [eval_bounds]; try apply RM_refl.
      apply RM_bind; [apply H|]. intros lr. apply RM_if; [apply RM_refl|].
      apply RM_bind; [apply H|]. intros hr. apply RM_if; [apply RM_refl|].
      apply RM_bind; [apply RM_refl|]. intros l. apply RM_bind; [apply RM_refl|]. intros h.
      apply RM_if; [apply RM_refl|]. apply RM_if; [apply RM_refl|].
      apply RM_bind; [|intros ds; apply RM_refl]. apply IH. cbn in Hl. lia. }
  apply (G (List.length bs)). lia.
Qed.

Lemma RM_eval_indices (ev1 ev2 : node -> M result) c es ds :
  (forall e, RM (ev1 e) (ev2 e)) -> RM (eval_indices ev1 c es ds) (eval_indices ev2 c es ds).
Proof.
  intros H. revert ds. induction es as [|e er IH]; intros [|d dr]; cbn [eval_indices]; try apply RM_refl.
  apply RM_bind; [apply H|]. intros ir. apply RM_if; [apply RM_refl|].
  apply RM_bind; [apply RM_refl|]. intros i. apply RM_if; [apply RM_refl|].
  apply RM_bind; [apply IH|]. intros rest. apply RM_refl.
Qed.

Section Loops.
Variable lim : limits.
Variables (t : token) (c : N).

Lemma RM_cond_bool ce1 ce2 : RM ce1 ce2 -> RM (cond_bool t c ce1) (cond_bool t c ce2).
Proof. intros H. unfold cond_bool. apply RM_bind; [exact H|]. intros r. apply RM_refl. Qed.

Lemma RM_run_body br1 br2 : RM br1 br2 -> RM (run_body br1) (run_body br2).
Proof.
  intros H. unfold run_body. apply RM_catch; [apply RM_bind; [exact H|intros; apply RM_refl]|].
  split; [intros f Hf; destruct f; try discriminate; reflexivity|]. intros f. destruct f; try exact I; apply RM_refl.
Qed.

Lemma RM_while k ce1 ce2 br1 br2 : RM ce1 ce2 -> RM br1 br2 -> RM (while_loop lim k t c ce1 br1) (while_loop lim k t c ce2 br2).
Proof.
  intros Hc Hb. induction k as [|k IH]; cbn [while_loop]; [apply RM_refl|].
  apply RM_bind; [apply RM_refl|]. intros _. apply RM_bind; [apply RM_cond_bool; exact Hc|]. intros v.
  apply RM_if; [apply RM_refl|]. apply RM_bind; [apply RM_run_body; exact Hb|]. intros g. apply RM_if; [exact IH|apply RM_refl].
Qed.

Lemma RM_repeat k ce1 ce2 br1 br2 : RM ce1 ce2 -> RM br1 br2 -> RM (repeat_loop lim k t c ce1 br1) (repeat_loop lim k t c ce2 br2).
Proof.
  intros Hc Hb. induction k as [|k IH]; cbn [repeat_loop]; [apply RM_refl|].
  apply RM_bind; [apply RM_refl|]. intros _. apply RM_bind; [apply RM_run_body; exact Hb|]. intros g.
  apply RM_if; [apply RM_refl|]. apply RM_bind; [apply RM_cond_bool; exact Hc|]. intros v. apply RM_if; [apply RM_refl|exact IH].
Qed.

Lemma RM_for k it stepv stop br1 br2 : RM br1 br2 -> RM (for_loop lim k t c it stepv stop br1) (for_loop lim k t c it stepv stop br2).
Proof.
  intros Hb. induction k as [|k IH]; cbn [for_loop]; [apply RM_refl|].
  apply RM_bind; [apply RM_refl|]. intros cl. destruct (c_val cl); try apply RM_refl.
  apply RM_if; [|apply RM_refl]. apply RM_bind; [apply RM_refl|]. intros _.
  apply RM_bind; [apply RM_run_body; exact Hb|]. intros g. apply RM_if; [apply RM_refl|].
  apply RM_bind; [apply RM_refl|]. intros cl'. destruct (c_val cl'); try apply RM_refl.
  apply RM_bind; [apply RM_refl|]. intros _. exact IH.
Qed.

Lemma RM_if_chain (ev1 ev2 : node -> M result) (rb1 rb2 : list node -> M unit) comps :
  (forall e, RM (ev1 e) (ev2 e)) -> (forall b, RM (rb1 b) (rb2 b)) ->
  RM (if_chain t c (map (if_comp ev1 rb1) comps)) (if_chain t c (map (if_comp ev2 rb2) comps)).
Proof.
  intros He Hb. induction comps as [|[[e|] b] r IH]; cbn [map if_comp if_chain fst snd]; [apply RM_refl| |].
  - apply RM_bind; [apply RM_cond_bool; apply He|]. intros v. apply RM_if; [|exact IH].
    apply RM_bind; [apply Hb|]. intros _. apply RM_refl.
  - apply RM_bind; [apply Hb|]. intros _. apply RM_refl.
Qed.

Lemma RM_case_chain (cl1 cl2 : list (M bool * M unit)) :
  Forall2 (fun a b => RM (fst a) (fst b) /\ RM (snd a) (snd b)) cl1 cl2 -> RM (case_chain cl1) (case_chain cl2).
Proof.
  induction 1 as [|[m1 b1] [m2 b2] r1 r2 [Hm Hb] _ IH]; cbn [case_chain]; [apply RM_refl|].
  cbn [fst snd] in *. apply RM_bind; [exact Hm|]. intros v. apply RM_if; [|exact IH]. apply RM_bind; [exact Hb|]. intros _. apply RM_refl.
Qed.
End Loops.

Lemma RM_catch_cls {A} (m1 m2 : M A) want (h1 h2 : fail -> M A) :
  RM m1 m2 -> (forall fl, RM (h1 fl) (h2 fl)) -> want EOther = false -> RM (catch_cls m1 want h1) (catch_cls m2 want h2).
Proof.
  intros Hm Hh Hw. unfold catch_cls. apply RM_catch; [exact Hm|]. split.
  - intros f Hf. destruct f as [d| | | | | |]; try discriminate. cbn in Hf.
    destruct (d_kind d); try discriminate. destruct (d_cls d) eqn:E; try discriminate. rewrite Hw. reflexivity.
  - intros f. destruct f as [d| | | | | |]; try exact I. destruct (want (d_cls d)); [apply Hh|exact I].
Qed.

Lemma Forall2_map_same {A B} (P : B -> B -> Prop) (f g : A -> B) l : (forall x, P (f x) (g x)) -> Forall2 P (map f l) (map g l).
Proof. intros H. induction l; cbn; constructor; auto. Qed.

(* ---------------- the evaluator ---------------- *)
Section Main.
Variable repl : bool.
Variable lim : limits.

(* two records of evaluation functions are related when they have the same level and every component is *)
Definition evs_rel (a b : evs) : Prop :=
  ev_fuel a = ev_fuel b /\
  (forall n c, RM (ev_eval a n c) (ev_eval b n c)) /\
  (forall r c, RM (ev_resolve a r c) (ev_resolve b r c)) /\
  (forall v e c, RM (ev_case_equals a v e c) (ev_case_equals b v e c)) /\
  (forall v lo hi c, RM (ev_case_range a v lo hi c) (ev_case_range b v lo hi c)) /\
  (forall bl c, RM (ev_run_block a bl c) (ev_run_block b bl c)) /\
  (forall name ty cst owner, RM (ev_new_var a name ty cst owner) (ev_new_var b name ty cst owner)) /\
  (forall name ty dims owner, RM (ev_new_array a name ty dims owner) (ev_new_array b name ty dims owner)) /\
  (forall t params args vals c fc, RM (ev_bind_args a t params args vals c fc) (ev_bind_args b t params args vals c fc)) /\
  (forall t name args c, RM (ev_call_procedure a t name args c) (ev_call_procedure b t name args c)) /\
  (forall t args c, RM (ev_call_function a t args c) (ev_call_function b t args c)).

Section Bodies.
Variables a b : evs.
Hypothesis Hfuel : ev_fuel a = ev_fuel b.
Hypothesis He : forall n c, RM (ev_eval a n c) (ev_eval b n c).
Hypothesis Hr : forall r c, RM (ev_resolve a r c) (ev_resolve b r c).
Hypothesis Hce : forall v e c, RM (ev_case_equals a v e c) (ev_case_equals b v e c).
Hypothesis Hcr : forall v lo hi c, RM (ev_case_range a v lo hi c) (ev_case_range b v lo hi c).
Hypothesis Hb : forall bl c, RM (ev_run_block a bl c) (ev_run_block b bl c).
Hypothesis Hv : forall name ty cst owner, RM (ev_new_var a name ty cst owner) (ev_new_var b name ty cst owner).
Hypothesis Ha : forall name ty dims owner, RM (ev_new_array a name ty dims owner) (ev_new_array b name ty dims owner).
Hypothesis Hba : forall t params args vals c fc, RM (ev_bind_args a t params args vals c fc) (ev_bind_args b t params args vals c fc).
Hypothesis Hp : forall t name args c, RM (ev_call_procedure a t name args c) (ev_call_procedure b t name args c).
Hypothesis Hf : forall t args c, RM (ev_call_function a t args c) (ev_call_function b t args c).

Ltac rm :=
  repeat first
    [ match goal with |- RM ?x ?y => constr_eq x y; apply RM_refl end
    | apply RM_ped_guard
    | apply He | apply Hr | apply Hce | apply Hcr | apply Hb | apply Hv | apply Ha | apply Hba | apply Hp | apply Hf
    | match goal with
      | |- RM (bind _ _) (bind _ _) => apply RM_bind; [ | intros ? ]
      | |- RM (if ?c then _ else _) (if ?c then _ else _) => destruct c
      | |- RM (match ?x with _ => _ end) (match ?x with _ => _ end) => destruct x
      | |- RM (catch_cls _ _ _) (catch_cls _ _ _) => apply RM_catch_cls; [ | intros ? | reflexivity ]
      | |- RM (mapM _ _) (mapM _ _) => apply RM_mapM; intros ?
      | |- RM (iterM _ _) (iterM _ _) => apply RM_iterM; intros ?
      | |- RM (repeatM _ _) (repeatM _ _) => apply RM_repeatM
      | |- RM (call_body _ _ _ _) (call_body _ _ _ _) => apply RM_call_body
      | |- RM (eval_bounds _ _ _ _) (eval_bounds _ _ _ _) => apply RM_eval_bounds; intros ?
      | |- RM (eval_indices _ _ _ _) (eval_indices _ _ _ _) => apply RM_eval_indices; intros ?
      | |- RM (while_loop _ _ _ _ _ _) (while_loop _ _ _ _ _ _) => apply RM_while
      | |- RM (repeat_loop _ _ _ _ _ _) (repeat_loop _ _ _ _ _ _) => apply RM_repeat
      | |- RM (for_loop _ _ _ _ _ _ _ _) (for_loop _ _ _ _ _ _ _ _) => apply RM_for
      | |- RM (if_chain _ _ _) (if_chain _ _ _) => apply RM_if_chain; intros ?
      | |- RM (case_chain _) (case_chain _) => apply RM_case_chain; apply Forall2_map_same; intros ?
      | |- _ /\ _ => split
      | |- RM (fst (match ?x with _ => _ end)) _ => destruct x; cbn [fst snd]
      | |- RM (snd (match ?x with _ => _ end)) _ => destruct x; cbn [fst snd]
      end ].

Lemma eval_body_rel n c : RM (eval_body true lim a n c) (eval_body false lim b n c).
Proof. destruct n; unfold eval_body; rewrite <- ?Hfuel; rm. Qed.

Lemma resolve_body_rel r c : RM (resolve_body a r c) (resolve_body b r c).
Proof. destruct r; unfold resolve_body; rm. Qed.

Lemma case_equals_body_rel v e c : RM (case_equals_body a v e c) (case_equals_body b v e c).
Proof. unfold case_equals_body; rm. Qed.

Lemma case_range_body_rel v lo hi c : RM (case_range_body a v lo hi c) (case_range_body b v lo hi c).
Proof. unfold case_range_body; rm. Qed.

Lemma run_block_body_rel bl c : RM (run_block_body repl lim a bl c) (run_block_body repl lim b bl c).
Proof. unfold run_block_body; rm. Qed.

Lemma new_var_body_rel name ty cst owner : RM (new_var_body a name ty cst owner) (new_var_body b name ty cst owner).
Proof. unfold new_var_body; rm. Qed.

Lemma new_array_body_rel name ty dims owner : RM (new_array_body lim a name ty dims owner) (new_array_body lim b name ty dims owner).
Proof. unfold new_array_body; rm. Qed.

Lemma bind_args_body_rel t params args vals c fc : RM (bind_args_body a t params args vals c fc) (bind_args_body b t params args vals c fc).
Proof. unfold bind_args_body; rm. Qed.

Lemma call_procedure_body_rel t name args c : RM (call_procedure_body lim a t name args c) (call_procedure_body lim b t name args c).
Proof. unfold call_procedure_body; rm. Qed.

Lemma call_function_body_rel t args c : RM (call_function_body lim a t args c) (call_function_body lim b t args c).
Proof. unfold call_function_body; rm. Qed.
End Bodies.

Lemma evs_step_rel a b : evs_rel a b -> evs_rel (evs_step true repl lim a) (evs_step false repl lim b).
Proof.
  intros [H0 [H1 [H2 [H3 [H4 [H5 [H6 [H7 [H8 [H9 H10]]]]]]]]]]. unfold evs_rel, evs_step. cbn.
  split; [rewrite H0; reflexivity|].
  split; [intros; apply eval_body_rel; assumption|].
  split; [intros; apply resolve_body_rel; assumption|].
  split; [intros; apply case_equals_body_rel; assumption|].
  split; [intros; apply case_range_body_rel; assumption|].
  split; [intros; apply run_block_body_rel; assumption|].
  split; [intros; apply new_var_body_rel; assumption|].
  split; [intros; apply new_array_body_rel; assumption|].
  split; [intros; apply bind_args_body_rel; assumption|].
  split; [intros; apply call_procedure_body_rel; assumption|].
  intros; apply call_function_body_rel; assumption.
Qed.

Lemma evs_at_rel fuel : evs_rel (evs_at true repl lim fuel) (evs_at false repl lim fuel).
Proof.
  induction fuel as [|f IH]; cbn [evs_at]; [|apply evs_step_rel; exact IH].
  unfold evs_rel, evs_zero. cbn. repeat split; intros; apply RM_refl.
Qed.

(* with --pedantic the evaluator either stops with a pedantic Error or does exactly what it does without *)
Theorem eval_ped_only_rejects fuel n c : RM (eval true repl lim fuel n c) (eval false repl lim fuel n c).
Proof. unfold eval. destruct (evs_at_rel fuel) as [_ [H _]]. apply H. Qed.

Theorem run_block_ped_only_rejects fuel bl c : RM (run_block true repl lim fuel bl c) (run_block false repl lim fuel bl c).
Proof. unfold run_block. destruct (evs_at_rel fuel) as [_ [_ [_ [_ [_ [H _]]]]]]. apply H. Qed.
End Main.
