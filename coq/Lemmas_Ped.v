(* Lemmas_Ped.v — --pedantic only rejects: the evaluator run with the option either fails with a pedantic
   Error or behaves exactly (result and state) as without it.  Relational congruence over the monad. *)
From PE2 Require Import Eval.
Local Open Scope Z_scope.

Definition ped_fail {A} (x : outcome A * st) : Prop :=
  exists d s, x = (Fail (FErr d), s) /\ d_kind d = DPedantic.
Definition R {A} (x y : outcome A * st) : Prop := x = y \/ ped_fail x.
Definition RM {A} (m1 m2 : M A) : Prop := forall s, R (m1 s) (m2 s).

Definition is_ped_failure (f : fail) : bool :=
  match f with FErr d => match d_kind d with DPedantic => true | _ => false end | _ => false end.

Lemma RM_refl {A} (m : M A) : RM m m.
Proof. intros s. left. reflexivity. Qed.

Lemma RM_bind {A B} (m1 m2 : M A) (k1 k2 : A -> M B) :
  RM m1 m2 -> (forall a, RM (k1 a) (k2 a)) -> RM (bind m1 k1) (bind m2 k2).
Proof.
  intros Hm Hk s. unfold bind. destruct (Hm s) as [E|[d [s' [E Hd]]]].
  - rewrite E. destruct (m2 s) as [[a|f] s1]; [apply Hk|left; reflexivity].
  - rewrite E. right. exists d, s'. split; [reflexivity|exact Hd].
Qed.

Lemma RM_ped_guard t : RM (ped_guard true t) (ped_guard false t).
Proof. intros s. right. unfold ped_guard, pedantic_error, failm. eexists. eexists. split; [reflexivity|reflexivity]. Qed.

Lemma RM_if {A} (b : bool) (x1 x2 y1 y2 : M A) : RM x1 x2 -> RM y1 y2 -> RM (if b then x1 else y1) (if b then x2 else y2).
Proof. destruct b; auto. Qed.

(* handlers never catch a pedantic failure (they test the error class, pedantic errors have class EOther
   and no handler matches EOther) and are related on every other failure *)
Definition handler_rel {A} (h1 h2 : fail -> option (M A)) : Prop :=
  (forall f, is_ped_failure f = true -> h1 f = None) /\
  (forall f, match h1 f, h2 f with
             | Some a, Some b => RM a b
             | None, None => True
             | _, _ => False
             end).

Lemma RM_catch {A} (m1 m2 : M A) (h1 h2 : fail -> option (M A)) :
  RM m1 m2 -> handler_rel h1 h2 -> RM (catch m1 h1) (catch m2 h2).
Proof.
  intros Hm [Hp Hh] s. unfold catch. destruct (Hm s) as [E|[d [s' [E Hd]]]].
  - rewrite E. destruct (m2 s) as [[a|f] s1]; [left; reflexivity|].
    specialize (Hh f). destruct (h1 f) as [a|], (h2 f) as [b|]; try contradiction; [apply Hh|left; reflexivity].
  - rewrite E. assert (Hn : h1 (FErr d) = None) by (apply Hp; cbn; rewrite Hd; reflexivity).
    rewrite Hn. right. exists d, s'. split; [reflexivity|exact Hd].
Qed.

Lemma RM_mapM {A B} (f1 f2 : A -> M B) l : (forall x, RM (f1 x) (f2 x)) -> RM (mapM f1 l) (mapM f2 l).
Proof.
  intros H. induction l as [|x r IH]; cbn [mapM]; [apply RM_refl|].
  apply RM_bind; [apply H|]. intros y. apply RM_bind; [exact IH|]. intros ys. apply RM_refl.
Qed.
Lemma RM_iterM {A} (f1 f2 : A -> M unit) l : (forall x, RM (f1 x) (f2 x)) -> RM (iterM f1 l) (iterM f2 l).
Proof.
  intros H. induction l as [|x r IH]; cbn [iterM]; [apply RM_refl|]. apply RM_bind; [apply H|]. intros _. exact IH.
Qed.
Lemma RM_repeatM {A} k (m1 m2 : M A) : RM m1 m2 -> RM (repeatM k m1) (repeatM k m2).
Proof.
  intros H. induction k as [|k IH]; cbn [repeatM]; [apply RM_refl|].
  apply RM_bind; [exact H|]. intros x. apply RM_bind; [exact IH|]. intros r. apply RM_refl.
Qed.

Lemma RM_call_body d cc b (m1 m2 : M unit) : RM m1 m2 -> RM (call_body d cc b m1) (call_body d cc b m2).
Proof.
  intros H s. unfold call_body. destruct (H s) as [E|[dg [s' [E Hd]]]].
  - rewrite E. left. reflexivity.
  - rewrite E. right. exists dg, (set_depth d s'). split; [reflexivity|exact Hd].
Qed.

Lemma RM_eval_bounds (ev1 ev2 : node -> M result) c bs total :
  (forall e, RM (ev1 e) (ev2 e)) -> RM (eval_bounds ev1 c bs total) (eval_bounds ev2 c bs total).
Proof.
  intros H.
  assert (G : forall n bs0 total0, (List.length bs0 <= n)%nat -> RM (eval_bounds ev1 c bs0 total0) (eval_bounds ev2 c bs0 total0)).
  { induction n as [|n IH]; intros bs0 total0 Hl.
    - destruct bs0; [apply RM_refl|cbn in Hl; lia].
    - destruct bs0 as [|lo [|hi rest]]; cbn [eval_bounds]; try apply RM_refl.
      apply RM_bind; [apply H|]. intros lr. apply RM_if; [apply RM_refl|].
      apply RM_bind; [apply H|]. intros hr. apply RM_if; [apply RM_refl|].
      apply RM_bind; [apply RM_refl|]. intros l. apply RM_bind; [apply RM_refl|]. intros h.
      apply RM_if; [apply RM_refl|]. apply RM_if; [apply RM_refl|].
      apply RM_bind; [|intros ds; apply RM_refl]. apply IH. cbn in Hl. lia. }
  apply (G (List.length bs)). lia.
Qed.

Lemma RM_eval_indices (ev1 ev2 : node -> M result) c es ds :
  (forall e, RM (ev1 e) (ev2 e)) -> RM (eval_indices ev1 c es ds) (eval_indices ev2 c es ds).
Proof.
  intros H. revert ds. induction es as [|e er IH]; intros [|d dr]; cbn [eval_indices]; try apply RM_refl.
  apply RM_bind; [apply H|]. intros ir. apply RM_if; [apply RM_refl|].
  apply RM_bind; [apply RM_refl|]. intros i. apply RM_if; [apply RM_refl|].
  apply RM_bind; [apply IH|]. intros rest. apply RM_refl.
Qed.

Section Loops.
Variable lim : limits.
Variables (t : token) (c : N).

Lemma RM_cond_bool ce1 ce2 : RM ce1 ce2 -> RM (cond_bool t c ce1) (cond_bool t c ce2).
Proof. intros H. unfold cond_bool. apply RM_bind; [exact H|]. intros r. apply RM_refl. Qed.

Lemma RM_run_body br1 br2 : RM br1 br2 -> RM (run_body br1) (run_body br2).
Proof.
  intros H. unfold run_body. apply RM_catch; [apply RM_bind; [exact H|intros; apply RM_refl]|].
  split; [intros f Hf; destruct f; try discriminate; reflexivity|]. intros f. destruct f; try exact I; apply RM_refl.
Qed.

Lemma RM_while k ce1 ce2 br1 br2 : RM ce1 ce2 -> RM br1 br2 -> RM (while_loop lim k t c ce1 br1) (while_loop lim k t c ce2 br2).
Proof.
  intros Hc Hb. induction k as [|k IH]; cbn [while_loop]; [apply RM_refl|].
  apply RM_bind; [apply RM_refl|]. intros _. apply RM_bind; [apply RM_cond_bool; exact Hc|]. intros v.
  apply RM_if; [apply RM_refl|]. apply RM_bind; [apply RM_run_body; exact Hb|]. intros g. apply RM_if; [exact IH|apply RM_refl].
Qed.

Lemma RM_repeat k ce1 ce2 br1 br2 : RM ce1 ce2 -> RM br1 br2 -> RM (repeat_loop lim k t c ce1 br1) (repeat_loop lim k t c ce2 br2).
Proof.
  intros Hc Hb. induction k as [|k IH]; cbn [repeat_loop]; [apply RM_refl|].
  apply RM_bind; [apply RM_refl|]. intros _. apply RM_bind; [apply RM_run_body; exact Hb|]. intros g.
  apply RM_if; [apply RM_refl|]. apply RM_bind; [apply RM_cond_bool; exact Hc|]. intros v. apply RM_if; [apply RM_refl|exact IH].
Qed.

Lemma RM_for k it stepv stop br1 br2 : RM br1 br2 -> RM (for_loop lim k t c it stepv stop br1) (for_loop lim k t c it stepv stop br2).
Proof.
  intros Hb. induction k as [|k IH]; cbn [for_loop]; [apply RM_refl|].
  apply RM_bind; [apply RM_refl|]. intros cl. destruct (c_val cl); try apply RM_refl.
  apply RM_if; [|apply RM_refl]. apply RM_bind; [apply RM_refl|]. intros _.
  apply RM_bind; [apply RM_run_body; exact Hb|]. intros g. apply RM_if; [apply RM_refl|].
  apply RM_bind; [apply RM_refl|]. intros cl'. destruct (c_val cl'); try apply RM_refl.
  apply RM_bind; [apply RM_refl|]. intros _. exact IH.
Qed.

Lemma RM_if_chain (ev1 ev2 : node -> M result) (rb1 rb2 : list node -> M unit) comps :
  (forall e, RM (ev1 e) (ev2 e)) -> (forall b, RM (rb1 b) (rb2 b)) ->
  RM (if_chain t c (map (if_comp ev1 rb1) comps)) (if_chain t c (map (if_comp ev2 rb2) comps)).
Proof.
  intros He Hb. induction comps as [|[[e|] b] r IH]; cbn [map if_comp if_chain fst snd]; [apply RM_refl| |].
  - apply RM_bind; [apply RM_cond_bool; apply He|]. intros v. apply RM_if; [|exact IH].
    apply RM_bind; [apply Hb|]. intros _. apply RM_refl.
  - apply RM_bind; [apply Hb|]. intros _. apply RM_refl.
Qed.

Lemma RM_case_chain (cl1 cl2 : list (M bool * M unit)) :
  Forall2 (fun a b => RM (fst a) (fst b) /\ RM (snd a) (snd b)) cl1 cl2 -> RM (case_chain cl1) (case_chain cl2).
Proof.
  induction 1 as [|[m1 b1] [m2 b2] r1 r2 [Hm Hb] _ IH]; cbn [case_chain]; [apply RM_refl|].
  cbn [fst snd] in *. apply RM_bind; [exact Hm|]. intros v. apply RM_if; [|exact IH]. apply RM_bind; [exact Hb|]. intros _. apply RM_refl.
Qed.
End Loops.
