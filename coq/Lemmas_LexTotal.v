(* Lemmas_LexTotal.v — the lexer always makes progress: every step of the main loop consumes at least one
   character, so the loop's fuel (length of the text + 1) is never what stops it: an accepted text has been read to
   its end, for every text. *)
From PE2 Require Import Lexer.
Require Import Lia.
Local Open Scope Z_scope.

Definition len (s : lst) : nat := List.length (rest s).

Lemma advance_len s : len (advance s) = pred (len s).
Proof. unfold len, advance. destruct (rest s) as [|x [|y r]]; reflexivity. Qed.
Lemma advance_n_len n : forall s, (len (advance_n n s) <= len s)%nat.
Proof. induction n as [|n IH]; intros s; cbn [advance_n]; [lia|]. specialize (IH (advance s)). rewrite advance_len in IH. lia. Qed.
Lemma at_end_len s : at_end s = false <-> (0 < len s)%nat.
Proof. unfold at_end, len. destruct (rest s); cbn; split; intros; try lia; try discriminate; reflexivity. Qed.

Lemma word_loop_len fuel : forall s acc s' w, word_loop fuel s acc = (s', w) -> (len s' <= len s)%nat.
Proof.
  induction fuel as [|f IH]; intros s acc s' w H; cbn [word_loop] in H; [inversion H; lia|].
  destruct (at_end s); [inversion H; lia|]. cbv zeta in H.
  destruct (is_alnum (curc s) || aeqb (curc s) "_"); [|inversion H; lia].
  apply IH in H. rewrite advance_len in H. lia.
Qed.
Lemma number_loop_len fuel : forall s d acc s' d' txt, number_loop fuel s d acc = (s', d', txt) -> (len s' <= len s)%nat.
Proof.
  induction fuel as [|f IH]; intros s d acc s' d' txt H; cbn [number_loop] in H; [inversion H; lia|].
  destruct (at_end s); [inversion H; lia|]. cbv zeta in H.
  destruct (aeqb (curc s) "." && negb d); [apply IH in H; rewrite advance_len in H; lia|].
  destruct (is_digit (curc s)); [apply IH in H; rewrite advance_len in H; lia|inversion H; lia].
Qed.
Lemma digits_loop_len fuel : forall s acc s' r, digits_loop fuel s acc = (s', r) -> (len s' <= len s)%nat.
Proof.
  induction fuel as [|f IH]; intros s acc s' r H; cbn [digits_loop] in H; [inversion H; lia|].
  destruct (negb (at_end s) && is_digit (curc s)); [apply IH in H; rewrite advance_len in H; lia|inversion H; lia].
Qed.
Lemma string_loop_len fuel : forall s acc s' r, string_loop fuel s acc = inl (s', r) -> (len s' <= len s)%nat.
Proof.
  induction fuel as [|f IH]; intros s acc s' r H; cbn [string_loop] in H; [inversion H; lia|].
  destruct (aeqb (curc s) ch_dquote || at_end s); [inversion H; lia|].
  destruct (aeqb (curc s) ch_bslash).
  - cbv zeta in H. destruct (esc_seq (curc (advance s))); [|discriminate]. apply IH in H. rewrite !advance_len in H. lia.
  - apply IH in H. rewrite advance_len in H. lia.
Qed.
Lemma skip_comment_len fuel : forall s, (len (skip_comment fuel s) <= len s)%nat.
Proof.
  induction fuel as [|f IH]; intros s; cbn [skip_comment]; [lia|].
  destruct (negb (at_end s) && negb (aeqb (curc s) ch_nl)); [|lia]. specialize (IH (advance s)). rewrite advance_len in IH. lia.
Qed.

(* sub-lexers: strictly fewer characters left when they succeed from a state that is not at the end *)
Lemma make_word_progress ped s toks s' toks' : at_end s = false -> is_alpha (curc s) = true ->
  make_word ped s toks = LOk s' toks' -> (len s' < len s)%nat.
Proof.
  intros He Ha. unfold make_word. destruct (word_loop (S (List.length (rest s))) s []) as [s1 w] eqn:E.
  assert (H1 : (len s1 < len s)%nat).
  { cbn [word_loop] in E. rewrite He in E. cbv zeta in E. unfold is_alnum in E. rewrite Ha in E. cbn [orb] in E.
    apply word_loop_len in E. rewrite advance_len in E. apply at_end_len in He. lia. }
  destruct (lookup_kw w keywords) as [k|].
  - destruct k; try (destruct ped); intros H; inversion H; subst; exact H1.
  - destruct (is_data_type_word w); intros H; inversion H; subst; exact H1.
Qed.

Lemma make_number_progress s toks s' toks' : at_end s = false -> is_digit (curc s) = true ->
  make_number s toks = LOk s' toks' -> (len s' < len s)%nat.
Proof.
  intros He Hd. unfold make_number. destruct (number_loop (S (List.length (rest s))) s false []) as [[s1 d] txt] eqn:E.
  assert (H1 : (len s1 < len s)%nat).
  { cbn [number_loop] in E. rewrite He in E. cbv zeta in E.
    destruct (aeqb (curc s) "." && negb false); [apply number_loop_len in E; rewrite advance_len in E; apply at_end_len in He; lia|].
    rewrite Hd in E. apply number_loop_len in E. rewrite advance_len in E. apply at_end_len in He. lia. }
  cbv zeta. destruct (negb (aeqb (curc s1) "/") || d); [intros H; inversion H; subst; exact H1|].
  match goal with |- context [if ?b then _ else _] => destruct b end; [intros H; inversion H; subst; exact H1|].
  match goal with |- context [digits_loop ?f ?x ?a] => destruct (digits_loop f x a) as [s3 yrev] eqn:E3 end.
  intros H; inversion H; subst. apply digits_loop_len in E3.
  match type of E3 with (_ <= len (advance_n ?n ?x))%nat => pose proof (advance_n_len n x) end. lia.
Qed.

Lemma make_char_progress s toks s' toks' : make_char s toks = LOk s' toks' -> (len s' < len s)%nat.
Proof.
  unfold make_char. destruct (Nat.ltb (List.length (rest s)) 3) eqn:E3; [discriminate|]. apply Nat.ltb_ge in E3. cbv zeta.
  match goal with |- context [match ?b with inl _ => _ | inr _ => _ end] => destruct b as [[s2 c]|e] eqn:Eb end; [|discriminate].
  assert (H2 : (len s2 <= len (advance s))%nat).
  { destruct (aeqb (curc (advance s)) ch_bslash).
    - destruct (esc_seq (curc (advance (advance s)))); inversion Eb; subst. rewrite advance_len. lia.
    - destruct (aeqb (curc (advance s)) ch_quote); inversion Eb; subst. lia. }
  destruct (rest s2) as [|x [|q r]] eqn:Er; try discriminate. destruct (aeqb q ch_quote); [|discriminate].
  intros H; inversion H; subst. rewrite !advance_len in *. unfold len in *. lia.
Qed.

Lemma make_string_progress s toks s' toks' : at_end s = false -> make_string s toks = LOk s' toks' -> (len s' < len s)%nat.
Proof.
  intros He. unfold make_string. cbv zeta. destruct (string_loop _ _ _) as [[s2 acc]|e] eqn:E; [|discriminate].
  destruct (at_end s2 || negb (aeqb (curc s2) ch_dquote)); [discriminate|].
  intros H; inversion H; subst. apply string_loop_len in E. rewrite !advance_len in *. apply at_end_len in He. lia.
Qed.

Theorem lex_step_progress ped s toks s' toks' : at_end s = false -> lex_step ped s toks = LOk s' toks' -> (len s' < len s)%nat.
Proof.
  intros He H. pose proof (proj1 (at_end_len s) He) as Hpos. unfold lex_step in H. cbv zeta in H.
  destruct (simple_tok (curc s)); [inversion H; subst; rewrite advance_len; lia|].
  destruct (aeqb (curc s) "/").
  { destruct (at_end (advance s) || negb (aeqb (curc (advance s)) "/")); [inversion H; subst; rewrite advance_len; lia|].
    assert (Hs : s' = skip_comment (S (List.length (rest (advance s)))) (advance s)) by congruence. rewrite Hs.
    pose proof (skip_comment_len (S (List.length (rest (advance s)))) (advance s)) as K. rewrite advance_len in K. lia. }
  destruct (aeqb (curc s) "(").
  { match type of H with (if ?b then _ else _) = _ => destruct b end; [discriminate|]. inversion H; subst. rewrite advance_len. lia. }
  destruct (aeqb (curc s) "=").
  { destruct (at_end (advance s) || negb (aeqb (curc (advance s)) "=")); [|discriminate]. inversion H; subst. rewrite advance_len. lia. }
  destruct (aeqb (curc s) ch_quote); [eapply make_char_progress; eauto|].
  destruct (aeqb (curc s) ch_dquote); [eapply make_string_progress; eauto|].
  destruct (aeqb (curc s) ">").
  { destruct (at_end (advance s) || negb (aeqb (curc (advance s)) "=")); inversion H; subst; rewrite ?advance_len; lia. }
  destruct (aeqb (curc s) "<").
  { repeat match type of H with (if ?b then _ else _) = _ => destruct b end; inversion H; subst; rewrite ?advance_len; lia. }
  destruct (is_alpha (curc s)) eqn:Ea; [eapply make_word_progress; eauto|].
  destruct (is_digit (curc s)) eqn:Ed; [eapply make_number_progress; eauto|].
  destruct (aeqb (curc s) ch_space || aeqb (curc s) ch_tab); [|discriminate]. inversion H; subst. rewrite advance_len. lia.
Qed.

(* the main loop stops at the end of the text, never on its fuel *)
Theorem lex_loop_reads_everything ped : forall fuel s toks s' toks',
  (len s < fuel)%nat -> lex_loop fuel ped s toks = LOk s' toks' -> at_end s' = true.
Proof.
  induction fuel as [|f IH]; intros s toks s' toks' Hf H; [lia|]. cbn [lex_loop] in H.
  destruct (at_end s) eqn:E; [inversion H; subst; exact E|].
  destruct (lex_step ped s toks) as [s1 t1|e] eqn:E1; [|discriminate].
  eapply IH; [|exact H]. pose proof (lex_step_progress ped s toks s1 t1 E E1). lia.
Qed.

Theorem lex_total ped input :
  (exists e, lex ped input = inr e) \/
  (exists s toks, lex_loop (S (List.length (remove_cr input))) ped (init_lst (remove_cr input)) [] = LOk s toks /\ at_end s = true /\
                  lex ped input = inl (rev (mkTok TEXPRESSION_END (line s) (col s) [] :: toks))).
Proof.
  unfold lex. destruct (lex_loop _ ped _ []) as [s toks|e] eqn:E; [right|left; eauto].
  exists s, toks. split; [reflexivity|]. split; [|reflexivity].
  eapply lex_loop_reads_everything; [|exact E]. unfold len, init_lst. destruct (remove_cr input); cbn; lia.
Qed.
