(* Properties_C05.v — variables keep their declared type; bad stores are rejected without effect.
   PARTIAL: proved for the conversion step shared by all store channels and for the assignment channel's
   store sequence; the other channels (argument binding, RETURN, INPUT) run the same conversion and are
   compared by the correspondence. *)
From PE2 Require Import Eval Lemmas_Store Lemmas_Out.
Local Open Scope Z_scope.

(* implicitCast always succeeds, keeps tag and payload in agreement, and makes the value's type equal to
   the target's exactly when the value already has it or one of the three documented conversions applies *)
Theorem C05_implicit_cast_table : forall target r s, well_tagged r ->
  exists r', implicit_cast target r s = (Ok r', s) /\ well_tagged r' /\
             (dk (r_type r') = dk target <-> convertible (dk target) r).
Proof. exact implicit_cast_total. Qed.
Print Assumptions C05_implicit_cast_table.

Theorem C05_integer_to_real_value : forall nm z s,
  implicit_cast (dt_prim KReal) (mkRes (mkDT KInt nm) (Some (PInt z))) s = (Ok (res_of KReal (PReal (real_of_z z))), s).
Proof. exact cast_int_to_real. Qed.
Print Assumptions C05_integer_to_real_value.

Theorem C05_one_char_string_to_char_value : forall nm ch s,
  implicit_cast (dt_prim KChar) (mkRes (mkDT KStr nm) (Some (PStr [ch]))) s = (Ok (res_of KChar (PChar ch)), s).
Proof. exact cast_string1_to_char. Qed.
Print Assumptions C05_one_char_string_to_char_value.

Theorem C05_char_to_string_value : forall nm ch s,
  implicit_cast (dt_prim KStr) (mkRes (mkDT KChar nm) (Some (PChar ch))) s = (Ok (res_of KStr (PStr [ch])), s).
Proof. exact cast_char_to_string. Qed.
Print Assumptions C05_char_to_string_value.

(* values are never silently truncated: a REAL offered to an INTEGER target is left as it is (and then rejected) *)
Theorem C05_no_real_to_integer : forall nm x s,
  implicit_cast (dt_prim KInt) (mkRes (mkDT KReal nm) (Some (PReal x))) s = (Ok (mkRes (mkDT KReal nm) (Some (PReal x))), s).
Proof. exact cast_real_to_int_is_identity. Qed.
Print Assumptions C05_no_real_to_integer.

(* assignment: a value that is not convertible to the target's type (or a constant target) is an error
   and the whole state -- in particular the target's previous value -- is exactly as before *)
Theorem C05_failed_store_no_effect : forall t c id v s cl,
  get_cell id s = (Ok cl, s) -> well_tagged v ->
  (c_const cl = true \/ ~ convertible (dk (c_type cl)) v) ->
  exists f, store_value t c id v s = (Fail f, s).
Proof. exact rejected_store_no_effect. Qed.
Print Assumptions C05_failed_store_no_effect.


(* over the whole evaluator: whatever a block does (assignments through every channel, calls, INPUT, file
   statements, errors, fuel exhaustion), every variable that exists keeps its name, its declared type, its CONSTANT
   flag and its owner, and does not disappear; only payloads change, and only through the one payload update *)
Theorem C05_variables_keep_their_declared_type : forall ped repl lim fuel bl c s id cl,
  (forall j x, nm_get j (s_cells s) = Some x -> (j < s_next s)%N) -> nm_get id (s_cells s) = Some cl ->
  exists cl', nm_get id (s_cells (snd (run_block ped repl lim fuel bl c s))) = Some cl' /\
              c_const cl' = c_const cl /\ c_type cl' = c_type cl /\ c_name cl' = c_name cl.
Proof. exact constant_flag_and_type_are_permanent. Qed.
Print Assumptions C05_variables_keep_their_declared_type.

(* the premise holds initially (no cells) and is itself kept by every execution *)
Theorem C05_premise_is_invariant : forall ped repl lim fuel bl c s,
  (forall j x, nm_get j (s_cells s) = Some x -> (j < s_next s)%N) ->
  (forall j x, nm_get j (s_cells (snd (run_block ped repl lim fuel bl c s))) = Some x -> (j < s_next (snd (run_block ped repl lim fuel bl c s)))%N).
Proof. intros ped repl lim fuel bl c s H. exact (proj1 (run_block_keeps_cell_identity ped repl lim fuel bl c s H)). Qed.
Print Assumptions C05_premise_is_invariant.
