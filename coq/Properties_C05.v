(* Properties_C05.v — variables keep their declared type; bad stores are rejected without effect.
   Proved over the whole evaluator (every syntax tree, fuel and outcome, every store channel: assignment, BYVAL and BYREF binding,
   RETURN, INPUT, READFILE, GETRECORD, FOR, record and array copy, pointer assignment): a variable keeps its declared type
   (C05_variables_keep_their_declared_type) and the value it holds is always of the kind that type says -- nothing is ever
   reinterpreted as another type (C05_values_are_never_reinterpreted); every value an expression yields is of the kind its result
   type says (C05_results_have_their_type).  The conversion step shared by all channels admits exactly the three documented
   conversions (C05_implicit_cast_table and the value lemmas).
   The same holds for the NAME of a user type (C05_values_keep_their_user_type): record and array copies rely on the layout
   comparison made just before them, and the proof uses what a successful comparison says about the pairs of fields and elements.
   PARTIAL: "a rejected store leaves the target's previous value intact" is proved for the assignment channel's store sequence
   (C05_failed_store_no_effect); for argument binding, RETURN and INPUT it is compared by the correspondence. *)
From PE2 Require Import Eval Run Lemmas_Store Lemmas_Out Lemmas_DeepCopy Lemmas_ConstLogic Lemmas_ConstThm Lemmas_IoStates.
Local Open Scope Z_scope.

(* implicitCast always succeeds, keeps tag and payload in agreement, and makes the value's type equal to
   the target's exactly when the value already has it or one of the three documented conversions applies *)
Theorem C05_implicit_cast_table : forall target r s, well_tagged r ->
  exists r', implicit_cast target r s = (Ok r', s) /\ well_tagged r' /\
             (dk (r_type r') = dk target <-> convertible (dk target) r).
Proof. exact implicit_cast_total. Qed.
Print Assumptions C05_implicit_cast_table.

Theorem C05_integer_to_real_value : forall nm z s,
  implicit_cast (dt_prim KReal) (mkRes (mkDT KInt nm) (Some (PInt z))) s = (Ok (res_of KReal (PReal (real_of_z z))), s).
Proof. exact cast_int_to_real. Qed.
Print Assumptions C05_integer_to_real_value.

Theorem C05_one_char_string_to_char_value : forall nm ch s,
  implicit_cast (dt_prim KChar) (mkRes (mkDT KStr nm) (Some (PStr [ch]))) s = (Ok (res_of KChar (PChar ch)), s).
Proof. exact cast_string1_to_char. Qed.
Print Assumptions C05_one_char_string_to_char_value.

Theorem C05_char_to_string_value : forall nm ch s,
  implicit_cast (dt_prim KStr) (mkRes (mkDT KChar nm) (Some (PChar ch))) s = (Ok (res_of KStr (PStr [ch])), s).
Proof. exact cast_char_to_string. Qed.
Print Assumptions C05_char_to_string_value.

(* values are never silently truncated: a REAL offered to an INTEGER target is left as it is (and then rejected) *)
Theorem C05_no_real_to_integer : forall nm x s,
  implicit_cast (dt_prim KInt) (mkRes (mkDT KReal nm) (Some (PReal x))) s = (Ok (mkRes (mkDT KReal nm) (Some (PReal x))), s).
Proof. exact cast_real_to_int_is_identity. Qed.
Print Assumptions C05_no_real_to_integer.

(* assignment: a value that is not convertible to the target's type (or a constant target) is an error
   and the whole state -- in particular the target's previous value -- is exactly as before *)
Theorem C05_failed_store_no_effect : forall t c id v s cl,
  get_cell id s = (Ok cl, s) -> well_tagged v ->
  (c_const cl = true \/ ~ convertible (dk (c_type cl)) v) ->
  exists f, store_value t c id v s = (Fail f, s).
Proof. exact rejected_store_no_effect. Qed.
Print Assumptions C05_failed_store_no_effect.


(* over the whole evaluator: whatever a block does (assignments through every channel, calls, INPUT, file
   statements, errors, fuel exhaustion), every variable that exists keeps its name, its declared type, its CONSTANT
   flag and its owner, and does not disappear; only payloads change, and only through the one payload update *)
Theorem C05_variables_keep_their_declared_type : forall ped repl lim fuel bl c s id cl,
  (forall j x, nm_get j (s_cells s) = Some x -> (j < s_next s)%N) -> nm_get id (s_cells s) = Some cl ->
  exists cl', nm_get id (s_cells (snd (run_block ped repl lim fuel bl c s))) = Some cl' /\
              c_const cl' = c_const cl /\ c_type cl' = c_type cl /\ c_name cl' = c_name cl.
Proof. exact constant_flag_and_type_are_permanent. Qed.
Print Assumptions C05_variables_keep_their_declared_type.

(* the premise holds initially (no cells) and is itself kept by every execution *)
Theorem C05_premise_is_invariant : forall ped repl lim fuel bl c s,
  (forall j x, nm_get j (s_cells s) = Some x -> (j < s_next s)%N) ->
  (forall j x, nm_get j (s_cells (snd (run_block ped repl lim fuel bl c s))) = Some x -> (j < s_next (snd (run_block ped repl lim fuel bl c s)))%N).
Proof. intros ped repl lim fuel bl c s H. exact (proj1 (run_block_keeps_cell_identity ped repl lim fuel bl c s H)). Qed.
Print Assumptions C05_premise_is_invariant.

(* over the whole evaluator: after any block -- whatever it is, however it ends -- run in a state that satisfies the heap
   invariant (the initial state of every run does, and every block keeps it: the two theorems below), every variable that
   exists holds a value of the kind its declared type says.  With C05_variables_keep_their_declared_type: the type is
   permanent and the value is always of it *)
Theorem C05_values_are_never_reinterpreted : forall ped repl lim fuel bl c s id cl, Inv s ->
  nm_get id (s_cells (snd (run_block ped repl lim fuel bl c s))) = Some cl -> payload_kind (c_val cl) = dk (c_type cl).
Proof. exact cells_hold_values_of_their_type. Qed.
Print Assumptions C05_values_are_never_reinterpreted.

(* ... and of the user type of that NAME: an enumerated, pointer or record value held by a variable carries the name of the
   variable's declared type (`named_ok p ty`: if p carries a type name, it is ty's) *)
Theorem C05_values_keep_their_user_type : forall ped repl lim fuel bl c s id cl, Inv s ->
  nm_get id (s_cells (snd (run_block ped repl lim fuel bl c s))) = Some cl -> named_ok (c_val cl) (c_type cl).
Proof. exact cells_hold_values_of_their_named_type. Qed.
Print Assumptions C05_values_keep_their_user_type.

(* a value that an expression or statement yields is of the kind and of the user type its result type says, and the state left
   behind satisfies the invariant again *)
Theorem C05_results_have_their_type : forall ped repl lim fuel n c s r s' p, Inv s ->
  ev_eval (evs_at ped repl lim fuel) n c s = (Ok r, s') -> r_val r = Some p -> payload_kind p = dk (r_type r) /\ named_ok p (r_type r) /\ Inv s'.
Proof. exact results_are_of_their_type. Qed.
Print Assumptions C05_results_have_their_type.

Theorem C05_invariant_holds_initially : forall stdin fs rnd, Inv (init_state stdin fs rnd).
Proof. exact Inv_init. Qed.
Print Assumptions C05_invariant_holds_initially.

Theorem C05_invariant_is_kept : forall ped repl lim fuel bl c s, Inv s -> Inv (snd (run_block ped repl lim fuel bl c s)).
Proof. intros ped repl lim fuel bl c s H. exact (proj1 (run_block_keeps_constants ped repl lim fuel bl c s H)). Qed.
Print Assumptions C05_invariant_is_kept.

(* INPUT v : the typed line is converted by the variable's type (INTEGER and REAL by the numeric conversions, BOOLEAN as the test
   for "TRUE", CHAR as the first character, STRING verbatim) and stored in v; the input advances by that line; nothing else
   changes.  v is any target (name, array element, field, dereference) that resolves to an existing variable without touching the
   state; for an enumerated, pointer, record or DATE target input_value gives None: INPUT is then a runtime error *)
Theorem C05_input_stores_the_line_converted_by_type : forall ped repl lim fuel t r c s id cl line eof s1 v,
  ev_resolve (evs_at ped repl lim (S fuel)) r c s = (Ok (HVar id), s) -> nm_get id (s_cells s) = Some cl -> c_const cl = false ->
  read_line s = (Ok (line, eof), s1) -> input_value (dk (c_type cl)) line = Some v ->
  ev_eval (evs_at ped repl lim (S (S fuel))) (NInput t r) c s =
    (Ok res_none, set_cells (nm_put id (mkCell (c_name cl) (c_type cl) (c_const cl) (c_owner cl) v) (s_cells s1)) s1).
Proof. exact input_stores_the_converted_line. Qed.
Print Assumptions C05_input_stores_the_line_converted_by_type.
