(* Lemmas_IoStates.v -- what the input/output statements do when they are legal, statement by statement, in every state:
   WRITEFILE appends exactly the text of the value and one line break to that file and changes nothing else; READFILE stores exactly
   the next line of the handle in the STRING variable and advances the handle by that line; INPUT stores the typed line converted
   by the variable's type.  File names are string literals. *)
From PE2 Require Import Eval Run Lemmas_Copy Lemmas_Out Lemmas_Scope Lemmas_ConstLogic Lemmas_FileStates.
Local Open Scope N_scope.

Section Io.
Variables (ped repl : bool) (lim : limits) (fuel : nat).
Notation ev := (ev_eval (evs_at ped repl lim (S (S fuel)))).

Ltac start :=
  cbn [evs_at evs_step ev_eval]; unfold eval_body at 1;
  change (evs_step ped repl lim (evs_at ped repl lim fuel)) with (evs_at ped repl lim (S fuel));
  cbn [evs_at evs_step ev_eval eval_body]; unfold bind at 1; cbn [ret fst snd];
  unfold res_of, dt_is, dt_prim; cbn [r_type r_val dk negb as_str];
  change (dk_eqb KStr KStr) with true; cbn [negb]; cbv beta;
  unfold bind at 1; cbn [ret fst snd]; unfold bind at 1, gets at 1; cbn [fst snd].

(* WRITEFILE "f", d : d any expression that yields, without touching the state, a value of a primitive type whose text is txt *)
Theorem writefile_appends_one_line t name d c s fh dr p txt :
  find_file (tval name) (s_files s) = Some fh -> (of_mode fh = FWrite \/ of_mode fh = FAppend) ->
  ev_eval (evs_at ped repl lim (S fuel)) d c s = (Ok dr, s) -> prim_kind (dk (r_type dr)) = true -> r_val dr = Some p -> prim_to_string p s = (Ok txt, s) ->
  ev (NWriteFile t (NStr name) d) c s =
    (Ok res_none, set_fs (fs_set (tval name) (match fs_get (tval name) (s_fs s) with Some old => old | None => [] end ++ txt ++ [ch_nl]) (s_fs s)) s).
Proof.
  intros Hf Hm Hd Hk Hv Hp. start. rewrite Hf.
  assert (X : forall (A : Type) (a b : A), match of_mode fh with FRead | FRandom => a | _ => b end = b) by (intros; destruct Hm as [-> | ->]; reflexivity).
  rewrite X. unfold bind at 1.
  cbn [evs_at evs_step ev_eval] in Hd. rewrite Hd. cbn [fst snd].
  assert (Y : forall (A : Type) (a b : A), match dk (r_type dr) with KNone | KEnum | KPtr | KRec => a | _ => b end = b) by (intros; destruct (dk (r_type dr)); try discriminate Hk; reflexivity).
  rewrite Y. unfold bind at 1, as_payload at 1. rewrite Hv. cbn [ret fst snd]. unfold bind at 1. rewrite Hp. cbn [fst snd].
  unfold bind at 1, gets at 1. cbn [fst snd]. rewrite Hf. rewrite X. reflexivity.
Qed.

(* READFILE "f", v : v an existing STRING variable that is not a constant *)
Theorem readfile_stores_the_next_line t name id c s fh vid cl :
  find_file (tval name) (s_files s) = Some fh -> of_mode fh = FRead ->
  lookup_var c (tval id) true s = (Ok (Some vid), s) -> nm_get vid (s_cells s) = Some cl -> dk (c_type cl) = KStr -> c_const cl = false ->
  let line := fst (file_read_line fh) in let fh' := snd (file_read_line fh) in
  let s1 := set_files (replace_file fh' (s_files s)) s in
  ev (NReadFile t (NStr name) id) c s =
    (Ok res_none, set_cells (nm_put vid (mkCell (c_name cl) (c_type cl) (c_const cl) (c_owner cl) (PStr line)) (s_cells s1)) s1).
Proof.
  intros Hf Hm Hl Ec Hk Hc line fh' s1. start. rewrite Hf. rewrite Hm.
  unfold bind at 1. rewrite Hl. cbn [fst snd]. unfold bind at 1. unfold bind at 1, get_cell at 1. rewrite Ec. cbn [fst snd].
  unfold dt_is. rewrite Hk. change (dk_eqb KStr KStr) with true. cbn [negb]. rewrite Hc. cbn [ret fst snd].
  unfold line, fh', s1. destruct (file_read_line fh) as [l f'] eqn:Er. cbn [fst snd].
  unfold update_file, modify, bind. cbn [fst snd]. unfold set_cell_val, bind, get_cell. cbn [s_cells set_files]. rewrite Ec. cbn. rewrite ?Hc. reflexivity.
Qed.

(* INPUT v : the typed line, converted by the variable's type *)
Definition input_value (k : dkind) (line : str) : option payload :=
  match k with
  | KInt => Some (PInt (string_to_int line)) | KReal => Some (PReal (string_to_real line))
  | KBool => Some (PBool (str_eqb line (str_of_string "TRUE"))) | KChar => Some (PChar (match line with ch :: _ => ch | [] => ch_nul end))
  | KStr => Some (PStr line) | _ => None
  end.
Lemma read_line_cells s x s1 : read_line s = (Ok x, s1) -> s_cells s1 = s_cells s.
Proof.
  unfold read_line, bind, gets, modify. cbn [fst snd].
  destruct ((fix go (s0 acc : str) {struct s0} : str * str * bool := match s0 with [] => (rev acc, [], true) | c0 :: r => if aeqb c0 ch_nl then (rev acc, r, false) else go r (c0 :: acc) end) (s_in s) []) as [[l r] e].
  cbn. intros H. inversion H; subst. reflexivity.
Qed.

Theorem input_stores_the_converted_line t r c s id cl line eof s1 v :
  ev_resolve (evs_at ped repl lim (S fuel)) r c s = (Ok (HVar id), s) -> nm_get id (s_cells s) = Some cl -> c_const cl = false ->
  read_line s = (Ok (line, eof), s1) -> input_value (dk (c_type cl)) line = Some v ->
  ev (NInput t r) c s = (Ok res_none, set_cells (nm_put id (mkCell (c_name cl) (c_type cl) (c_const cl) (c_owner cl) v) (s_cells s1)) s1).
Proof.
  intros Hr Ec Hc Hrl Hv. cbn [evs_at evs_step ev_eval]. unfold eval_body at 1.
  change (evs_step ped repl lim (evs_at ped repl lim fuel)) with (evs_at ped repl lim (S fuel)).
  assert (RES : (match r with
                 | RSimple tk => catch_cls (h <- ev_resolve (evs_at ped repl lim (S fuel)) r c ;; expect_holder_var t c h) is_not_defined
                                   (fun fl => ist <- is_identifier_type c tk true ;; if ist then failm fl else ped_guard ped tk ;;; nid <- ev_new_var (evs_at ped repl lim (S fuel)) (tval tk) (dt_prim KStr) false c ;; add_var c (tval tk) nid ;;; ret nid)
                 | _ => h <- ev_resolve (evs_at ped repl lim (S fuel)) r c ;; expect_holder_var t c h
                 end) s = (Ok id, s)).
  { destruct r; unfold catch_cls, catch, bind; rewrite Hr; cbn [fst snd expect_holder_var ret]; reflexivity. }
  unfold bind at 1. rewrite RES. cbn [fst snd]. unfold bind at 1, get_cell at 1. rewrite Ec. cbn [fst snd]. rewrite Hc.
  unfold bind at 1. rewrite Hrl. cbn [fst snd].
  pose proof (read_line_cells s _ s1 Hrl) as Es.
  destruct (dk (c_type cl)); cbn [input_value] in Hv; try discriminate Hv; inversion Hv; subst v;
    unfold bind, set_cell_val, bind, get_cell; rewrite Es, Ec; cbn; rewrite ?Es, ?Hc; reflexivity.
Qed.
End Io.
