(* Properties_C10.v — layout, comments and line endings never change what a program does.
   PARTIAL: the line-ending theorem is global; the comment / blank theorems are local laws of one
   lexer step (no token, same line, the line break survives).  That the token stream of a whole program
   is unchanged by these insertions is checked by the correspondence (token dump vs Lexer.v) and by the
   layout oracle on the implementation, not proved.
   Global too: n line breaks in front of ANY text give the same tokens with n LINE_END tokens in front and every line number
   n larger (same kinds, texts and columns), and a lexical error is the same error n lines further down
   (C10_blank_lines_above_shift_positions; relational proof over every sub-lexer of Lexer.v). *)
From PE2 Require Import Lexer Lemmas_Lexer Lemmas_LexShift.
Local Open Scope Z_scope.

Theorem C10_crlf : forall ped s, lex ped (to_crlf s) = lex ped s.
Proof. exact crlf_same_tokens. Qed.
Print Assumptions C10_crlf.

Theorem C10_only_cr_free_text_matters : forall ped a b, remove_cr a = remove_cr b -> lex ped a = lex ped b.
Proof. exact lex_depends_on_cr_free_text. Qed.
Print Assumptions C10_only_cr_free_text_matters.

Theorem C10_comment_keeps_line_break_partial : forall t fuel r st0 l k p,
  no_newline t -> (List.length t < fuel)%nat ->
  exists st1 k1 p1, skip_comment fuel (mkLst (t ++ ch_nl :: r) st0 l k p) = mkLst (ch_nl :: r) st1 l k1 p1.
Proof. exact skip_comment_stops_at_newline. Qed.
Print Assumptions C10_comment_keeps_line_break_partial.

Theorem C10_comment_adds_no_token_partial : forall ped r st0 l k p toks,
  exists s', lex_step ped (mkLst ("/"%char :: "/"%char :: r) st0 l k p) toks = LOk s' toks.
Proof. exact comment_adds_no_token. Qed.
Print Assumptions C10_comment_adds_no_token_partial.

Theorem C10_blank_adds_no_token_partial : forall ped c r st0 l k p toks,
  (c = ch_space \/ c = ch_tab) -> r <> [] ->
  lex_step ped (mkLst (c :: r) st0 l k p) toks = LOk (mkLst r c l (k + 1) (Some c)) toks.
Proof. exact blank_adds_no_token. Qed.
Print Assumptions C10_blank_adds_no_token_partial.

Theorem C10_paren_after_blank_or_tab_accepted : forall ped r st0 l k toks c,
  (c = ch_space \/ c = ch_tab) ->
  exists s', lex_step ped (mkLst ("("%char :: r) st0 l k (Some c)) toks = LOk s' (mkTok TLPAREN l k [] :: toks).
Proof. exact paren_after_blank_accepted. Qed.
Print Assumptions C10_paren_after_blank_or_tab_accepted.

(* line numbers move by exactly the number of lines inserted above, and nothing else changes: for every text and every n *)
Theorem C10_blank_lines_above_shift_positions : forall ped n text,
  match lex ped text with
  | inl toks => lex ped (repeat ch_nl n ++ text) = inl (rev (line_ends n 1) ++ map (shift_tok (Z.of_nat n)) toks)
  | inr e => lex ped (repeat ch_nl n ++ text) = inr (shift_err (Z.of_nat n) e)
  end.
Proof. exact blank_lines_above. Qed.
Print Assumptions C10_blank_lines_above_shift_positions.

Example C10_shift_example :
  lex false (str_of_string "

OUTPUT 1") = inl [mkTok TLINE_END 1 1 []; mkTok TLINE_END 2 1 []; mkTok TOUTPUT 3 1 []; mkTok TINTEGER 3 8 (str_of_string "1"); mkTok TEXPRESSION_END 3 8 []].
Proof. vm_compute. reflexivity. Qed.
