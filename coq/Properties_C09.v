(* Properties_C09.v — pointers alias their live target; dead or unset pointers are diagnosed.
   PARTIAL: a pointer is the pair (target cell id, owner context id); the liveness test walks the caller
   chain comparing identifiers.  Proved: identifiers of contexts are never reused (so a returned
   activation can never look alive again), a context is live for itself, and the unset owner 0 is on no
   chain.  That dereferencing reads and writes exactly the target is the definition of resolve for the
   '^' resolver (it returns the target's own cell id) and is compared with the implementation, normal and
   sanitizer build, on every activation pattern the generators produce. *)
From PE2 Require Import Eval Lemmas_HeapIds Lemmas_Out Lemmas_DeepCopy Lemmas_HeapInv.
Local Open Scope Z_scope.

Theorem C09_ctx_ids_fresh : forall parent name isfun isrec rett s id s',
  ctx_ids_below s -> new_ctx parent name isfun isrec rett s = (Ok id, s') ->
  nm_get id (s_ctxs s) = None /\ id = s_next s /\ ctx_ids_below s' /\ (s_next s < s_next s')%N /\
  (forall j x, nm_get j (s_ctxs s) = Some x -> nm_get j (s_ctxs s') = Some x).
Proof. exact new_ctx_is_fresh. Qed.
Print Assumptions C09_ctx_ids_fresh.

Theorem C09_owner_live_in_itself : forall c s cx, nm_get c (s_ctxs s) = Some cx -> on_chain c c s = (Ok true, s).
Proof. exact on_chain_self. Qed.
Print Assumptions C09_owner_live_in_itself.

Theorem C09_unset_pointer_is_on_no_chain : forall c s cx, nm_get c (s_ctxs s) = Some cx -> x_parent cx = None -> c <> 0%N ->
  on_chain c 0%N s = (Ok false, s).
Proof. exact on_chain_unset_root. Qed.
Print Assumptions C09_unset_pointer_is_on_no_chain.

(* over the whole evaluator: whatever a block does (calls, returns, errors, fuel exhaustion), the allocation
   counter never goes back, so an identifier handed out once (a returned activation, a freed cell) is never
   handed out again: a dead pointer can never come to denote a newer object *)
Theorem C09_ids_never_reused : forall ped repl lim fuel bl c s,
  (s_next s <= s_next (snd (run_block ped repl lim fuel bl c s)))%N.
Proof. exact run_block_ids_only_grow. Qed.
Print Assumptions C09_ids_never_reused.

(* over the whole evaluator: the cell a pointer was taken to never disappears and keeps its name, declared type, CONSTANT flag
   and owner; no array and no context disappears either, and identifiers in use stay below the counter (so the identifier a
   pointer stores keeps denoting the same object, of the same type, for as long as the run lasts) *)
Theorem C09_targets_persist_with_their_type : forall ped repl lim fuel bl c s, hb s ->
  let s' := snd (run_block ped repl lim fuel bl c s) in
  hb s' /\ (s_next s <= s_next s')%N /\
  (forall id cl, nm_get id (s_cells s) = Some cl -> exists cl', nm_get id (s_cells s') = Some cl' /\ same_meta cl cl') /\
  (forall id a, nm_get id (s_arrs s) = Some a -> nm_get id (s_arrs s') = Some a) /\
  (forall id x, nm_get id (s_ctxs s) = Some x -> exists x', nm_get id (s_ctxs s') = Some x').
Proof. intros ped repl lim fuel bl c s H. exact (run_block_keeps_heap ped repl lim fuel bl c s H). Qed.
Print Assumptions C09_targets_persist_with_their_type.
