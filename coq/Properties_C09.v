(* Properties_C09.v — pointers alias their live target; dead or unset pointers are diagnosed.
   A pointer is the pair (target cell id, owner context id); the liveness test walks the caller chain comparing identifiers.
   Proved: identifiers of contexts are never reused (so a returned activation can never look alive again), a context is live for
   itself, the unset owner 0 is on no chain, targets persist with their type; and, statement by statement for every state:
   `p <- ^v` records v's own cell and nothing else changes, afterwards `p^` resolves to exactly that cell, an unset pointer and a
   pointer to a returned activation's variable are runtime errors with the whole state untouched, and the assignment is
   type-checked against the pointer type's target type.  PARTIAL: that the C++ liveness walk and the freed storage behave as the
   identifiers of the model do is compared with the implementation, normal and sanitizer build, on every activation pattern the
   generators produce. *)
From PE2 Require Import Eval Lemmas_HeapIds Lemmas_Out Lemmas_DeepCopy Lemmas_HeapInv Run Lemmas_PtrStates.
Local Open Scope Z_scope.

Theorem C09_ctx_ids_fresh : forall parent name isfun isrec rett s id s',
  ctx_ids_below s -> new_ctx parent name isfun isrec rett s = (Ok id, s') ->
  nm_get id (s_ctxs s) = None /\ id = s_next s /\ ctx_ids_below s' /\ (s_next s < s_next s')%N /\
  (forall j x, nm_get j (s_ctxs s) = Some x -> nm_get j (s_ctxs s') = Some x).
Proof. exact new_ctx_is_fresh. Qed.
Print Assumptions C09_ctx_ids_fresh.

Theorem C09_owner_live_in_itself : forall c s cx, nm_get c (s_ctxs s) = Some cx -> on_chain c c s = (Ok true, s).
Proof. exact on_chain_self. Qed.
Print Assumptions C09_owner_live_in_itself.

Theorem C09_unset_pointer_is_on_no_chain : forall c s cx, nm_get c (s_ctxs s) = Some cx -> x_parent cx = None -> c <> 0%N ->
  on_chain c 0%N s = (Ok false, s).
Proof. exact on_chain_unset_root. Qed.
Print Assumptions C09_unset_pointer_is_on_no_chain.

(* over the whole evaluator: whatever a block does (calls, returns, errors, fuel exhaustion), the allocation
   counter never goes back, so an identifier handed out once (a returned activation, a freed cell) is never
   handed out again: a dead pointer can never come to denote a newer object *)
Theorem C09_ids_never_reused : forall ped repl lim fuel bl c s,
  (s_next s <= s_next (snd (run_block ped repl lim fuel bl c s)))%N.
Proof. exact run_block_ids_only_grow. Qed.
Print Assumptions C09_ids_never_reused.

(* over the whole evaluator: the cell a pointer was taken to never disappears and keeps its name, declared type, CONSTANT flag
   and owner; no array and no context disappears either, and identifiers in use stay below the counter (so the identifier a
   pointer stores keeps denoting the same object, of the same type, for as long as the run lasts) *)
Theorem C09_targets_persist_with_their_type : forall ped repl lim fuel bl c s, hb s ->
  let s' := snd (run_block ped repl lim fuel bl c s) in
  hb s' /\ (s_next s <= s_next s')%N /\
  (forall id cl, nm_get id (s_cells s) = Some cl -> exists cl', nm_get id (s_cells s') = Some cl' /\ same_meta cl cl') /\
  (forall id a, nm_get id (s_arrs s) = Some a -> nm_get id (s_arrs s') = Some a) /\
  (forall id x, nm_get id (s_ctxs s) = Some x -> exists x', nm_get id (s_ctxs s') = Some x').
Proof. intros ped repl lim fuel bl c s H. exact (run_block_keeps_heap ped repl lim fuel bl c s H). Qed.
Print Assumptions C09_targets_persist_with_their_type.

(* ---- what a pointer denotes, statement by statement; for every state and context, the inner resolutions (of p, of v) being any
   that do not touch the state ---- *)
(* p <- ^v records v's own cell and the activation that owns it in p; nothing else changes *)
Theorem C09_pointer_assignment_records_the_variable : forall ped repl lim fuel t pr vr c s pid vid pc vc tn old oldo target_ty owner,
  ev_resolve (evs_at ped repl lim fuel) pr c s = (Ok (HVar pid), s) -> ev_resolve (evs_at ped repl lim fuel) vr c s = (Ok (HVar vid), s) ->
  nm_get pid (s_cells s) = Some pc -> nm_get vid (s_cells s) = Some vc -> dk (c_type pc) = KPtr -> c_val pc = PPtr tn old oldo ->
  lookup_ptr_def c tn true s = (Ok (Some target_ty), s) -> dt_eq target_ty (c_type vc) = true ->
  nonrec_ancestor (c_owner vc) s = (Ok owner, s) ->
  ev_eval (evs_at ped repl lim (S fuel)) (NPtrAssign t pr vr) c s =
    (Ok res_none, set_cells (nm_put pid (mkCell (c_name pc) (c_type pc) (c_const pc) (c_owner pc) (PPtr tn (Some vid) owner)) (s_cells s)) s).
Proof. exact pointer_assignment_records_the_variable. Qed.
Print Assumptions C09_pointer_assignment_records_the_variable.

(* ... and afterwards p^ denotes v itself (reads and writes through p^ are reads and writes of v's cell) *)
Theorem C09_after_the_assignment_the_pointer_denotes_the_variable : forall ped repl lim fuel t' pr c s pid vid pc tn owner,
  let s' := set_cells (nm_put pid (mkCell (c_name pc) (c_type pc) (c_const pc) (c_owner pc) (PPtr tn (Some vid) owner)) (s_cells s)) s in
  dk (c_type pc) = KPtr -> ev_resolve (evs_at ped repl lim fuel) pr c s' = (Ok (HVar pid), s') -> on_chain c owner s' = (Ok true, s') ->
  ev_resolve (evs_at ped repl lim (S fuel)) (RDeref t' pr) c s' = (Ok (HVar vid), s').
Proof. exact after_the_assignment_the_pointer_denotes_the_variable. Qed.
Print Assumptions C09_after_the_assignment_the_pointer_denotes_the_variable.

Theorem C09_deref_resolves_to_the_target : forall ped repl lim fuel t r' c s id cl tn tid owner,
  ev_resolve (evs_at ped repl lim fuel) r' c s = (Ok (HVar id), s) -> nm_get id (s_cells s) = Some cl ->
  dk (c_type cl) = KPtr -> c_val cl = PPtr tn (Some tid) owner -> on_chain c owner s = (Ok true, s) ->
  ev_resolve (evs_at ped repl lim (S fuel)) (RDeref t r') c s = (Ok (HVar tid), s).
Proof. exact deref_resolves_to_the_target. Qed.
Print Assumptions C09_deref_resolves_to_the_target.

(* an unset pointer, and a pointer whose target's activation is no longer on the chain of the current one, are runtime errors; the
   whole state is as it was: no other storage is read into a result or written *)
Theorem C09_deref_of_an_unset_pointer_is_an_error : forall ped repl lim fuel t r' c s id cl tn owner,
  ev_resolve (evs_at ped repl lim fuel) r' c s = (Ok (HVar id), s) -> nm_get id (s_cells s) = Some cl ->
  dk (c_type cl) = KPtr -> c_val cl = PPtr tn None owner ->
  exists f, ev_resolve (evs_at ped repl lim (S fuel)) (RDeref t r') c s = (Fail f, s).
Proof. exact deref_of_an_unset_pointer_is_an_error. Qed.
Print Assumptions C09_deref_of_an_unset_pointer_is_an_error.

Theorem C09_deref_of_a_dead_target_is_an_error : forall ped repl lim fuel t r' c s id cl tn tgt owner,
  ev_resolve (evs_at ped repl lim fuel) r' c s = (Ok (HVar id), s) -> nm_get id (s_cells s) = Some cl ->
  dk (c_type cl) = KPtr -> c_val cl = PPtr tn tgt owner -> on_chain c owner s = (Ok false, s) ->
  exists f, ev_resolve (evs_at ped repl lim (S fuel)) (RDeref t r') c s = (Fail f, s).
Proof. exact deref_of_a_dead_target_is_an_error. Qed.
Print Assumptions C09_deref_of_a_dead_target_is_an_error.

(* taking a pointer is type-checked against the pointer type's declared target type *)
Theorem C09_pointer_assignment_is_type_checked : forall ped repl lim fuel t pr vr c s pid vid pc vc tn old oldo target_ty,
  ev_resolve (evs_at ped repl lim fuel) pr c s = (Ok (HVar pid), s) -> ev_resolve (evs_at ped repl lim fuel) vr c s = (Ok (HVar vid), s) ->
  nm_get pid (s_cells s) = Some pc -> nm_get vid (s_cells s) = Some vc -> dk (c_type pc) = KPtr -> c_val pc = PPtr tn old oldo ->
  lookup_ptr_def c tn true s = (Ok (Some target_ty), s) -> dt_eq target_ty (c_type vc) = false ->
  exists f, ev_eval (evs_at ped repl lim (S fuel)) (NPtrAssign t pr vr) c s = (Fail f, s).
Proof. exact pointer_assignment_is_type_checked. Qed.
Print Assumptions C09_pointer_assignment_is_type_checked.
