(* Enums.v — arithmetic on enumerated values (src/nodes/eval/arithmetic.cpp, after the fix). *)
From PE2 Require Export Base.
Local Open Scope Z_scope.

(* left %= n; right %= n; res = left +/- right; res %= n; if (res < 0) res += n;   with C's
   truncating remainder *)
Definition enum_arith (plus : bool) (left right n : Z) : Z :=
  let l := Z.rem left n in
  let r := Z.rem right n in
  let res := Z.rem (if plus then l + r else l - r) n in
  if res <? 0 then res + n else res.
