(* Lemmas_ConstStates.v -- attempts on a constant, statement by statement, in every state: defining a constant (or anything) under a
   name the context already has, INPUT into a constant, READFILE into a constant are runtime errors that leave the whole state --
   the constant included -- exactly as it was.  (Assignment: C08_assignment_to_constant_no_effect; over all programs:
   C08_constants_never_change.) *)
From PE2 Require Import Eval Run Lemmas_Copy Lemmas_Out Lemmas_Scope Lemmas_ConstLogic Lemmas_FileStates.
Local Open Scope N_scope.

Section Attempts.
Variables (ped repl : bool) (lim : limits) (fuel : nat).

Theorem constant_under_an_existing_name_is_an_error t v id c s r i :
  ev_eval (evs_at ped repl lim fuel) v c s = (Ok r, s) -> lookup_var c (tval id) false s = (Ok (Some i), s) ->
  exists f, ev_eval (evs_at ped repl lim (S fuel)) (NConst t v id) c s = (Fail f, s).
Proof.
  intros He Hl. cbn [evs_at evs_step ev_eval]. unfold eval_body. unfold bind at 1. rewrite He. cbn [fst snd].
  unfold bind at 1. rewrite Hl. cbn [fst snd]. apply rt_error_pure.
Qed.

Theorem input_into_a_constant_is_an_error t r c s id cl :
  ev_resolve (evs_at ped repl lim fuel) r c s = (Ok (HVar id), s) -> nm_get id (s_cells s) = Some cl -> c_const cl = true ->
  exists f, ev_eval (evs_at ped repl lim (S fuel)) (NInput t r) c s = (Fail f, s).
Proof.
  intros Hr Ec Hc. cbn [evs_at evs_step ev_eval]. unfold eval_body.
  assert (RES : (match r with
                 | RSimple tk => catch_cls (h <- ev_resolve (evs_at ped repl lim fuel) r c ;; expect_holder_var t c h) is_not_defined
                                   (fun fl => ist <- is_identifier_type c tk true ;; if ist then failm fl else ped_guard ped tk ;;; nid <- ev_new_var (evs_at ped repl lim fuel) (tval tk) (dt_prim KStr) false c ;; add_var c (tval tk) nid ;;; ret nid)
                 | _ => h <- ev_resolve (evs_at ped repl lim fuel) r c ;; expect_holder_var t c h
                 end) s = (Ok id, s)).
  { destruct r; unfold catch_cls, catch, bind; rewrite Hr; cbn [fst snd expect_holder_var ret]; reflexivity. }
  unfold bind at 1. rewrite RES. cbn [fst snd]. unfold bind at 1, get_cell at 1. rewrite Ec. cbn [fst snd]. rewrite Hc. apply rt_error_pure.
Qed.

Theorem readfile_into_a_constant_is_an_error t name id c s fh vid cl :
  find_file (tval name) (s_files s) = Some fh -> of_mode fh = FRead ->
  lookup_var c (tval id) true s = (Ok (Some vid), s) -> nm_get vid (s_cells s) = Some cl -> dk (c_type cl) = KStr -> c_const cl = true ->
  exists f, ev_eval (evs_at ped repl lim (S (S fuel))) (NReadFile t (NStr name) id) c s = (Fail f, s).
Proof.
  intros Hf Hm Hl Ec Hk Hc. cbn [evs_at evs_step ev_eval]. unfold eval_body at 1.
  change (evs_step ped repl lim (evs_at ped repl lim fuel)) with (evs_at ped repl lim (S fuel)).
  cbn [evs_at evs_step ev_eval eval_body]. unfold bind at 1. cbn [ret fst snd].
  unfold res_of, dt_is, dt_prim. cbn [r_type r_val dk negb as_str]. change (dk_eqb KStr KStr) with true. cbn [negb]. cbv beta.
  unfold bind at 1. cbn [ret fst snd]. unfold bind at 1, gets at 1. cbn [fst snd]. rewrite Hf, Hm.
  unfold bind at 1. rewrite Hl. cbn [fst snd]. unfold bind at 1. unfold bind at 1, get_cell at 1. rewrite Ec. cbn [fst snd].
  unfold dt_is. rewrite Hk. change (dk_eqb KStr KStr) with true. cbn [negb]. rewrite Hc.
  destruct (@rt_error_pure N t c s) as [f Hf']. rewrite Hf'. cbn [fst snd]. eauto.
Qed.
End Attempts.
