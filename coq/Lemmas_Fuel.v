(* Lemmas_Fuel.v — fuel is only a bound: the evaluator run with fuel n either stops with the fuel failure or does
   exactly (result and state) what it does with fuel n + 1, hence with any larger fuel.  The same relational
   congruence as Lemmas_Ped.v, with "failed for lack of fuel" in place of "failed with a pedantic Error". *)
From PE2 Require Import Eval.
Local Open Scope Z_scope.

Definition fuel_fail {A} (x : outcome A * st) : Prop := exists s, x = (Fail FFuel, s).
Definition FR {A} (x y : outcome A * st) : Prop := x = y \/ fuel_fail x.
Definition FRM {A} (m1 m2 : M A) : Prop := forall s, FR (m1 s) (m2 s).

Lemma FRM_refl {A} (m : M A) : FRM m m.
Proof. intros s. left. reflexivity. Qed.
Lemma FRM_fuel {A} (m : M A) : FRM (failm FFuel) m.
Proof. intros s. right. exists s. reflexivity. Qed.

Lemma FRM_bind {A B} (m1 m2 : M A) (k1 k2 : A -> M B) :
  FRM m1 m2 -> (forall a, FRM (k1 a) (k2 a)) -> FRM (bind m1 k1) (bind m2 k2).
Proof.
  intros Hm Hk s. unfold bind. destruct (Hm s) as [E|[s' E]].
  - rewrite E. destruct (m2 s) as [[a|f] s1]; [apply Hk|left; reflexivity].
  - rewrite E. right. exists s'. reflexivity.
Qed.

Lemma FRM_catch_cls {A} (m1 m2 : M A) want (h1 h2 : fail -> M A) :
  FRM m1 m2 -> (forall fl, FRM (h1 fl) (h2 fl)) -> FRM (catch_cls m1 want h1) (catch_cls m2 want h2).
Proof.
  intros Hm Hh s. unfold catch_cls, catch. destruct (Hm s) as [E|[s' E]].
  - rewrite E. destruct (m2 s) as [[a|f] s1]; [left; reflexivity|]. destruct f; try (left; reflexivity).
    destruct (want (d_cls d)); [apply Hh|left; reflexivity].
  - rewrite E. right. exists s'. reflexivity.
Qed.

Lemma FRM_run_body br1 br2 : FRM br1 br2 -> FRM (run_body br1) (run_body br2).
Proof.
  intros H s. unfold run_body, catch, bind. destruct (H s) as [E|[s' E]].
  - rewrite E. left. reflexivity.
  - rewrite E. right. exists s'. reflexivity.
Qed.

Lemma FRM_call_body d cc ab (m1 m2 : M unit) : FRM m1 m2 -> FRM (call_body d cc ab m1) (call_body d cc ab m2).
Proof.
  intros H s. unfold call_body. destruct (H s) as [E|[s' E]].
  - rewrite E. left. reflexivity.
  - rewrite E. right. eexists. reflexivity.
Qed.

Lemma FRM_mapM {A B} (f1 f2 : A -> M B) l : (forall x, FRM (f1 x) (f2 x)) -> FRM (mapM f1 l) (mapM f2 l).
Proof.
  intros H. induction l as [|x r IH]; cbn [mapM]; [apply FRM_refl|].
  apply FRM_bind; [apply H|]. intros y. apply FRM_bind; [exact IH|]. intros ys. apply FRM_refl.
Qed.
Lemma FRM_iterM {A} (f1 f2 : A -> M unit) l : (forall x, FRM (f1 x) (f2 x)) -> FRM (iterM f1 l) (iterM f2 l).
Proof. intros H. induction l as [|x r IH]; cbn [iterM]; [apply FRM_refl|]. apply FRM_bind; [apply H|]. intros _. exact IH. Qed.
Lemma FRM_repeatM {A} k (m1 m2 : M A) : FRM m1 m2 -> FRM (repeatM k m1) (repeatM k m2).
Proof.
  intros H. induction k as [|k IH]; cbn [repeatM]; [apply FRM_refl|].
  apply FRM_bind; [exact H|]. intros x. apply FRM_bind; [exact IH|]. intros r. apply FRM_refl.
Qed.

Ltac frm_with known :=
  repeat first
    [ match goal with |- FRM ?x ?y => constr_eq x y; apply FRM_refl end
    | apply FRM_fuel
    | known
    | match goal with
      | |- FRM (bind _ _) (bind _ _) => apply FRM_bind; [ | intros ? ]
      | |- FRM (if ?c then _ else _) (if ?c then _ else _) => destruct c
      | |- FRM (match ?x with _ => _ end) (match ?x with _ => _ end) => destruct x
      | |- FRM (catch_cls _ _ _) (catch_cls _ _ _) => apply FRM_catch_cls; [ | intros ? ]
      | |- FRM (mapM _ _) (mapM _ _) => apply FRM_mapM; intros ?
      | |- FRM (iterM _ _) (iterM _ _) => apply FRM_iterM; intros ?
      | |- FRM (repeatM _ _) (repeatM _ _) => apply FRM_repeatM
      | |- FRM (call_body _ _ _ _) (call_body _ _ _ _) => apply FRM_call_body
      | |- FRM (run_body _) (run_body _) => apply FRM_run_body
      | |- _ /\ _ => split
      | |- FRM (fst (match ?x with _ => _ end)) _ => destruct x; cbn [fst snd]
      | |- FRM (snd (match ?x with _ => _ end)) _ => destruct x; cbn [fst snd]
      end ].

Lemma FRM_eval_bounds (ev1 ev2 : node -> M result) c bs : (forall e, FRM (ev1 e) (ev2 e)) ->
  forall total, FRM (eval_bounds ev1 c bs total) (eval_bounds ev2 c bs total).
Proof.
  intros H. remember (List.length bs) as n eqn:Hn. revert bs Hn.
  induction n as [n IH] using lt_wf_ind. intros bs Hn total.
  destruct bs as [|lo [|hi rest]]; cbn [eval_bounds]; try apply FRM_refl.
  frm_with ltac:(first [apply H | (eapply IH; [|reflexivity]; subst n; cbn [List.length]; lia)]).
Qed.
Lemma FRM_eval_indices (ev1 ev2 : node -> M result) c es : (forall e, FRM (ev1 e) (ev2 e)) ->
  forall ds, FRM (eval_indices ev1 c es ds) (eval_indices ev2 c es ds).
Proof.
  intros H. induction es as [|e er IH]; intros ds; cbn [eval_indices]; [apply FRM_refl|].
  destruct ds as [|d dr]; [apply FRM_refl|]. frm_with ltac:(first [apply H | apply IH]).
Qed.

Section Loops.
Variable lim : limits.
Variables (t : token) (c : N).
Lemma FRM_cond_bool ce1 ce2 : FRM ce1 ce2 -> FRM (cond_bool t c ce1) (cond_bool t c ce2).
Proof. intros H. unfold cond_bool. frm_with ltac:(exact H). Qed.
(* one more iteration allowed on the right *)
Lemma FRM_while k ce1 ce2 br1 br2 : FRM ce1 ce2 -> FRM br1 br2 -> FRM (while_loop lim k t c ce1 br1) (while_loop lim (S k) t c ce2 br2).
Proof.
  intros Hc Hb. induction k as [|k IH]; [cbn [while_loop]; apply FRM_fuel|].
  change (while_loop lim (S k) t c ce1 br1) with
    (tick lim t c ;;; v <- cond_bool t c ce1 ;; if negb v then ret res_none else go_on <- run_body br1 ;; if go_on then while_loop lim k t c ce1 br1 else ret res_none).
  change (while_loop lim (S (S k)) t c ce2 br2) with
    (tick lim t c ;;; v <- cond_bool t c ce2 ;; if negb v then ret res_none else go_on <- run_body br2 ;; if go_on then while_loop lim (S k) t c ce2 br2 else ret res_none).
  frm_with ltac:(first [apply FRM_cond_bool; exact Hc | exact Hb | exact IH]).
Qed.
Lemma FRM_repeat k ce1 ce2 br1 br2 : FRM ce1 ce2 -> FRM br1 br2 -> FRM (repeat_loop lim k t c ce1 br1) (repeat_loop lim (S k) t c ce2 br2).
Proof.
  intros Hc Hb. induction k as [|k IH]; [cbn [repeat_loop]; apply FRM_fuel|].
  change (repeat_loop lim (S k) t c ce1 br1) with
    (tick lim t c ;;; go_on <- run_body br1 ;; if negb go_on then ret res_none else v <- cond_bool t c ce1 ;; if v then ret res_none else repeat_loop lim k t c ce1 br1).
  change (repeat_loop lim (S (S k)) t c ce2 br2) with
    (tick lim t c ;;; go_on <- run_body br2 ;; if negb go_on then ret res_none else v <- cond_bool t c ce2 ;; if v then ret res_none else repeat_loop lim (S k) t c ce2 br2).
  frm_with ltac:(first [apply FRM_cond_bool; exact Hc | exact Hb | exact IH]).
Qed.
Lemma FRM_for k it stepv stop br1 br2 : FRM br1 br2 -> FRM (for_loop lim k t c it stepv stop br1) (for_loop lim (S k) t c it stepv stop br2).
Proof.
  intros Hb. induction k as [|k IH]; [cbn [for_loop]; apply FRM_fuel|].
  remember (S k) as k1. cbn [for_loop]. subst k1. cbn [for_loop].
  frm_with ltac:(first [exact Hb | exact IH]).
Qed.
Lemma FRM_if_chain_map (ev1 ev2 : node -> M result) (rb1 rb2 : list node -> M unit) comps :
  (forall e, FRM (ev1 e) (ev2 e)) -> (forall b, FRM (rb1 b) (rb2 b)) ->
  FRM (if_chain t c (map (if_comp ev1 rb1) comps)) (if_chain t c (map (if_comp ev2 rb2) comps)).
Proof.
  intros He Hb. induction comps as [|[[e|] b] r IH]; cbn [map if_comp if_chain fst snd]; [apply FRM_refl| |].
  - frm_with ltac:(first [apply FRM_cond_bool; apply He | apply Hb | exact IH]).
  - frm_with ltac:(first [apply Hb]).
Qed.
Lemma FRM_case_chain_map {X} (f g : X -> M bool * M unit) l :
  (forall x, FRM (fst (f x)) (fst (g x)) /\ FRM (snd (f x)) (snd (g x))) -> FRM (case_chain (map f l)) (case_chain (map g l)).
Proof.
  intros H. induction l as [|x r IH]; cbn [map case_chain]; [apply FRM_refl|].
  destruct (H x) as [Hm Hb]. destruct (f x) as [m1 b1], (g x) as [m2 b2]. cbn [fst snd] in *.
  frm_with ltac:(first [exact Hm | exact Hb | exact IH]).
Qed.
End Loops.

Section Bodies.
Variables (ped repl : bool) (lim : limits) (a b : evs).
Hypothesis Hfuel : ev_fuel b = S (ev_fuel a).
Hypothesis He : forall n c, FRM (ev_eval a n c) (ev_eval b n c).
Hypothesis Hr : forall r c, FRM (ev_resolve a r c) (ev_resolve b r c).
Hypothesis Hce : forall v e c, FRM (ev_case_equals a v e c) (ev_case_equals b v e c).
Hypothesis Hcr : forall v lo hi c, FRM (ev_case_range a v lo hi c) (ev_case_range b v lo hi c).
Hypothesis Hb : forall bl c, FRM (ev_run_block a bl c) (ev_run_block b bl c).
Hypothesis Hv : forall name ty cst owner, FRM (ev_new_var a name ty cst owner) (ev_new_var b name ty cst owner).
Hypothesis Ha : forall name ty dims owner, FRM (ev_new_array a name ty dims owner) (ev_new_array b name ty dims owner).
Hypothesis Hba : forall t params args vals c fc, FRM (ev_bind_args a t params args vals c fc) (ev_bind_args b t params args vals c fc).
Hypothesis Hp : forall t name args c, FRM (ev_call_procedure a t name args c) (ev_call_procedure b t name args c).
Hypothesis Hf : forall t args c, FRM (ev_call_function a t args c) (ev_call_function b t args c).

Ltac fev_known :=
  first [ apply He | apply Hr | apply Hce | apply Hcr | apply Hb | apply Hv | apply Ha | apply Hba | apply Hp | apply Hf
        | match goal with
          | |- FRM (eval_bounds _ _ _ _) (eval_bounds _ _ _ _) => apply FRM_eval_bounds; intros ?
          | |- FRM (eval_indices _ _ _ _) (eval_indices _ _ _ _) => apply FRM_eval_indices; intros ?
          | |- FRM (if_chain _ _ (map (if_comp _ _) _)) (if_chain _ _ (map (if_comp _ _) _)) => apply FRM_if_chain_map; intros ?
          | |- FRM (case_chain (map _ _)) (case_chain (map _ _)) => apply FRM_case_chain_map; intros ?
          | |- FRM (while_loop _ _ _ _ _ _) (while_loop _ _ _ _ _ _) => apply FRM_while
          | |- FRM (repeat_loop _ _ _ _ _ _) (repeat_loop _ _ _ _ _ _) => apply FRM_repeat
          | |- FRM (for_loop _ _ _ _ _ _ _ _) (for_loop _ _ _ _ _ _ _ _) => apply FRM_for
          end ].

Lemma F_eval_body n c : FRM (eval_body ped lim a n c) (eval_body ped lim b n c).
Proof. destruct n; unfold eval_body; rewrite ?Hfuel; frm_with fev_known. Qed.
Lemma F_resolve_body r c : FRM (resolve_body a r c) (resolve_body b r c).
Proof. destruct r; unfold resolve_body; frm_with fev_known. Qed.
Lemma F_case_equals_body v e c : FRM (case_equals_body a v e c) (case_equals_body b v e c).
Proof. unfold case_equals_body; frm_with fev_known. Qed.
Lemma F_case_range_body v lo hi c : FRM (case_range_body a v lo hi c) (case_range_body b v lo hi c).
Proof. unfold case_range_body; frm_with fev_known. Qed.
Lemma F_run_block_body bl c : FRM (run_block_body repl lim a bl c) (run_block_body repl lim b bl c).
Proof. unfold run_block_body; frm_with fev_known. Qed.
Lemma F_new_var_body name ty cst owner : FRM (new_var_body a name ty cst owner) (new_var_body b name ty cst owner).
Proof. unfold new_var_body; frm_with fev_known. Qed.
Lemma F_new_array_body name ty dims owner : FRM (new_array_body lim a name ty dims owner) (new_array_body lim b name ty dims owner).
Proof. unfold new_array_body; frm_with fev_known. Qed.
Lemma F_bind_args_body t params args vals c fc : FRM (bind_args_body a t params args vals c fc) (bind_args_body b t params args vals c fc).
Proof. unfold bind_args_body; frm_with fev_known. Qed.
Lemma F_call_procedure_body t name args c : FRM (call_procedure_body lim a t name args c) (call_procedure_body lim b t name args c).
Proof. unfold call_procedure_body; frm_with fev_known. Qed.
Lemma F_call_function_body t args c : FRM (call_function_body lim a t args c) (call_function_body lim b t args c).
Proof. unfold call_function_body; frm_with fev_known. Qed.
End Bodies.

Definition evs_FRM (a b : evs) : Prop :=
  ev_fuel b = S (ev_fuel a) /\
  (forall n c, FRM (ev_eval a n c) (ev_eval b n c)) /\ (forall r c, FRM (ev_resolve a r c) (ev_resolve b r c)) /\
  (forall v e c, FRM (ev_case_equals a v e c) (ev_case_equals b v e c)) /\
  (forall v lo hi c, FRM (ev_case_range a v lo hi c) (ev_case_range b v lo hi c)) /\
  (forall bl c, FRM (ev_run_block a bl c) (ev_run_block b bl c)) /\
  (forall name ty cst owner, FRM (ev_new_var a name ty cst owner) (ev_new_var b name ty cst owner)) /\
  (forall name ty dims owner, FRM (ev_new_array a name ty dims owner) (ev_new_array b name ty dims owner)) /\
  (forall t params args vals c fc, FRM (ev_bind_args a t params args vals c fc) (ev_bind_args b t params args vals c fc)) /\
  (forall t name args c, FRM (ev_call_procedure a t name args c) (ev_call_procedure b t name args c)) /\
  (forall t args c, FRM (ev_call_function a t args c) (ev_call_function b t args c)).

Lemma evs_at_FRM ped repl lim fuel : evs_FRM (evs_at ped repl lim fuel) (evs_at ped repl lim (S fuel)).
Proof.
  induction fuel as [|f IH].
  - cbn [evs_at]. unfold evs_FRM, evs_zero, evs_step. cbn. repeat split; intros; apply FRM_fuel.
  - remember (S f) as g. cbn [evs_at]. subst g.
    destruct IH as [H0 [H1 [H2 [H3 [H4 [H5 [H6 [H7 [H8 [H9 H10]]]]]]]]]].
    change (evs_at ped repl lim (S f)) with (evs_step ped repl lim (evs_at ped repl lim f)).
    change (evs_at ped repl lim (S (S f))) with (evs_step ped repl lim (evs_at ped repl lim (S f))).
    unfold evs_FRM. cbn [evs_step ev_fuel ev_eval ev_resolve ev_case_equals ev_case_range ev_run_block ev_new_var ev_new_array ev_bind_args ev_call_procedure ev_call_function].
    split; [first [reflexivity | cbn in H0; rewrite H0; reflexivity]|].
    split; [intros; apply F_eval_body; assumption|].
    split; [intros; apply F_resolve_body; assumption|].
    split; [intros; apply F_case_equals_body; assumption|].
    split; [intros; apply F_case_range_body; assumption|].
    split; [intros; apply F_run_block_body; assumption|].
    split; [intros; apply F_new_var_body; assumption|].
    split; [intros; apply F_new_array_body; assumption|].
    split; [intros; apply F_bind_args_body; assumption|].
    split; [intros; apply F_call_procedure_body; assumption|].
    intros; apply F_call_function_body; assumption.
Qed.

(* one more unit of fuel changes nothing unless the run had stopped for lack of fuel *)
Theorem run_block_fuel_step ped repl lim fuel bl c s :
  run_block ped repl lim fuel bl c s = run_block ped repl lim (S fuel) bl c s \/ exists s', run_block ped repl lim fuel bl c s = (Fail FFuel, s').
Proof. unfold run_block. destruct (evs_at_FRM ped repl lim fuel) as [_ [_ [_ [_ [_ [H _]]]]]]. apply H. Qed.

Theorem eval_fuel_step ped repl lim fuel n c s :
  eval ped repl lim fuel n c s = eval ped repl lim (S fuel) n c s \/ exists s', eval ped repl lim fuel n c s = (Fail FFuel, s').
Proof. unfold eval. destruct (evs_at_FRM ped repl lim fuel) as [_ [H _]]. apply H. Qed.

(* hence any larger fuel *)
Theorem run_block_fuel_monotone ped repl lim fuel more bl c s r s' :
  run_block ped repl lim fuel bl c s = (r, s') -> r <> Fail FFuel -> run_block ped repl lim (fuel + more) bl c s = (r, s').
Proof.
  intros H Hr. induction more as [|m IH]; [rewrite Nat.add_0_r; exact H|].
  rewrite Nat.add_succ_r. destruct (run_block_fuel_step ped repl lim (fuel + m) bl c s) as [E|[s1 E]].
  - rewrite <- E. exact IH.
  - rewrite IH in E. inversion E. congruence.
Qed.
