(* Lemmas_DeepCopy.v — the copy constructor of record values (Heap.copy_val / copy_ctx: Composite(const Composite&),
   Context(const Context&)) makes a deep, independent copy.  For every record value, however nested (records in
   records, array fields, arrays of records), every state and every fuel:
     - the copy has the same value as the source (same field names, types, CONSTANT flags, leaves, array shapes),
     - everything that existed before the copy is untouched (so the source still has its value),
     - every context, cell and array under the copy carries an identifier that did not exist before,
   hence a later write to storage that existed before the copy cannot change the copy, and a later write to storage
   created by or after the copy cannot change the source. *)
From PE2 Require Import Heap Lemmas_Copy.
Require Import Lia.
Local Open Scope N_scope.

(* ---- the value stored under a payload, read off the heap ---- *)
Inductive tree :=
 | TLeaf (p : payload)
 | TRec (tn : str) (fields : list (str * str * dtype * bool * tree))
        (arrays : list (str * str * dtype * list (Z * Z) * list (str * dtype * tree))).

Fixpoint mapO {A B} (f : A -> option B) (l : list A) : option (list B) :=
  match l with
  | [] => Some []
  | x :: r => match f x, mapO f r with Some y, Some ys => Some (y :: ys) | _, _ => None end
  end.

Definition view_field (vw : payload -> option tree) (s : st) (nv : str * N) : option (str * str * dtype * bool * tree) :=
  match nm_get (snd nv) (s_cells s) with
  | None => None
  | Some cl => match vw (c_val cl) with None => None | Some t => Some (fst nv, c_name cl, c_type cl, c_const cl, t) end
  end.
Definition view_elem (vw : payload -> option tree) (s : st) (e : N) : option (str * dtype * tree) :=
  match nm_get e (s_cells s) with
  | None => None
  | Some cl => match vw (c_val cl) with None => None | Some t => Some (c_name cl, c_type cl, t) end
  end.
Definition view_arr (vw : payload -> option tree) (s : st) (na : str * N) :
  option (str * str * dtype * list (Z * Z) * list (str * dtype * tree)) :=
  match nm_get (snd na) (s_arrs s) with
  | None => None
  | Some a => match mapO (view_elem vw s) (a_elems a) with None => None | Some ts => Some (fst na, a_name a, a_type a, a_dims a, ts) end
  end.

Fixpoint view (g : nat) (s : st) (p : payload) : option tree :=
  match p with
  | PRec tn c =>
    match g with
    | O => None
    | S g' =>
      match nm_get c (s_ctxs s) with
      | None => None
      | Some cx =>
        match mapO (view_field (view g' s) s) (x_vars cx), mapO (view_arr (view g' s) s) (x_arrs cx) with
        | Some fs, Some ars => Some (TRec tn fs ars)
        | _, _ => None
        end
      end
    end
  | _ => Some (TLeaf p)
  end.

(* ---- relations between states ---- *)
(* everything present in s1 is present and identical in s2 *)
Definition ext (s1 s2 : st) : Prop :=
  (forall id x, nm_get id (s_cells s1) = Some x -> nm_get id (s_cells s2) = Some x) /\
  (forall id x, nm_get id (s_arrs s1) = Some x -> nm_get id (s_arrs s2) = Some x) /\
  (forall id x, nm_get id (s_ctxs s1) = Some x -> nm_get id (s_ctxs s2) = Some x).
(* identifiers in use are below the allocation counter *)
Definition hb (s : st) : Prop :=
  (forall id x, nm_get id (s_cells s) = Some x -> id < s_next s) /\
  (forall id x, nm_get id (s_arrs s) = Some x -> id < s_next s) /\
  (forall id x, nm_get id (s_ctxs s) = Some x -> id < s_next s).
(* the two states hold the same thing under every identifier from b upwards *)
Definition agree_from (b : N) (s1 s2 : st) : Prop :=
  (forall id, b <= id -> nm_get id (s_cells s2) = nm_get id (s_cells s1)) /\
  (forall id, b <= id -> nm_get id (s_arrs s2) = nm_get id (s_arrs s1)) /\
  (forall id, b <= id -> nm_get id (s_ctxs s2) = nm_get id (s_ctxs s1)).
(* nothing but the heap and its counter differs *)
Definition same_rest (s1 s2 : st) : Prop :=
  s_procs s2 = s_procs s1 /\ s_funcs s2 = s_funcs s1 /\ s_out s2 = s_out s1 /\ s_in s2 = s_in s1 /\ s_fs s2 = s_fs s1 /\
  s_files s2 = s_files s1 /\ s_steps s2 = s_steps s1 /\ s_cellcount s2 = s_cellcount s1 /\ s_depth s2 = s_depth s1 /\ s_rand s2 = s_rand s1.

Lemma ext_refl s : ext s s.
Proof. repeat split; auto. Qed.
Lemma ext_trans a b c : ext a b -> ext b c -> ext a c.
Proof. intros [A1 [A2 A3]] [B1 [B2 B3]]. repeat split; intros; auto. Qed.
Lemma same_rest_refl s : same_rest s s.
Proof. repeat split. Qed.
Lemma same_rest_trans a b c : same_rest a b -> same_rest b c -> same_rest a c.
Proof. unfold same_rest. intros H1 H2. decompose [and] H1. decompose [and] H2. repeat split; congruence. Qed.

(* ---- the value is complete and every identifier under it is at least b ---- *)
Fixpoint above (b : N) (g : nat) (s : st) (p : payload) : Prop :=
  match p with
  | PRec tn c =>
    match g with
    | O => True
    | S g' =>
      b <= c /\
      exists cx, nm_get c (s_ctxs s) = Some cx /\
        Forall (fun nv : str * N => b <= snd nv /\ exists cl, nm_get (snd nv) (s_cells s) = Some cl /\ above b g' s (c_val cl)) (x_vars cx) /\
        Forall (fun na : str * N => b <= snd na /\ exists a, nm_get (snd na) (s_arrs s) = Some a /\
                  Forall (fun e : N => b <= e /\ exists cl, nm_get e (s_cells s) = Some cl /\ above b g' s (c_val cl)) (a_elems a)) (x_arrs cx)
    end
  | _ => True
  end.

(* ---- mapO ---- *)
Lemma mapO_ext {A B} (f g : A -> option B) l : (forall x, In x l -> f x = g x) -> mapO f l = mapO g l.
Proof.
  induction l as [|x r IH]; intros H; [reflexivity|]. cbn [mapO]. rewrite (H x (or_introl eq_refl)).
  rewrite IH; [reflexivity|]. intros y Hy. apply H. right. exact Hy.
Qed.
Lemma mapO_mono {A B} (f g : A -> option B) l ys : (forall x y, In x l -> f x = Some y -> g x = Some y) -> mapO f l = Some ys -> mapO g l = Some ys.
Proof.
  revert ys. induction l as [|x r IH]; intros ys H E; [exact E|]. cbn [mapO] in *.
  destruct (f x) as [y|] eqn:Ex; [|discriminate]. destruct (mapO f r) as [yr|] eqn:Er; [|discriminate].
  rewrite (H x y (or_introl eq_refl) Ex). rewrite (IH yr); [exact E| |reflexivity]. intros x0 y0 Hi. apply H. right. exact Hi.
Qed.

(* ---- a value that could be read is read unchanged after the heap was extended ---- *)
Lemma view_ext : forall g s1 s2 p t, ext s1 s2 -> view g s1 p = Some t -> view g s2 p = Some t.
Proof.
  induction g as [|g IH]; intros s1 s2 p t He Hv.
  - destruct p; cbn [view] in *; try exact Hv.
  - destruct p as [| | | | | | | |tn c]; cbn [view] in *; try exact Hv.
    destruct He as [E1 [E2 E3]].
    destruct (nm_get c (s_ctxs s1)) as [cx|] eqn:Ec; [|discriminate]. rewrite (E3 c cx Ec).
    destruct (mapO (view_field (view g s1) s1) (x_vars cx)) as [fs|] eqn:Ef; [|discriminate].
    destruct (mapO (view_arr (view g s1) s1) (x_arrs cx)) as [ars|] eqn:Ea; [|discriminate].
    assert (F : forall nv y, view_field (view g s1) s1 nv = Some y -> view_field (view g s2) s2 nv = Some y).
    { intros nv y. unfold view_field. destruct (nm_get (snd nv) (s_cells s1)) as [cl|] eqn:Ecl; [|discriminate].
      rewrite (E1 _ _ Ecl). destruct (view g s1 (c_val cl)) as [t0|] eqn:Et; [|discriminate].
      rewrite (IH s1 s2 _ _ (conj E1 (conj E2 E3)) Et). auto. }
    assert (G : forall e y, view_elem (view g s1) s1 e = Some y -> view_elem (view g s2) s2 e = Some y).
    { intros e y. unfold view_elem. destruct (nm_get e (s_cells s1)) as [cl|] eqn:Ecl; [|discriminate].
      rewrite (E1 _ _ Ecl). destruct (view g s1 (c_val cl)) as [t0|] eqn:Et; [|discriminate].
      rewrite (IH s1 s2 _ _ (conj E1 (conj E2 E3)) Et). auto. }
    rewrite (mapO_mono _ (view_field (view g s2) s2) _ _ (fun x y _ => F x y) Ef).
    assert (A : forall na y, view_arr (view g s1) s1 na = Some y -> view_arr (view g s2) s2 na = Some y).
    { intros na y. unfold view_arr. destruct (nm_get (snd na) (s_arrs s1)) as [a|] eqn:Ear; [|discriminate].
      rewrite (E2 _ _ Ear). destruct (mapO (view_elem (view g s1) s1) (a_elems a)) as [ts|] eqn:Ets; [|discriminate].
      rewrite (mapO_mono _ (view_elem (view g s2) s2) _ _ (fun x y _ => G x y) Ets). auto. }
    rewrite (mapO_mono _ (view_arr (view g s2) s2) _ _ (fun x y _ => A x y) Ea). exact Hv.
Qed.

(* ---- a value whose storage lies at or above b is the same in two states that agree from b upwards ---- *)
Lemma view_agree_from : forall g b s1 s2 p, agree_from b s1 s2 -> above b g s1 p -> view g s2 p = view g s1 p.
Proof.
  induction g as [|g IH]; intros b s1 s2 p Ha Hab.
  - destruct p; reflexivity.
  - destruct p as [| | | | | | | |tn c]; try reflexivity. cbn [view above] in *.
    destruct Ha as [A1 [A2 A3]]. destruct Hab as [Hc [cx [Ec [Hv Har]]]]. rewrite (A3 c Hc), Ec.
    rewrite Forall_forall in Hv, Har.
    assert (E1 : mapO (view_field (view g s2) s2) (x_vars cx) = mapO (view_field (view g s1) s1) (x_vars cx)).
    { apply mapO_ext. intros nv Hin. destruct (Hv nv Hin) as [Hb [cl [Ecl Hcl]]]. unfold view_field. rewrite (A1 _ Hb), Ecl.
      rewrite (IH b s1 s2 (c_val cl) (conj A1 (conj A2 A3)) Hcl). reflexivity. }
    assert (E2 : mapO (view_arr (view g s2) s2) (x_arrs cx) = mapO (view_arr (view g s1) s1) (x_arrs cx)).
    { apply mapO_ext. intros na Hin. destruct (Har na Hin) as [Hb [a [Ear Ha]]]. unfold view_arr. rewrite (A2 _ Hb), Ear.
      rewrite Forall_forall in Ha.
      assert (E : mapO (view_elem (view g s2) s2) (a_elems a) = mapO (view_elem (view g s1) s1) (a_elems a)).
      { apply mapO_ext. intros e He. destruct (Ha e He) as [Hbe [cl [Ecl Hcl]]]. unfold view_elem. rewrite (A1 _ Hbe), Ecl.
        rewrite (IH b s1 s2 (c_val cl) (conj A1 (conj A2 A3)) Hcl). reflexivity. }
      rewrite E. reflexivity. }
    rewrite E1, E2. reflexivity.
Qed.

(* "above b" speaks only about the storage from b upwards, and may be weakened to a smaller bound *)
Lemma above_transfer : forall g b b' s1 s2 p, b' <= b ->
  (forall id x, b <= id -> nm_get id (s_cells s1) = Some x -> nm_get id (s_cells s2) = Some x) ->
  (forall id x, b <= id -> nm_get id (s_arrs s1) = Some x -> nm_get id (s_arrs s2) = Some x) ->
  (forall id x, b <= id -> nm_get id (s_ctxs s1) = Some x -> nm_get id (s_ctxs s2) = Some x) ->
  above b g s1 p -> above b' g s2 p.
Proof.
  induction g as [|g IH]; intros b b' s1 s2 p Hb T1 T2 T3 Ha.
  - destruct p; exact I.
  - destruct p as [| | | | | | | |tn c]; try exact I. cbn [above] in *.
    destruct Ha as [Hc [cx [Ec [Hv Har]]]]. split; [lia|]. exists cx. split; [apply T3; assumption|]. split.
    + eapply Forall_impl; [|exact Hv]. intros nv [H1 [cl [Ecl Hcl]]]. split; [lia|]. exists cl. split; [apply T1; assumption|].
      apply (IH b b' s1 s2); assumption.
    + eapply Forall_impl; [|exact Har]. intros na [H1 [a [Ea Hel]]]. split; [lia|]. exists a. split; [apply T2; assumption|].
      eapply Forall_impl; [|exact Hel]. intros e [H2 [cl [Ecl Hcl]]]. split; [lia|]. exists cl. split; [apply T1; assumption|].
      apply (IH b b' s1 s2); assumption.
Qed.
Lemma above_ext g b b' s1 s2 p : b' <= b -> ext s1 s2 -> above b g s1 p -> above b' g s2 p.
Proof. intros Hb [E1 [E2 E3]]. apply above_transfer; auto. Qed.
Lemma above_agree g b s1 s2 p : agree_from b s1 s2 -> above b g s1 p -> above b g s2 p.
Proof.
  intros [A1 [A2 A3]]. apply above_transfer; [lia| | |]; intros id x Hid E; [rewrite (A1 id Hid)|rewrite (A2 id Hid)|rewrite (A3 id Hid)]; exact E.
Qed.

(* ---- monadic inversions ---- *)
Lemma get_cell_inv id s cl s1 : get_cell id s = (Ok cl, s1) -> s1 = s /\ nm_get id (s_cells s) = Some cl.
Proof. unfold get_cell. destruct (nm_get id (s_cells s)); intros H; inversion H; auto. Qed.
Lemma get_arr_inv id s a s1 : get_arr id s = (Ok a, s1) -> s1 = s /\ nm_get id (s_arrs s) = Some a.
Proof. unfold get_arr. destruct (nm_get id (s_arrs s)); intros H; inversion H; auto. Qed.
Lemma get_ctx_inv id s c s1 : get_ctx id s = (Ok c, s1) -> s1 = s /\ nm_get id (s_ctxs s) = Some c.
Proof. unfold get_ctx. destruct (nm_get id (s_ctxs s)); intros H; inversion H; auto. Qed.

Definition R (s1 s2 : st) : Prop := ext s1 s2 /\ same_rest s1 s2 /\ s_next s1 <= s_next s2.
Lemma R_refl s : R s s.
Proof. split; [apply ext_refl|]. split; [apply same_rest_refl|lia]. Qed.
Lemma R_trans a b c : R a b -> R b c -> R a c.
Proof. intros [A1 [A2 A3]] [B1 [B2 B3]]. split; [eapply ext_trans; eauto|]. split; [eapply same_rest_trans; eauto|lia]. Qed.

(* allocation steps *)
Lemma hb_not_present_cell s id : hb s -> s_next s <= id -> nm_get id (s_cells s) = None.
Proof. intros [H _] Hi. destruct (nm_get id (s_cells s)) eqn:E; [|reflexivity]. apply H in E. lia. Qed.
Lemma hb_not_present_arr s id : hb s -> s_next s <= id -> nm_get id (s_arrs s) = None.
Proof. intros [_ [H _]] Hi. destruct (nm_get id (s_arrs s)) eqn:E; [|reflexivity]. apply H in E. lia. Qed.
Lemma hb_not_present_ctx s id : hb s -> s_next s <= id -> nm_get id (s_ctxs s) = None.
Proof. intros [_ [_ H]] Hi. destruct (nm_get id (s_ctxs s)) eqn:E; [|reflexivity]. apply H in E. lia. Qed.

Definition alloc_cell (c : cell) (s : st) : st := set_cells (nm_put (s_next s) c (s_cells s)) (set_next (N.succ (s_next s)) s).
Definition alloc_arr (a : arr) (s : st) : st := set_arrs (nm_put (s_next s) a (s_arrs s)) (set_next (N.succ (s_next s)) s).
Definition alloc_ctx (c : ctx) (s : st) : st := set_ctxs (nm_put (s_next s) c (s_ctxs s)) (set_next (N.succ (s_next s)) s).

Lemma alloc_cell_spec c s : hb s -> hb (alloc_cell c s) /\ R s (alloc_cell c s) /\ nm_get (s_next s) (s_cells (alloc_cell c s)) = Some c.
Proof.
  intros Hb. pose proof (hb_not_present_cell s (s_next s) Hb ltac:(lia)) as Hn. destruct Hb as [H1 [H2 H3]].
  split; [|split].
  - unfold hb, alloc_cell. cbn. split; [|split]; intros id x E.
    + destruct (N.eq_dec (s_next s) id) as [<-|Hne]; [lia|]. rewrite nm_get_put_other in E by exact Hne. apply H1 in E. lia.
    + apply H2 in E. lia.
    + apply H3 in E. lia.
  - split; [|split; [repeat split|cbn; lia]]. unfold ext, alloc_cell. cbn. split; [|split]; intros id x E; auto.
    assert (s_next s <> id) by (intro; subst id; rewrite Hn in E; discriminate). rewrite nm_get_put_other by assumption. exact E.
  - unfold alloc_cell. cbn. apply nm_get_put_same.
Qed.
Lemma alloc_arr_spec a s : hb s -> hb (alloc_arr a s) /\ R s (alloc_arr a s) /\ nm_get (s_next s) (s_arrs (alloc_arr a s)) = Some a.
Proof.
  intros Hb. pose proof (hb_not_present_arr s (s_next s) Hb ltac:(lia)) as Hn. destruct Hb as [H1 [H2 H3]].
  split; [|split].
  - unfold hb, alloc_arr. cbn. split; [|split]; intros id x E.
    + apply H1 in E. lia.
    + destruct (N.eq_dec (s_next s) id) as [<-|Hne]; [lia|]. rewrite nm_get_put_other in E by exact Hne. apply H2 in E. lia.
    + apply H3 in E. lia.
  - split; [|split; [repeat split|cbn; lia]]. unfold ext, alloc_arr. cbn. split; [|split]; intros id x E; auto.
    assert (s_next s <> id) by (intro; subst id; rewrite Hn in E; discriminate). rewrite nm_get_put_other by assumption. exact E.
  - unfold alloc_arr. cbn. apply nm_get_put_same.
Qed.
Lemma alloc_ctx_spec c s : hb s -> hb (alloc_ctx c s) /\ R s (alloc_ctx c s) /\ nm_get (s_next s) (s_ctxs (alloc_ctx c s)) = Some c.
Proof.
  intros Hb. pose proof (hb_not_present_ctx s (s_next s) Hb ltac:(lia)) as Hn. destruct Hb as [H1 [H2 H3]].
  split; [|split].
  - unfold hb, alloc_ctx. cbn. split; [|split]; intros id x E.
    + apply H1 in E. lia.
    + apply H2 in E. lia.
    + destruct (N.eq_dec (s_next s) id) as [<-|Hne]; [lia|]. rewrite nm_get_put_other in E by exact Hne. apply H3 in E. lia.
  - split; [|split; [repeat split|cbn; lia]]. unfold ext, alloc_ctx. cbn. split; [|split]; intros id x E; auto.
    assert (s_next s <> id) by (intro; subst id; rewrite Hn in E; discriminate). rewrite nm_get_put_other by assumption. exact E.
  - unfold alloc_ctx. cbn. apply nm_get_put_same.
Qed.

(* ---- loops with an invariant ---- *)
Lemma mapM_inv {A B} (f : A -> M B) (P : st -> Prop) (Q : A -> B -> st -> Prop) :
  (forall x y s1 s2, Q x y s1 -> R s1 s2 -> Q x y s2) ->
  forall l,
  (forall x s1 y s2, In x l -> P s1 -> f x s1 = (Ok y, s2) -> P s2 /\ R s1 s2 /\ Q x y s2) ->
  forall s ys s', P s -> mapM f l s = (Ok ys, s') -> P s' /\ R s s' /\ Forall2 (fun x y => Q x y s') l ys.
Proof.
  intros Stab. induction l as [|x r IH]; intros Step s ys s' HP E.
  - cbn in E. inversion E; subst. split; [exact HP|]. split; [apply R_refl|constructor].
  - cbn [mapM] in E. apply bind_inv in E. destruct E as [y [s1 [E1 E]]].
    apply bind_inv in E. destruct E as [yr [s2 [E2 E]]]. inversion E; subst. clear E.
    destruct (Step x s y s1 (or_introl eq_refl) HP E1) as [P1 [R1 Q1]].
    destruct (IH (fun x0 sa y0 sb Hin => Step x0 sa y0 sb (or_intror Hin)) s1 yr s' P1 E2) as [P2 [R2 F2]].
    split; [exact P2|]. split; [eapply R_trans; eauto|]. constructor; [eapply Stab; eauto|exact F2].
Qed.

Lemma mapO_Forall2 {A A' B} (F : A -> option B) (G : A' -> option B) l l' ts :
  Forall2 (fun x y => forall t, F x = Some t -> G y = Some t) l l' -> mapO F l = Some ts -> mapO G l' = Some ts.
Proof.
  intros H. revert ts. induction H as [|x y r r' Hxy Hr IH]; intros ts E; [exact E|]. cbn [mapO] in *.
  destruct (F x) as [t|] eqn:Ex; [|discriminate]. destruct (mapO F r) as [tr|] eqn:Er; [|discriminate].
  rewrite (Hxy t eq_refl), (IH tr eq_refl). exact E.
Qed.

Lemma Forall2_impl {A B} (P Q : A -> B -> Prop) l l' : (forall x y, P x y -> Q x y) -> Forall2 P l l' -> Forall2 Q l l'.
Proof. intros H F. induction F; constructor; auto. Qed.

Lemma Forall2_Forall_r {A B} (P : A -> B -> Prop) (Q : B -> Prop) l l' : Forall2 P l l' -> (forall x y, P x y -> Q y) -> Forall Q l'.
Proof. intros F H. induction F; constructor; eauto. Qed.

(* ---- the copy of one cell, as the loops of copy_ctx leave it ---- *)
Definition copied_cell (b1 : N) (sB : st) (keep_const : bool) (src dst : N) (s : st) : Prop :=
  b1 <= dst /\ exists cl', nm_get dst (s_cells s) = Some cl' /\ (forall g, above b1 g s (c_val cl')) /\
    forall cl, nm_get src (s_cells sB) = Some cl ->
      c_name cl' = c_name cl /\ c_type cl' = c_type cl /\ (keep_const = true -> c_const cl' = c_const cl) /\
      (forall g t, view g sB (c_val cl) = Some t -> view g s (c_val cl') = Some t).
Lemma copied_cell_stable b1 sB k src dst s1 s2 : copied_cell b1 sB k src dst s1 -> R s1 s2 -> copied_cell b1 sB k src dst s2.
Proof.
  intros [Hb [cl' [E [A H]]]] [He _]. pose proof He as [Xc _]. split; [exact Hb|]. exists cl'. split; [apply Xc; exact E|]. split.
  - intros g. eapply above_ext; [|exact He|apply A]. lia.
  - intros cl Hcl. destruct (H cl Hcl) as [H1 [H2 [H3 H4]]]. repeat split; auto.
    intros g t Hv. eapply view_ext; eauto.
Qed.

Definition copied_arr (b1 : N) (sB : st) (src dst : N) (s : st) : Prop :=
  b1 <= dst /\ exists a' srcs, nm_get dst (s_arrs s) = Some a' /\
    Forall2 (fun e e' => copied_cell b1 sB false e e' s) srcs (a_elems a') /\
    forall a, nm_get src (s_arrs sB) = Some a ->
      a_name a' = a_name a /\ a_type a' = a_type a /\ a_dims a' = a_dims a /\ srcs = a_elems a.
Lemma copied_arr_stable b1 sB src dst s1 s2 : copied_arr b1 sB src dst s1 -> R s1 s2 -> copied_arr b1 sB src dst s2.
Proof.
  intros [Hb [a' [srcs [E [F H]]]]] HR. pose proof HR as [[_ [Xa _]] _].
  split; [exact Hb|]. exists a', srcs. split; [apply Xa; exact E|]. split; [|exact H].
  eapply Forall2_impl; [|exact F]. intros e e' Hc. eapply copied_cell_stable; [apply Hc|eassumption].
Qed.

Definition copy_val_ok (f : nat) : Prop := forall p s p' s', copy_val f p s = (Ok p', s') -> hb s ->
  hb s' /\ R s s' /\ (forall g t, view g s p = Some t -> view g s' p' = Some t) /\ (forall g, above (s_next s) g s' p').
Definition copy_ctx_ok (f : nat) : Prop := forall c s c' s', copy_ctx f c s = (Ok c', s') -> hb s ->
  hb s' /\ R s s' /\ (forall tn g t, view g s (PRec tn c) = Some t -> view g s' (PRec tn c') = Some t) /\
  (forall tn g, above (s_next s) g s' (PRec tn c')).

Definition loopP (b1 : N) (sB s : st) : Prop := hb s /\ ext sB s /\ b1 <= s_next s.

(* one field of the record: copy the value, then allocate the new cell *)
Lemma copy_cell_step f (Hf : copy_val_ok f) b1 sB (owner : N) (keep : bool) src s1 nid s2 :
  loopP b1 sB s1 ->
  (cl <- get_cell src ;; v' <- copy_val f (c_val cl) ;; nid <- fresh ;;
   put_cell nid (mkCell (c_name cl) (c_type cl) (if keep then c_const cl else false) owner v') ;;; ret nid) s1 = (Ok nid, s2) ->
  loopP b1 sB s2 /\ R s1 s2 /\ copied_cell b1 sB keep src nid s2.
Proof.
  intros [Hb [He Hn]] E.
  apply bind_inv in E. destruct E as [cl [sa [E1 E]]]. apply get_cell_inv in E1. destruct E1 as [-> Ecl].
  apply bind_inv in E. destruct E as [v' [sb [E2 E]]].
  destruct (Hf _ _ _ _ E2 Hb) as [Hb2 [R2 [V2 A2]]].
  apply bind_inv in E. destruct E as [nid0 [sc [E3 E]]]. unfold fresh in E3. inversion E3; subst nid0 sc. clear E3.
  apply bind_inv in E. destruct E as [u [sd [E4 E]]]. unfold put_cell, modify in E4. inversion E4; subst sd. clear E4.
  inversion E; subst. clear E.
  set (newc := mkCell (c_name cl) (c_type cl) (if keep then c_const cl else false) owner v').
  change (set_cells _ _) with (alloc_cell newc sb).
  destruct (alloc_cell_spec newc sb Hb2) as [Hb3 [R3 G3]].
  assert (RR : R s1 (alloc_cell newc sb)) by (eapply R_trans; eauto).
  split; [|split; [exact RR|]].
  - split; [exact Hb3|]. split; [eapply ext_trans; [exact He|apply RR]|]. destruct RR as [_ [_ L]]. lia.
  - split; [destruct R2 as [_ [_ L]]; lia|]. exists newc. split; [exact G3|]. split.
    + intros g. unfold newc. cbn [c_val]. eapply above_ext; [|apply R3|apply A2]. exact Hn.
    + intros cl0 Hcl0. assert (cl0 = cl) by (apply (proj1 He) in Hcl0; congruence). subst cl0.
      unfold newc. cbn [c_name c_type c_const c_val]. split; [reflexivity|]. split; [reflexivity|]. split; [intros ->; reflexivity|].
      intros g t Hv. eapply view_ext; [apply R3|]. apply V2. eapply view_ext; [exact He|exact Hv].
Qed.

Theorem copy_ok : forall f, copy_val_ok f /\ copy_ctx_ok f.
Proof.
  induction f as [|f [IHv IHc]].
  - split.
    + intros p s p' s' E Hb. destruct p; cbn [copy_val] in E; try discriminate; inversion E; subst;
        (split; [exact Hb|]; split; [apply R_refl|]; split; [auto|intros g; destruct g; exact I]).
    + intros c s c' s' E. cbn in E. discriminate.
  - split.
    + intros p s p' s' E Hb. destruct p as [| | | | | | | |tn c]; cbn [copy_val] in E;
        try (inversion E; subst; split; [exact Hb|]; split; [apply R_refl|]; split; [auto|intros g; destruct g; exact I]).
      apply bind_inv in E. destruct E as [c' [s1 [E1 E]]]. inversion E; subst. clear E.
      destruct (IHc _ _ _ _ E1 Hb) as [H1 [H2 [H3 H4]]]. split; [exact H1|]. split; [exact H2|]. split; [apply H3|apply H4].
    + intros c s0 c' s' E Hb0. cbn [copy_ctx] in E.
      apply bind_inv in E. destruct E as [cx [sa [E1 E]]]. apply get_ctx_inv in E1. destruct E1 as [-> Ecx].
      apply bind_inv in E. destruct E as [id [sb [E2 E]]]. unfold fresh in E2. inversion E2; subst id sb. clear E2.
      apply bind_inv in E. destruct E as [u [sB [E3 E]]]. unfold put_ctx, modify in E3. inversion E3; subst sB. clear E3.
      set (b := s_next s0) in *. set (blank := blank_ctx_like cx) in *.
      change (set_ctxs _ _) with (alloc_ctx blank s0) in E. set (sB := alloc_ctx blank s0) in *.
      destruct (alloc_ctx_spec blank s0 Hb0) as [HbB [RB GB]]. fold sB in HbB, RB, GB. fold b in GB.
      set (b1 := N.succ b).
      (* fields *)
      apply bind_inv in E. destruct E as [vars' [s2 [Ev E]]].
      set (Qv := fun (nv y : str * N) (s : st) => fst y = fst nv /\ copied_cell b1 sB true (snd nv) (snd y) s).
      assert (Lv : loopP b1 sB s2 /\ R sB s2 /\ Forall2 (fun x y => Qv x y s2) (x_vars cx) vars').
      { eapply (mapM_inv _ (loopP b1 sB) Qv); [| |split; [exact HbB|split; [apply ext_refl|unfold b1, sB, alloc_ctx; cbn; lia]]|exact Ev].
        - intros x y sx sy [Q1 Q2] HR. split; [exact Q1|eapply copied_cell_stable; eauto].
        - intros nv sx y sy _ HP Ex.
          assert (Ex' : (cl <- get_cell (snd nv) ;; v' <- copy_val f (c_val cl) ;; nid <- fresh ;;
                         put_cell nid (mkCell (c_name cl) (c_type cl) (if true then c_const cl else false) b v') ;;; ret nid) sx = (Ok (snd y), sy) /\ fst y = fst nv).
          { apply bind_inv in Ex. destruct Ex as [cl [s_1 [X1 Ex]]]. apply bind_inv in Ex. destruct Ex as [v' [s_2 [X2 Ex]]].
            apply bind_inv in Ex. destruct Ex as [nid [s_3 [X3 Ex]]]. apply bind_inv in Ex. destruct Ex as [u1 [s_4 [X4 Ex]]].
            inversion Ex; subst. cbn [fst snd]. split; [|reflexivity]. unfold bind. rewrite X1, X2, X3. rewrite X4. reflexivity. }
          destruct Ex' as [Ex' Efst]. destruct (copy_cell_step f IHv b1 sB b true (snd nv) sx (snd y) sy HP Ex') as [P2 [R2 C2]].
          split; [exact P2|]. split; [exact R2|]. split; assumption. }
      destruct Lv as [[Hb2 [He2 Hn2]] [R2 Fv]].
      (* array fields *)
      apply bind_inv in E. destruct E as [arrs' [s3 [Ea E]]].
      set (Qa := fun (na y : str * N) (s : st) => fst y = fst na /\ copied_arr b1 sB (snd na) (snd y) s).
      assert (La : loopP b1 sB s3 /\ R s2 s3 /\ Forall2 (fun x y => Qa x y s3) (x_arrs cx) arrs').
      { eapply (mapM_inv _ (loopP b1 sB) Qa); [| |split; [exact Hb2|split; [exact He2|exact Hn2]]|exact Ea].
        - intros x y sx sy [Q1 Q2] HR. split; [exact Q1|eapply copied_arr_stable; eauto].
        - intros na sx y sy _ HP Ex.
          apply bind_inv in Ex. destruct Ex as [a [s_1 [X1 Ex]]]. apply get_arr_inv in X1. destruct X1 as [-> Earr].
          apply bind_inv in Ex. destruct Ex as [elems' [s_2 [X2 Ex]]].
          assert (Le : loopP b1 sB s_2 /\ R sx s_2 /\ Forall2 (fun e e' => copied_cell b1 sB false e e' s_2) (a_elems a) elems').
          { eapply (mapM_inv _ (loopP b1 sB) (fun e e' s => copied_cell b1 sB false e e' s)); [| |exact HP|exact X2].
            - intros e e' s_a s_b Hc HR. eapply copied_cell_stable; [apply Hc|exact HR].
            - intros e s_a e' s_b _ HPa Xe. apply (copy_cell_step f IHv b1 sB b false e s_a e' s_b HPa). exact Xe. }
          destruct Le as [[Hbe [Hee Hne]] [Re Fe]].
          apply bind_inv in Ex. destruct Ex as [naid [s_3 [X3 Ex]]]. unfold fresh in X3. inversion X3; subst naid s_3. clear X3.
          apply bind_inv in Ex. destruct Ex as [u1 [s_4 [X4 Ex]]]. unfold put_arr, modify in X4. inversion X4; subst s_4. clear X4.
          inversion Ex; subst. clear Ex. cbn [fst snd].
          set (newa := mkArr (a_name a) (a_type a) (a_dims a) elems').
          change (set_arrs _ _) with (alloc_arr newa s_2).
          destruct (alloc_arr_spec newa s_2 Hbe) as [Hb4 [R4 G4]].
          assert (RR : R sx (alloc_arr newa s_2)) by (eapply R_trans; eauto).
          split; [|split; [exact RR|]].
          + split; [exact Hb4|]. split; [eapply ext_trans; [exact Hee|apply R4]|]. destruct R4 as [_ [_ L]]. lia.
          + split; [reflexivity|]. split; [exact Hne|]. exists newa, (a_elems a). split; [exact G4|]. split.
            * unfold newa. cbn [a_elems]. eapply Forall2_impl; [|exact Fe]. intros e e' Hc. eapply copied_cell_stable; [apply Hc|eassumption].
            * intros a0 Ha0. assert (a0 = a) by (apply (proj1 (proj2 (proj1 (proj2 HP)))) in Ha0; congruence). subst a0.
              unfold newa. cbn [a_name a_type a_dims]. repeat split. }
      destruct La as [[Hb3 [He3 Hn3]] [R3 Fa]].
      (* the context of the copy gets its tables *)
      apply bind_inv in E. destruct E as [u2 [s4 [Eu E]]]. inversion E; subst c' s4. clear E.
      unfold upd_ctx in Eu. apply bind_inv in Eu. destruct Eu as [k [s_1 [X1 Eu]]]. apply get_ctx_inv in X1. destruct X1 as [-> Ek].
      assert (k = blank) by (apply (proj2 (proj2 He3)) in GB; congruence). subst k.
      unfold put_ctx, modify in Eu. inversion Eu; subst s'. clear Eu.
      set (newx := ctx_with_arrs arrs' (ctx_with_vars vars' blank)).
      set (sF := set_ctxs (nm_put b newx (s_ctxs s3)) s3).
      assert (Fv3 : Forall2 (fun x y => Qv x y s3) (x_vars cx) vars').
      { eapply Forall2_impl; [|exact Fv]. intros x y [Q1 Q2]. split; [exact Q1|eapply copied_cell_stable; eauto]. }
      assert (HbF : hb sF).
      { destruct Hb3 as [Y1 [Y2 Y3]]. unfold hb, sF. cbn. split; [exact Y1|]. split; [exact Y2|]. intros id x Ex.
        destruct (N.eq_dec b id) as [<-|Hne]; [unfold b1 in Hn3; lia|]. rewrite nm_get_put_other in Ex by exact Hne. eapply Y3; eauto. }
      assert (R03 : R s0 s3) by (eapply R_trans; [exact RB|]; eapply R_trans; eauto).
      assert (Hnb : nm_get b (s_ctxs s0) = None) by (apply hb_not_present_ctx; [exact Hb0|unfold b; lia]).
      assert (R0F : R s0 sF).
      { destruct R03 as [[X1 [X2 X3]] [Y Z]]. split; [|split; [exact Y|exact Z]]. unfold ext, sF. cbn. split; [exact X1|]. split; [exact X2|].
        intros id x Ex. assert (b <> id) by (intro; subst id; rewrite Hnb in Ex; discriminate). rewrite nm_get_put_other by assumption. apply X3. exact Ex. }
      assert (AgF : agree_from b1 s3 sF).
      { unfold agree_from, sF. cbn. split; [reflexivity|]. split; [reflexivity|]. intros id Hid. apply nm_get_put_other. unfold b1 in Hid. lia. }
      assert (GF : nm_get b (s_ctxs sF) = Some newx) by (unfold sF; cbn; apply nm_get_put_same).
      assert (He0B : ext s0 sB) by apply RB.
      (* one copied cell, seen from the final state *)
      assert (TC : forall k src dst, copied_cell b1 sB k src dst s3 ->
                   b1 <= dst /\ exists cl', nm_get dst (s_cells sF) = Some cl' /\ (forall g, above b1 g sF (c_val cl')) /\
                     forall cl, nm_get src (s_cells s0) = Some cl ->
                       c_name cl' = c_name cl /\ c_type cl' = c_type cl /\ (k = true -> c_const cl' = c_const cl) /\
                       forall g t, view g s0 (c_val cl) = Some t -> view g sF (c_val cl') = Some t).
      { intros k src dst [Hd [cl' [Ecl' [A H]]]]. split; [exact Hd|]. exists cl'. split; [exact Ecl'|]. split.
        - intros g. eapply above_agree; [exact AgF|apply A].
        - intros cl Hcl. apply (proj1 He0B) in Hcl. destruct (H cl Hcl) as [N1 [N2 [N3 V]]].
          split; [exact N1|]. split; [exact N2|]. split; [exact N3|].
          intros g t Hv. rewrite (view_agree_from g b1 s3 sF (c_val cl') AgF (A g)). apply V. eapply view_ext; [exact He0B|exact Hv]. }
      split; [exact HbF|]. split; [exact R0F|]. split.
      * (* same value *)
        intros tn g t Hv. destruct g as [|g]; [discriminate|]. cbn [view] in Hv |- *. fold b. rewrite GF. rewrite Ecx in Hv.
        destruct (mapO (view_field (view g s0) s0) (x_vars cx)) as [fs|] eqn:Ef; [|discriminate].
        destruct (mapO (view_arr (view g s0) s0) (x_arrs cx)) as [ars|] eqn:Ear; [|discriminate].
        assert (X1 : mapO (view_field (view g sF) sF) (x_vars newx) = Some fs).
        { unfold newx. cbn [x_vars ctx_with_arrs ctx_with_vars]. eapply mapO_Forall2; [|exact Ef].
          eapply Forall2_impl; [|exact Fv3]. intros nv y [Q1 Q2] t0. destruct (TC _ _ _ Q2) as [_ [cl' [Ecl' [_ H]]]].
          unfold view_field. destruct (nm_get (snd nv) (s_cells s0)) as [cl|] eqn:Ecl; [|discriminate].
          destruct (view g s0 (c_val cl)) as [tt0|] eqn:Et; [|discriminate]. intros Heq. inversion Heq; subst. clear Heq.
          destruct (H cl eq_refl) as [N1 [N2 [N3 V]]]. rewrite Ecl', (V g tt0 Et), Q1, N1, N2, (N3 eq_refl). reflexivity. }
        assert (X2 : mapO (view_arr (view g sF) sF) (x_arrs newx) = Some ars).
        { unfold newx. cbn [x_arrs ctx_with_arrs ctx_with_vars]. eapply mapO_Forall2; [|exact Ear].
          eapply Forall2_impl; [|exact Fa]. intros na y [Q1 [Hd [a' [srcs [Ea' [Fe H]]]]]] t0.
          unfold view_arr. destruct (nm_get (snd na) (s_arrs s0)) as [a|] eqn:Earr0; [|discriminate].
          destruct (mapO (view_elem (view g s0) s0) (a_elems a)) as [ts|] eqn:Ets; [|discriminate]. intros Heq. inversion Heq; subst. clear Heq.
          destruct (H a ((proj1 (proj2 He0B)) _ _ Earr0)) as [N1 [N2 [N3 N4]]]. subst srcs.
          assert (Ea'F : nm_get (snd y) (s_arrs sF) = Some a') by exact Ea'. rewrite Ea'F.
          assert (X : mapO (view_elem (view g sF) sF) (a_elems a') = Some ts).
          { eapply mapO_Forall2; [|exact Ets]. eapply Forall2_impl; [|exact Fe]. intros e e' Hc t1.
            destruct (TC _ _ _ Hc) as [_ [cl' [Ecl' [_ Hh]]]]. unfold view_elem.
            destruct (nm_get e (s_cells s0)) as [cl|] eqn:Ecl; [|discriminate].
            destruct (view g s0 (c_val cl)) as [tt0|] eqn:Et; [|discriminate]. intros Heq. inversion Heq; subst. clear Heq.
            destruct (Hh cl eq_refl) as [M1 [M2 [_ V]]]. rewrite Ecl', (V g tt0 Et), M1, M2. reflexivity. }
          rewrite X, Q1, N1, N2, N3. reflexivity. }
        rewrite X1, X2. exact Hv.
      * (* all of it new *)
        intros tn g. destruct g as [|g]; [exact I|]. cbn [above]. fold b. split; [lia|]. exists newx. split; [exact GF|].
        unfold newx. cbn [x_vars x_arrs ctx_with_arrs ctx_with_vars]. split.
        -- eapply Forall2_Forall_r; [exact Fv3|]. intros nv y [Q1 Q2]. cbv beta.
           destruct (TC _ _ _ Q2) as [Hd [cl' [Ecl' [A _]]]]. split; [unfold b1 in Hd; lia|]. exists cl'. split; [exact Ecl'|].
           eapply above_transfer; [| | | |apply A]; auto. unfold b1. lia.
        -- eapply Forall2_Forall_r; [exact Fa|]. intros na y [Q1 [Hd [a' [srcs [Ea' [Fe H]]]]]]. cbv beta.
           split; [unfold b1 in Hd; lia|]. exists a'. split; [exact Ea'|].
           eapply Forall2_Forall_r; [exact Fe|]. intros e e' Hc. cbv beta in Hc |- *.
           destruct (TC _ _ _ Hc) as [Hd2 [cl' [Ecl' [A _]]]]. split; [unfold b1 in Hd2; lia|]. exists cl'. split; [exact Ecl'|].
           eapply above_transfer; [| | | |apply A]; auto. unfold b1. lia.
Qed.

(* ---- the statements used by Properties_C07 ---- *)
Theorem copy_is_deep fuel p s p' s' : copy_val fuel p s = (Ok p', s') -> hb s ->
  (forall g t, view g s p = Some t -> view g s' p' = Some t /\ view g s' p = Some t) /\
  ext s s' /\ same_rest s s' /\ hb s' /\ (forall g, above (s_next s) g s' p').
Proof.
  intros E Hb. destruct (proj1 (copy_ok fuel) p s p' s' E Hb) as [H1 [[H2 [H3 _]] [H4 H5]]].
  split; [|auto]. intros g t Hv. split; [apply H4; exact Hv|eapply view_ext; eauto].
Qed.

(* after the copy, writes to storage that existed before it do not show in the copy ... *)
Theorem copy_independent_of_source fuel p s p' s' s2 g : copy_val fuel p s = (Ok p', s') -> hb s ->
  agree_from (s_next s) s' s2 -> view g s2 p' = view g s' p'.
Proof.
  intros E Hb Ha. destruct (copy_is_deep fuel p s p' s' E Hb) as [_ [_ [_ [_ A]]]]. apply (view_agree_from g (s_next s)); [exact Ha|apply A].
Qed.

(* ... and writes to storage created by the copy or later do not show in the source *)
Theorem source_independent_of_copy fuel p s p' s' s2 g t : copy_val fuel p s = (Ok p', s') -> hb s ->
  (forall id, id < s_next s -> nm_get id (s_cells s2) = nm_get id (s_cells s') /\ nm_get id (s_arrs s2) = nm_get id (s_arrs s') /\
                               nm_get id (s_ctxs s2) = nm_get id (s_ctxs s')) ->
  view g s p = Some t -> view g s2 p = Some t.
Proof.
  intros E Hb Hlow Hv. destruct (copy_is_deep fuel p s p' s' E Hb) as [_ [[E1 [E2 E3]] _]].
  eapply view_ext; [|exact Hv]. destruct Hb as [B1 [B2 B3]]. split; [|split]; intros id x Hx.
  - destruct (Hlow id (B1 _ _ Hx)) as [-> _]. apply E1. exact Hx.
  - destruct (Hlow id (B2 _ _ Hx)) as [_ [-> _]]. apply E2. exact Hx.
  - destruct (Hlow id (B3 _ _ Hx)) as [_ [_ ->]]. apply E3. exact Hx.
Qed.

(* identifiers below the counter: true of the initial state and kept by the copy *)
Lemma nm_get_empty {A} k : @nm_get A k nm_empty = None.
Proof. unfold nm_get, nm_empty. apply PositiveMap.gempty. Qed.
From PE2 Require Import Run.
Lemma hb_init stdin fs rnd : hb (init_state stdin fs rnd).
Proof.
  unfold hb, init_state. cbn [s_cells s_arrs s_ctxs s_next]. split; [|split]; intros id x E.
  - rewrite nm_get_empty in E. discriminate.
  - rewrite nm_get_empty in E. discriminate.
  - destruct (N.eq_dec root_id id) as [<-|Hne]; [unfold root_id; lia|]. rewrite nm_get_put_other, nm_get_empty in E by exact Hne. discriminate.
Qed.

(* a state with a record T { x : INTEGER, inner : I { s : STRING }, v : ARRAY[1:2] OF INTEGER }, built by allocation *)
Definition ex_state : st :=
  let s0 := init_state [] [] [] in                                                      (* next = 2 *)
  let rc := mkCtx (Some 1) (str_of_string "T") [(str_of_string "x", 3); (str_of_string "inner", 5)] [(str_of_string "v", 8)] [] [] [] false true dt_none None None 1 in
  let s1 := alloc_ctx rc s0 in                                                          (* 2 *)
  let s2 := alloc_cell (mkCell (str_of_string "x") (dt_prim KInt) false 2 (PInt 7)) s1 in  (* 3 *)
  let ic := mkCtx (Some 2) (str_of_string "I") [(str_of_string "s", 6)] [] [] [] [] false true dt_none None None 2 in
  let s3 := alloc_ctx ic s2 in                                                          (* 4 *)
  let s4 := alloc_cell (mkCell (str_of_string "inner") (mkDT KRec (Some (str_of_string "I"))) false 2 (PRec (str_of_string "I") 4)) s3 in (* 5 *)
  let s5 := alloc_cell (mkCell (str_of_string "s") (dt_prim KStr) false 4 (PStr (str_of_string "ab"))) s4 in  (* 6 *)
  let s6 := alloc_cell (mkCell (str_of_string "v") (dt_prim KInt) false 2 (PInt 1)) s5 in  (* 7 *)
  let s7 := alloc_arr (mkArr (str_of_string "v") (dt_prim KInt) [(1, 2)%Z] [7; 9]) s6 in  (* 8 *)
  alloc_cell (mkCell (str_of_string "v") (dt_prim KInt) false 2 (PInt 2)) s7.               (* 9 *)
Lemma hb_ex_state : hb ex_state.
Proof. unfold ex_state. repeat first [ apply alloc_cell_spec | apply alloc_arr_spec | apply alloc_ctx_spec | apply hb_init ]. Qed.
Example copy_example :
  match copy_val 8 (PRec (str_of_string "T") 2) ex_state with
  | (Ok (PRec _ c'), s') =>
    N.eqb c' 10 &&
    match view 4 ex_state (PRec (str_of_string "T") 2), view 4 s' (PRec (str_of_string "T") c') with
    | Some (TRec _ [_; (_, _, _, _, TRec _ [_] []) ] [(_, _, _, _, [_; _])]), Some _ => true
    | _, _ => false
    end
  | _ => false
  end = true.
Proof. vm_compute. reflexivity. Qed.
