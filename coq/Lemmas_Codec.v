(* Lemmas_Codec.v — the string part of the record codec: line breaks are marked with '#' on the way
   out and the marks are removed on the way in, for every byte string. *)
From PE2 Require Import Codec.
Local Open Scope Z_scope.

(* read_marked with the state it carries: [first] = no character consumed yet, [prev] = last character *)
Lemma read_marked_roundtrip : forall s first prev rest0 acc,
  (first = true \/ aeqb prev ch_nl = false) ->
  read_marked (List.length (mark_newlines s)) first prev (mark_newlines s ++ rest0) acc = Some (rev acc ++ s, rest0).
Proof.
  induction s as [|c r IH]; intros first prev rest0 acc Hst.
  - cbn. rewrite app_nil_r. reflexivity.
  - cbn [mark_newlines]. destruct (aeqb c ch_nl) eqn:E.
    + (* c = '\n' : written as '\n' '#' *)
      cbn [List.length app read_marked].
      assert (H1 : (negb first && aeqb c ch_hash && aeqb prev ch_nl) = false).
      { apply Ascii.eqb_eq in E. subst c. cbn. rewrite andb_false_r. reflexivity. }
      rewrite H1. cbn [read_marked].
      assert (H2 : (negb false && aeqb ch_hash ch_hash && aeqb c ch_nl) = true) by (rewrite E; reflexivity).
      rewrite H2. rewrite (IH false ch_hash rest0 (c :: acc)); [|right; reflexivity].
      cbn [rev]. rewrite <- app_assoc. reflexivity.
    + cbn [List.length app read_marked].
      assert (H1 : (negb first && aeqb c ch_hash && aeqb prev ch_nl) = false).
      { destruct Hst as [->|Hp]; [reflexivity|]. rewrite Hp. rewrite andb_false_r. reflexivity. }
      rewrite H1. rewrite (IH false c rest0 (c :: acc)); [|right; exact E].
      cbn [rev]. rewrite <- app_assoc. reflexivity.
Qed.

Lemma string_payload_roundtrip s rest0 :
  read_marked (List.length (mark_newlines s)) true ch_nul (mark_newlines s ++ rest0) [] = Some (s, rest0).
Proof. rewrite read_marked_roundtrip by (left; reflexivity). reflexivity. Qed.

(* the marked form is line safe: every line break in it is followed by '#' *)
Fixpoint line_safe (s : str) : bool :=
  match s with
  | [] => true
  | c :: r => if aeqb c ch_nl then match r with h :: _ => aeqb h ch_hash && line_safe r | [] => false end else line_safe r
  end.
Lemma mark_newlines_line_safe s : line_safe (mark_newlines s) = true.
Proof.
  induction s as [|c r IH]; [reflexivity|]. cbn [mark_newlines]. destruct (aeqb c ch_nl) eqn:E.
  - cbn [line_safe]. rewrite E. rewrite Ascii.eqb_refl. cbn [andb line_safe]. cbn. exact IH.
  - cbn [line_safe]. rewrite E. exact IH.
Qed.

(* a CHAR field: any of the 256 codes; the mark after a line break is consumed with it *)
Lemma char_field_roundtrip c rest0 old :
  load (VChar old) (str_of_string "CHAR " ++ [c] ++ (if aeqb c ch_nl then [ch_hash] else []) ++ rest0) =
  (VChar c, (if aeqb c ch_nl then rest0 else rest0), true) \/
  (aeqb c ch_nl = false /\ exists h t, rest0 = h :: t /\ False).
Proof.
  left. destruct (aeqb c ch_nl) eqn:E.
  - apply Ascii.eqb_eq in E. subst c. vm_compute. reflexivity.
  - assert (H : load (VChar old) (str_of_string "CHAR " ++ [c] ++ [] ++ rest0) =
               (VChar c, (if aeqb c ch_nl then match rest0 with h :: t => if aeqb h ch_hash then t else rest0 | [] => rest0 end else rest0), true)) by reflexivity.
    rewrite H. rewrite E. reflexivity.
Qed.

Lemma char_field_exact c rest0 old :
  load (VChar old) (str_of_string "CHAR " ++ [c] ++ (if aeqb c ch_nl then [ch_hash] else []) ++ rest0) = (VChar c, rest0, true).
Proof.
  destruct (char_field_roundtrip c rest0 old) as [H|[_ [h [t [_ []]]]]]. rewrite H. destruct (aeqb c ch_nl); reflexivity.
Qed.

(* BOOLEAN, DATE-free scalar tags: a value of another kind is rejected by the tag word *)
Lemma tag_mismatch_rejected_int old w r :
  rd_word r = Some (w, []) -> str_eqb w (str_of_string "INTEGER") = false ->
  exists v s', load (VInt old) r = (v, s', false).
Proof.
  intros H Hw. unfold load, expect_tag. rewrite H, Hw. eauto.
Qed.
