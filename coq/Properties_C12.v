(* Properties_C12.v — the REPL survives failing entries.
   PARTIAL: proved that an entry ending in a diagnostic leaves the loop running on the state the entry
   left, and that an entry rejected by the lexer leaves every component of the state (variables, types,
   procedures, handles, disk, unread input) untouched.  "A failing simple entry has no effect" for runtime
   errors rests on the per-statement order of checks in Eval.v (all checks before the first write), of
   which the assignment case is proved in C05/C08; REPL-versus-file equality and the echo forms are
   compared with the implementation on split programs and on histories with failing entries interleaved. *)
From PE2 Require Import Run Lemmas_Repl Eval Lemmas_Out Lemmas_ConstLogic Lemmas_ConstThm.

Theorem C12_session_survives_failing_entry : forall ped lim fuel k s s1 code d s3 diags misc,
  get_line (str_of_string "> ") s = (code, true, s1) -> plain_entry code ->
  run_source ped lim fuel true code root_id s1 = (EDiag d, s3) ->
  repl_loop ped lim fuel (S k) s diags misc = repl_loop ped lim fuel k s3 (d :: diags) misc.
Proof. exact failing_entry_continues. Qed.
Print Assumptions C12_session_survives_failing_entry.

Theorem C12_successful_entry_continues : forall ped lim fuel k s s1 code s3 diags misc,
  get_line (str_of_string "> ") s = (code, true, s1) -> plain_entry code ->
  run_source ped lim fuel true code root_id s1 = (EOk, s3) ->
  repl_loop ped lim fuel (S k) s diags misc = repl_loop ped lim fuel k s3 diags misc.
Proof. exact successful_entry_continues. Qed.
Print Assumptions C12_successful_entry_continues.

Theorem C12_lexically_wrong_entry_no_effect : forall ped lim fuel code root s e,
  lex ped code = inr e -> exists s', run_source ped lim fuel true code root s = (EDiag (diag_of_lex e), s') /\
  s_cells s' = s_cells s /\ s_arrs s' = s_arrs s /\ s_ctxs s' = s_ctxs s /\ s_procs s' = s_procs s /\ s_funcs s' = s_funcs s /\
  s_fs s' = s_fs s /\ s_files s' = s_files s /\ s_in s' = s_in s.
Proof. exact syntax_error_entry_no_effect. Qed.
Print Assumptions C12_lexically_wrong_entry_no_effect.

Example C12_plain_entry_example : plain_entry (str_of_string "x <- 5") /\ ~ plain_entry (str_of_string "IF x THEN").
Proof. split; [unfold plain_entry; vm_compute; repeat split; congruence|]. unfold plain_entry. vm_compute. intros [_ [_ [_ [_ H]]]]. discriminate. Qed.

(* an entry -- whatever its text, accepted or rejected by lexer or parser, successful or failing at run time half-way through --
   neither removes nor retypes anything established before it: every variable that existed still exists with its name, type,
   CONSTANT flag and owner, every (protected) constant has its value, every array is the same array; and the state it leaves
   satisfies the heap invariant again, so the same holds for the next entry.  (Program logic of Lemmas_ConstLogic.v.) *)
Theorem C12_entry_keeps_what_was_established : forall ped lim fuel repl src root s, Inv s ->
  let s' := snd (run_source ped lim fuel repl src root s) in
  (forall id cl, nm_get id (s_cells s) = Some cl -> exists cl', nm_get id (s_cells s') = Some cl' /\ same_meta cl cl') /\
  (forall id cl, nm_get id (s_cells s) = Some cl -> protected_cell s cl -> nm_get id (s_cells s') = Some cl) /\
  (forall id a, nm_get id (s_arrs s) = Some a -> nm_get id (s_arrs s') = Some a).
Proof. exact entry_keeps_variables_constants_arrays. Qed.
Print Assumptions C12_entry_keeps_what_was_established.

Theorem C12_entry_keeps_the_invariant : forall ped lim fuel repl src root s, Inv s -> Inv (snd (run_source ped lim fuel repl src root s)).
Proof. intros ped lim fuel repl src root s H. exact (proj1 (run_source_keeps ped lim fuel repl src root s H)). Qed.
Print Assumptions C12_entry_keeps_the_invariant.
