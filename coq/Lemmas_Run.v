(* Lemmas_Run.v — properties of the launchers (Run.v). *)
From PE2 Require Import Run.
Local Open Scope Z_scope.

Section RunLaws.
Variable ped : bool.
Variable lim : limits.
Variable fuel : nat.

Lemma close_all_no_handles s : s_files s = [] -> close_all_files s = (Ok Datatypes.tt, set_files [] s).
Proof. intros H. unfold close_all_files, bind, gets, modify. rewrite H. reflexivity. Qed.

(* a lexical error: nothing ran; stdout holds only the blank line the launcher prints before a diagnostic *)
Lemma lex_error_no_effects content stdin fs rnd e :
  lex ped (content ++ [ch_nl]) = inr e ->
  run_file ped lim fuel content stdin fs rnd = mkObs [ch_nl] [diag_of_lex e] 1 fs SDone [].
Proof.
  intros H. unfold run_file, run_source. rewrite H. cbn. reflexivity.
Qed.

(* a syntax error: nothing ran; stdout holds parser warnings (diagnostics) and the blank line *)
Lemma parse_error_no_effects content stdin fs rnd toks k t ps :
  lex ped (content ++ [ch_nl]) = inl toks -> parse_program ped toks = PFail k t ps ->
  let o := run_file ped lim fuel content stdin fs rnd in
  ob_diags o = [diag_of_parse k t] /\ ob_exit o = 1 /\ ob_fs o = fs /\ ob_status o = SDone /\
  ob_out o = List.concat (map warning_text (rev (p_warns ps))) ++ [ch_nl].
Proof.
  intros Hl Hp. unfold run_file, run_source. rewrite Hl, Hp. cbv zeta.
  set (s0 := init_state stdin fs rnd).
  assert (Hw : forall ws s, s_files (emit_warnings ws s) = s_files s /\ s_fs (emit_warnings ws s) = s_fs s /\
                            s_out (emit_warnings ws s) = rev (map warning_text (rev ws)) ++ s_out s).
  { intros ws s. unfold emit_warnings. generalize (rev ws) as l. clear. intros l. revert s.
    induction l as [|w l IH]; intros s; cbn [fold_left map rev]; [auto|].
    destruct (IH (set_out (warning_text w :: s_out s) s)) as [A [B C]]. repeat split; [rewrite A|rewrite B|rewrite C]; try reflexivity.
    cbn. rewrite <- app_assoc. reflexivity. }
  destruct (Hw (p_warns ps) s0) as [A [B C]].
  set (s1 := emit_warnings (p_warns ps) s0) in *.
  set (s2 := set_out ([ch_nl] :: s_out s1) s1).
  assert (F : s_files s2 = []) by (subst s2; cbn; rewrite A; reflexivity).
  rewrite (close_all_no_handles s2 F).
  set (s3 := set_files [] s2).
  assert (F3 : s_files s3 = []) by reflexivity.
  unfold finish. rewrite (close_all_no_handles s3 F3).
  cbn [ob_diags ob_exit ob_fs ob_status ob_out rev app].
  repeat split; try reflexivity.
  - subst s3 s2. cbn [s_fs set_files set_out]. exact B.
  - unfold out_string. subst s3 s2. cbn [s_out set_out set_files]. rewrite C. cbn [rev].
    rewrite rev_app_distr. cbn [rev app s_out s0 init_state]. rewrite rev_involutive.
    rewrite concat_app. cbn. reflexivity.
Qed.

(* every lexer diagnostic names a position inside the text it was given (line between 1 and lines+1) *)
End RunLaws.
