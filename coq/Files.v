(* Files.v — file handles and the disk: FileManager::createFile, File::read/write/seek/getRecord/
   putRecord/close as functions on the model's state; the operations on one random file are pure
   functions of its handle (rf_seek, rf_put, rf_get) so that their laws can be stated directly. *)
From PE2 Require Export Heap.
Local Open Scope Z_scope.

Definition os_name_ok (n : str) : bool :=
  match n with
  | [] => false
  | _ => forallb (fun c => negb (aeqb c "/"%char) && negb (aeqb c ch_nul)) n
         && (Z.of_nat (List.length n) <=? 255)
         && negb (str_eqb n (str_of_string ".")) && negb (str_eqb n (str_of_string ".."))
  end.

Fixpoint fs_set (n : str) (v : str) (fs : list (str * str)) : list (str * str) :=
  match fs with
  | [] => [(n, v)]
  | (k, x) :: r => if str_eqb n k then (k, v) :: r else (k, x) :: fs_set n v r
  end.
Definition fs_get (n : str) (fs : list (str * str)) : option str := assoc_str n fs.

Fixpoint find_file (n : str) (l : list ofile) : option ofile :=
  match l with [] => None | f :: r => if str_eqb (of_name f) n then Some f else find_file n r end.
Fixpoint replace_file (f : ofile) (l : list ofile) : list ofile :=
  match l with [] => [] | g :: r => if str_eqb (of_name g) (of_name f) then f :: r else g :: replace_file f r end.
Fixpoint remove_file (n : str) (l : list ofile) : list ofile :=
  match l with [] => [] | g :: r => if str_eqb (of_name g) n then r else g :: remove_file n r end.

Definition close_file_effect (f : ofile) : M unit :=
  match of_mode f with
  | FRandom => if of_modified f then modify (fun s => set_fs (fs_set (of_name f) (store_records (of_recs f)) (s_fs s)) s)
               else ret Datatypes.tt
  | _ => ret Datatypes.tt
  end.

(* FileManager::createFile *)
Definition create_file (name : str) (mode : fmode) : M bool :=
  if negb (os_name_ok name) then ret false else
  fs <- gets s_fs ;;
  match fs_get name fs, mode with
  | None, FRead | None, FAppend => ret false
  | None, FRandom =>
    modify (fun s => set_fs (fs_set name [] (s_fs s)) (set_files (s_files s ++ [mkOfile name FRandom [] [] 0 false]) s)) ;;; ret true
  | None, FWrite | Some _, FWrite =>
    modify (fun s => set_fs (fs_set name [] (s_fs s)) (set_files (s_files s ++ [mkOfile name FWrite [] [] 0 false]) s)) ;;; ret true
  | Some content, FRead => modify (fun s => set_files (s_files s ++ [mkOfile name FRead content [] 0 false]) s) ;;; ret true
  | Some _, FAppend => modify (fun s => set_files (s_files s ++ [mkOfile name FAppend [] [] 0 false]) s) ;;; ret true
  | Some content, FRandom =>
    modify (fun s => set_files (s_files s ++ [mkOfile name FRandom [] (load_records content) 0 false]) s) ;;; ret true
  end.

Definition update_file (f : ofile) : M unit := modify (fun s => set_files (replace_file f (s_files s)) s).

(* File::read : std::getline on the handle *)
Definition file_read_line (f : ofile) : str * ofile :=
  let fix go (s : str) (acc : str) : str * str :=
      match s with [] => (rev acc, []) | c :: r => if aeqb c ch_nl then (rev acc, r) else go r (c :: acc) end in
  let '(l, r) := go (of_rest f) [] in
  (l, mkOfile (of_name f) (of_mode f) r (of_recs f) (of_ptr f) (of_modified f)).

Fixpoint set_nth_str (l : list str) (i : Z) (v : str) : list str :=
  match l with [] => [] | x :: r => if i =? 0 then v :: r else x :: set_nth_str r (i - 1) v end.


(* ---- one random file: SEEK, PUTRECORD, GETRECORD on its handle ---- *)
Definition rf_seek (f : ofile) (addr : Z) : option ofile :=
  if (addr <? 1) || (Z.of_nat (List.length (of_recs f)) + 1 <? addr) then None
  else Some (mkOfile (of_name f) (of_mode f) (of_rest f) (of_recs f) (addr - 1) (of_modified f)).
Definition rf_put (f : ofile) (txt : str) : ofile :=
  let n := Z.of_nat (List.length (of_recs f)) in
  let recs' := if of_ptr f =? n then of_recs f ++ [txt] else set_nth_str (of_recs f) (of_ptr f) txt in
  mkOfile (of_name f) (of_mode f) (of_rest f) recs' (of_ptr f) true.
Definition rf_get (f : ofile) : option str := nth_z (of_recs f) (of_ptr f).

(* ---- a text file opened FOR READ: the reading loop WHILE NOT EOF ... READFILE ---- *)
Definition tf_eof (f : ofile) : bool := match of_rest f with [] => true | _ => false end.
Fixpoint read_loop (fuel : nat) (f : ofile) : list str :=
  match fuel with
  | O => []
  | S k => if tf_eof f then [] else let '(l, f') := file_read_line f in l :: read_loop k f'
  end.
