(* Dates.v — the calendar logic the interpreter relies on (std::chrono::year_month_day::ok,
   weekday, the comparison key of Date::toInteger) with the narrowing of chrono's constructors
   made explicit. *)
From PE2 Require Export Base.
Local Open Scope Z_scope.

Definition is_leap (y : Z) : bool := ((y mod 4 =? 0) && negb (y mod 100 =? 0)) || (y mod 400 =? 0).
Definition days_in_month (y m : Z) : Z :=
  if m =? 2 then (if is_leap y then 29 else 28)
  else if (m =? 4) || (m =? 6) || (m =? 9) || (m =? 11) then 30 else 31.

(* year_month_day::ok() for components as stored (day, month: unsigned char; year: short) *)
Definition ymd_ok (d m y : Z) : bool :=
  (-32767 <=? y) && (y <=? 32767) && (1 <=? m) && (m <=? 12) && (1 <=? d) && (d <=? days_in_month y m).

(* the valid Gregorian dates the property speaks about *)
Definition valid_gregorian (d m y : Z) : bool := ymd_ok d m y.

(* DateNode (after the range fix): components above 31/12/32767 are replaced by 0/0/0 *)
Definition date_literal_components (d m y : Z) : Z * Z * Z :=
  if (31 <? d) || (12 <? m) || (32767 <? y) then (0, 0, 0) else (d, m, y).

(* SETDATE's guard before narrowing *)
Definition setdate_in_range (d m y : Z) : bool :=
  (1 <=? d) && (d <=? 31) && (1 <=? m) && (m <=? 12) && (-32767 <=? y) && (y <=? 32767).

Definition setdate (d m y : Z) : option (Z * Z * Z) :=
  if setdate_in_range d m y && ymd_ok d m y then Some (d, m, y) else None.

(* Date::toInteger : the key used by all six comparison operators *)
Definition date_key (d m y : Z) : Z := y * 372 + m * 31 + d.

(* days since 1970-01-01 (civil-from-days algorithm; agrees with chrono on valid dates) *)
Definition days_from_civil (d m y : Z) : Z :=
  let y' := if m <=? 2 then y - 1 else y in
  let era := y' / 400 in
  let yoe := y' - era * 400 in
  let mp := if 2 <? m then m - 3 else m + 9 in
  let doy := (153 * mp + 2) / 5 + d - 1 in
  let doe := yoe * 365 + yoe / 4 - yoe / 100 + doy in
  era * 146097 + doe - 719468.

(* DAYINDEX : weekday::c_encoding() + 1, Sunday = 1 *)
Definition day_index (d m y : Z) : Z := (days_from_civil d m y + 4) mod 7 + 1.

Definition next_day (d m y : Z) : Z * Z * Z :=
  if d <? days_in_month y m then (d + 1, m, y)
  else if m <? 12 then (1, m + 1, y) else (1, 1, y + 1).
