(* Base.v — shared basics of the PseudoEngine2 model: bytes/strings, decimal printing,
   64-bit wrap, and the state-and-failure monad used by the whole interpreter model. *)
From Coq Require Export List ZArith String Ascii Bool Lia.
Export ListNotations.
Local Open Scope Z_scope.

(* ---------- characters as byte codes ---------- *)
Definition zcode (c : ascii) : Z := Z.of_N (N_of_ascii c).
Definition ascii_of_z (z : Z) : ascii := ascii_of_N (Z.to_N (z mod 256)).
(* C `char` is signed 8-bit on the target: *)
Definition schar_of_ascii (c : ascii) : Z := let z := zcode c in if z <? 128 then z else z - 256.

Definition is_digit (c : ascii) : bool := let z := zcode c in (48 <=? z) && (z <=? 57).
Definition is_upper (c : ascii) : bool := let z := zcode c in (65 <=? z) && (z <=? 90).
Definition is_lower (c : ascii) : bool := let z := zcode c in (97 <=? z) && (z <=? 122).
Definition is_alpha (c : ascii) : bool := is_upper c || is_lower c.
Definition is_alnum (c : ascii) : bool := is_alpha c || is_digit c.
Definition is_cspace (c : ascii) : bool :=      (* C isspace in the "C" locale *)
  let z := zcode c in (z =? 32) || ((9 <=? z) && (z <=? 13)).
Definition to_upper (c : ascii) : ascii := if is_lower c then ascii_of_z (zcode c - 32) else c.
Definition to_lower (c : ascii) : ascii := if is_upper c then ascii_of_z (zcode c + 32) else c.
Definition digit_val (c : ascii) : Z := zcode c - 48.

Definition ch_nl : ascii := ascii_of_nat 10.
Definition ch_tab : ascii := ascii_of_nat 9.
Definition ch_cr : ascii := ascii_of_nat 13.
Definition ch_nul : ascii := ascii_of_nat 0.
Definition ch_quote : ascii := ascii_of_nat 39.
Definition ch_dquote : ascii := ascii_of_nat 34.
Definition ch_bslash : ascii := ascii_of_nat 92.
Definition ch_hash : ascii := "#"%char.
Definition ch_space : ascii := " "%char.

Definition aeqb (a b : ascii) : bool := Ascii.eqb a b.

(* strings as lists of bytes *)
Definition str := list ascii.
Fixpoint str_of_string (s : string) : str :=
  match s with EmptyString => [] | String c r => c :: str_of_string r end.
Fixpoint string_of_str (s : str) : string :=
  match s with [] => EmptyString | c :: r => String c (string_of_str r) end.
Coercion str_of_string : string >-> str.

Fixpoint str_eqb (a b : str) : bool :=
  match a, b with
  | [], [] => true
  | x :: a', y :: b' => aeqb x y && str_eqb a' b'
  | _, _ => false
  end.

Lemma str_eqb_eq a b : str_eqb a b = true <-> a = b.
Proof.
  revert b; induction a as [|x a IH]; intros [|y b]; simpl; split; try congruence; try discriminate; auto.
  - rewrite andb_true_iff. intros [H1 H2]. apply Ascii.eqb_eq in H1. apply IH in H2. congruence.
  - intros H; inversion H; subst. rewrite andb_true_iff. split; [apply Ascii.eqb_refl | apply IH; reflexivity].
Qed.

Lemma str_eqb_refl a : str_eqb a a = true.
Proof. apply str_eqb_eq; reflexivity. Qed.

Fixpoint starts_with (p s : str) : bool :=
  match p, s with
  | [], _ => true
  | x :: p', y :: s' => aeqb x y && starts_with p' s'
  | _, [] => false
  end.

(* ---------- decimal printing of integers ---------- *)
Fixpoint pos_digits_aux (fuel : nat) (n : Z) (acc : str) : str :=
  match fuel with
  | O => acc
  | S f => if n <? 10 then ascii_of_z (48 + n) :: acc
           else pos_digits_aux f (n / 10) (ascii_of_z (48 + n mod 10) :: acc)
  end.
(* digits of a non-negative integer; fuel = number of bits + 1 is always enough *)
Definition nat_digits (n : Z) : str := pos_digits_aux (S (Z.to_nat (Z.log2 n + 1))) n [].
Definition z_to_str (z : Z) : str :=
  if z <? 0 then "-"%char :: nat_digits (- z) else nat_digits z.

Fixpoint digits_to_z_aux (s : str) (acc : Z) : Z :=
  match s with [] => acc | c :: r => digits_to_z_aux r (acc * 10 + digit_val c) end.
Definition digits_to_z (s : str) : Z := digits_to_z_aux s 0.

(* ---------- 64-bit two's-complement wrap (recorded assumption of C01) ---------- *)
Definition two63 : Z := 9223372036854775808.
Definition two64 : Z := 18446744073709551616.
Definition int64_min : Z := - two63.
Definition int64_max : Z := two63 - 1.
Definition in_int64 (z : Z) : bool := (int64_min <=? z) && (z <=? int64_max).
Definition wrap64 (z : Z) : Z := (z + two63) mod two64 - two63.

Lemma wrap64_in_range z : int64_min <= wrap64 z <= int64_max.
Proof. unfold wrap64, int64_min, int64_max, two63, two64. pose proof (Z.mod_pos_bound (z + 9223372036854775808) 18446744073709551616 ltac:(lia)). lia. Qed.

Lemma wrap64_id z : int64_min <= z <= int64_max -> wrap64 z = z.
Proof. unfold wrap64, int64_min, int64_max, two63, two64. intros H. rewrite Z.mod_small by lia. lia. Qed.

(* ---------- small list helpers ---------- *)
Fixpoint assoc_str {A} (k : str) (l : list (str * A)) : option A :=
  match l with [] => None | (k', v) :: r => if str_eqb k k' then Some v else assoc_str k r end.

Fixpoint assoc_n {A} (k : N) (l : list (N * A)) : option A :=
  match l with [] => None | (k', v) :: r => if N.eqb k k' then Some v else assoc_n k r end.

Fixpoint update_n {A} (k : N) (v : A) (l : list (N * A)) : list (N * A) :=
  match l with
  | [] => [(k, v)]
  | (k', v') :: r => if N.eqb k k' then (k, v) :: r else (k', v') :: update_n k v r
  end.

Fixpoint nth_z {A} (l : list A) (i : Z) : option A :=
  match l with [] => None | x :: r => if i =? 0 then Some x else if i <? 0 then None else nth_z r (i - 1) end.

Fixpoint replicate {A} (n : nat) (x : A) : list A := match n with O => [] | S k => x :: replicate k x end.
