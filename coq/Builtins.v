(* Builtins.v — string, character and conversion built-ins (src/psc/builtinFunctions) as pure
   functions; None = the runtime error the code raises at that test. *)
From PE2 Require Export Real.
Local Open Scope Z_scope.

Definition slen (s : str) : Z := Z.of_nat (List.length s).

Definition bi_left (s : str) (n : Z) : option str :=
  if n <? 0 then None else if slen s <? n then None else Some (firstn (Z.to_nat n) s).

Definition bi_right (s : str) (n : Z) : option str :=
  if n <? 0 then None else if slen s <? n then None else Some (skipn (Z.to_nat (slen s - n)) s).

Definition bi_mid (s : str) (x y : Z) : option str :=
  let x0 := x - 1 in
  if x0 <? 0 then None
  else if slen s <=? x0 then None
  else if y <? 0 then None
  else if slen s <? y + x0 then None
  else Some (firstn (Z.to_nat y) (skipn (Z.to_nat x0) s)).

Definition bi_to_upper (s : str) : str := map to_upper s.
Definition bi_to_lower (s : str) : str := map to_lower s.

Definition bi_asc (c : ascii) : Z := schar_of_ascii c.       (* (int_t)(char) : sign-extended *)
Definition bi_chr (n : Z) : ascii := ascii_of_z n.           (* (char) n : low 8 bits *)

(* IS_NUM: digits with at most one '.' (the empty string and "." pass, as in the code) *)
Fixpoint is_num_aux (s : str) (decimal : bool) : bool :=
  match s with
  | [] => true
  | c :: r => if aeqb c "."%char then (if decimal then false else is_num_aux r true)
              else if is_digit c then is_num_aux r decimal else false
  end.
Definition bi_is_num (s : str) : bool := is_num_aux s false.

Definition bi_int (x : real) : Z := real_to_int64 (rfloor x).

(* RAND(x): (rand() % x) + rand() / (double) RAND_MAX for x > 0, else 0; the two draws are oracle values *)
Definition rand_max : Z := 2147483647.
Definition bi_rand (x r1 r2 : Z) : real :=
  if 0 <? x then radd (real_of_z (Z.rem r1 x)) (rdiv (real_of_z r2) (real_of_z rand_max)) else rzero.
