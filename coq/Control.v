(* Control.v — control-flow combinators of the evaluator, written over arbitrary condition and body
   computations so that their laws do not depend on the syntax tree: IF chains, CASE chains, WHILE,
   REPEAT and FOR loops with the BREAK/CONTINUE handling of src/nodes/loop/*.cpp. *)
From PE2 Require Export Heap.
Local Open Scope Z_scope.

Definition budget_error {A} (t : token) (c : N) : M A := runtime_error_cls EBudget t c.

(* the FOR header test: the iterator has not passed stop in the direction of step *)
Definition for_continues (stepv i stop : Z) : bool := if stepv <? 0 then stop <=? i else i <=? stop.

(* try/catch of BreakErrSignal / ContinueErrSignal around a loop body: true = go on *)
Definition run_body (br : M unit) : M bool :=
  catch (br ;;; ret true)
        (fun fl => match fl with FBreak _ => Some (ret false) | FContinue _ => Some (ret true) | _ => None end).

(* body of a call: restores the call depth, turns a stray BREAK/CONTINUE into an error raised in the
   callee's context cc, and (functions only) absorbs the RETURN signal *)
Definition call_body (d : Z) (cc : N) (absorb_return : bool) (m : M unit) : M unit :=
  fun s => match m s with
           | (Ok _, s') => (Ok Datatypes.tt, set_depth d s')
           | (Fail FReturn, s') => if absorb_return then (Ok Datatypes.tt, set_depth d s') else (Fail FReturn, set_depth d s')
           | (Fail (FBreak bt), s') => rt_error bt cc (set_depth d s')
           | (Fail (FContinue ct), s') => rt_error ct cc (set_depth d s')
           | (Fail fl, s') => (Fail fl, set_depth d s')
           end.

(* try/catch of one class of runtime error (NotDefinedError, ArrayDirectAccessError in this context) *)
Definition is_not_defined (k : ecls) : bool := match k with ENotDefined => true | _ => false end.
Definition is_array_direct (c : N) (k : ecls) : bool := match k with EArrayDirect c' => N.eqb c' c | _ => false end.
Definition catch_cls {A} (m : M A) (want : ecls -> bool) (h : fail -> M A) : M A :=
  catch m (fun fl => match fl with FErr d => if want (d_cls d) then Some (h fl) else None | _ => None end).

(* --pedantic: the two run-time sites (assignment / INPUT to an undeclared name) *)
Definition ped_guard (pedantic : bool) (t : token) : M unit :=
  if pedantic then pedantic_error t else ret Datatypes.tt.

(* bounds of an array declaration, evaluated pairwise by ev *)
Fixpoint eval_bounds (ev : node -> M result) (c : N) (bs : list node) (total : Z) : M (list dim) :=
  match bs with
  | lo :: hi :: rest =>
    lr <- ev lo ;;
    if negb (dk_eqb (dk (r_type lr)) KInt) then rt_error (node_token lo) c else
    hr <- ev hi ;;
    if negb (dk_eqb (dk (r_type hr)) KInt) then rt_error (node_token hi) c else
    l <- as_int lr ;; h <- as_int hr ;;
    if h <? l then rt_error (node_token hi) c else
    let n := (h - l + 1) mod two64 in
    if (n =? 0) || (max_elements / total <? n) then rt_error (node_token hi) c else
    ds <- eval_bounds ev c rest (total * n) ;; ret ((l, h) :: ds)
  | _ => ret []
  end.

(* indices of an element access, each checked against its dimension before the next is evaluated *)
Fixpoint eval_indices (ev : node -> M result) (c : N) (es : list node) (ds : list dim) : M (list Z) :=
  match es, ds with
  | e :: er, d :: dr =>
    ir <- ev e ;;
    if negb (dk_eqb (dk (r_type ir)) KInt) then rt_error (node_token e) c else
    i <- as_int ir ;;
    if negb (valid_index d i) then rt_error (node_token e) c else
    rest <- eval_indices ev c er dr ;; ret (i :: rest)
  | _, _ => ret []
  end.

Fixpoint repeatM {A} (k : nat) (m : M A) : M (list A) :=
  match k with O => ret [] | S k' => x <- m ;; rest <- repeatM k' m ;; ret (x :: rest) end.

Definition if_comp (ev : node -> M result) (rb : list node -> M unit) (p : option node * list node) : option (M result) * M unit :=
  (match fst p with Some e => Some (ev e) | None => None end, rb (snd p)).

Section Control.
Variable lim : limits.

Definition tick (t : token) (c : N) : M unit :=
  s <- gets s_steps ;;
  if (0 <? max_steps lim) && (max_steps lim <? s + 1) then budget_error t c
  else modify (set_steps (s + 1)).

Definition cond_bool (t : token) (c : N) (ce : M result) : M bool :=
  cr <- ce ;;
  if negb (dk_eqb (dk (r_type cr)) KBool) then rt_error t c else as_bool cr.

(* IfStatementNode::evaluate *)
Fixpoint if_chain (t : token) (c : N) (comps : list (option (M result) * M unit)) : M result :=
  match comps with
  | [] => ret res_none
  | (None, b) :: _ => b ;;; ret res_none
  | (Some ce, b) :: rest =>
    v <- cond_bool t c ce ;;
    if v then b ;;; ret res_none else if_chain t c rest
  end.

(* CaseNode::evaluate : clauses are (match test, block) *)
Fixpoint case_chain (clauses : list (M bool * M unit)) : M result :=
  match clauses with
  | [] => ret res_none
  | (m, b) :: rest => v <- m ;; if v then b ;;; ret res_none else case_chain rest
  end.

Fixpoint while_loop (k : nat) (t : token) (c : N) (ce : M result) (br : M unit) : M result :=
  match k with
  | O => failm FFuel
  | S k' =>
    tick t c ;;;
    v <- cond_bool t c ce ;;
    if negb v then ret res_none else
    go_on <- run_body br ;;
    if go_on then while_loop k' t c ce br else ret res_none
  end.

Fixpoint repeat_loop (k : nat) (t : token) (c : N) (ce : M result) (br : M unit) : M result :=
  match k with
  | O => failm FFuel
  | S k' =>
    tick t c ;;;
    go_on <- run_body br ;;
    if negb go_on then ret res_none else
    v <- cond_bool t c ce ;;
    if v then ret res_none else repeat_loop k' t c ce br
  end.

(* the loop of ForLoopNode::evaluate once the header has been evaluated; it = the iterator's cell *)
Fixpoint for_loop (k : nat) (t : token) (c : N) (it : N) (stepv stop : Z) (br : M unit) : M result :=
  match k with
  | O => failm FFuel
  | S k' =>
    cl <- get_cell it ;;
    match c_val cl with
    | PInt i =>
      if for_continues stepv i stop then
        tick t c ;;;
        go_on <- run_body br ;;
        if negb go_on then ret res_none else
        cl' <- get_cell it ;;
        match c_val cl' with
        | PInt j => set_cell_val it (PInt (wrap64 (j + stepv))) ;;; for_loop k' t c it stepv stop br
        | _ => crash "cell payload disagrees with its type"
        end
      else ret res_none
    | _ => crash "cell payload disagrees with its type"
    end
  end.

End Control.
