(* Lemmas_ArrStates.v -- what an indexed name denotes: a[i1,...,in] resolves to exactly the element cell the linearisation of the
   index tuple selects; a wrong number of indices, an index that is not an INTEGER, an index outside its bounds, and indexing
   something that is not an array are runtime errors that leave the whole state as it was.  For every state and context; the index
   expressions are any that evaluate without touching the state. *)
From PE2 Require Import Eval Run Lemmas_Copy Lemmas_Out Lemmas_Scope Lemmas_ConstLogic Lemmas_FileStates.
Local Open Scope N_scope.

Section Indices.
Variable ev : node -> M result.
Variables (c : N) (s : st).

(* every index expression evaluates, without touching the state, to some result *)
Definition evaluates (e : node) (r : result) : Prop := ev e s = (Ok r, s).
(* an INTEGER result holds an integer (results are well tagged: C05_results_have_their_type) *)
Definition int_tagged (r : result) : Prop := dk (r_type r) = KInt -> exists i, r_val r = Some (PInt i).
Definition index_ok (d : dim) (r : result) (i : Z) : Prop := dk (r_type r) = KInt /\ r_val r = Some (PInt i) /\ valid_index d i = true.

Lemma eval_indices_ok : forall es ds rs is, Forall2 evaluates es rs -> List.length ds = List.length es ->
  Forall2 (fun dr i => index_ok (fst dr) (snd dr) i) (combine ds rs) is ->
  eval_indices ev c es ds s = (Ok is, s).
Proof.
  induction es as [|e er IH]; intros ds rs is HE HL HO.
  - inversion HE; subst. destruct ds; [|discriminate HL]. cbn in HO. inversion HO; subst. reflexivity.
  - inversion HE as [|? r ? rr He Hr]; subst. destruct ds as [|d dr]; [discriminate HL|]. cbn [combine] in HO.
    inversion HO as [|? i ? ir [Hk [Hv Hb]] Hrest]; subst. cbn [fst snd] in *.
    cbn [eval_indices]. unfold bind at 1. rewrite He. cbn [fst snd]. rewrite Hk. change (dk_eqb KInt KInt) with true. cbn [negb].
    unfold bind at 1, as_int at 1. rewrite Hv. cbn [ret fst snd]. rewrite Hb. cbn [negb].
    unfold bind at 1. rewrite (IH dr rr ir Hr ltac:(cbn in HL; congruence) Hrest). cbn [fst snd]. reflexivity.
Qed.

Lemma eval_indices_bad : forall es ds rs, Forall2 evaluates es rs -> List.length ds = List.length es -> Forall int_tagged rs ->
  ~ (exists is, Forall2 (fun dr i => index_ok (fst dr) (snd dr) i) (combine ds rs) is) ->
  exists f, eval_indices ev c es ds s = (Fail f, s).
Proof.
  induction es as [|e er IH]; intros ds rs HE HL HT HN.
  - inversion HE; subst. destruct ds; [|discriminate HL]. exfalso. apply HN. exists []. constructor.
  - inversion HE as [|? r ? rr He Hr]; subst. destruct ds as [|d dr]; [discriminate HL|]. inversion HT as [|? ? Ht Htr]; subst.
    cbn [eval_indices]. unfold bind at 1. rewrite He. cbn [fst snd].
    destruct (dk_eqb (dk (r_type r)) KInt) eqn:Ek; cbn [negb]; [|apply rt_error_pure]. apply dk_eqb_eq in Ek.
    destruct (Ht Ek) as [i Hv]. unfold bind at 1, as_int at 1. rewrite Hv. cbn [ret fst snd].
    destruct (valid_index d i) eqn:Hb; cbn [negb]; [|apply rt_error_pure].
    destruct (IH dr rr Hr ltac:(cbn in HL; congruence) Htr) as [f Hf].
    { intros [is His]. apply HN. exists (i :: is). cbn [combine]. constructor; [repeat split; assumption|exact His]. }
    unfold bind at 1. rewrite Hf. cbn [fst snd]. eauto.
Qed.
End Indices.

Section Resolve.
Variables (ped repl : bool) (lim : limits) (fuel : nat).
Notation rs := (ev_resolve (evs_at ped repl lim (S fuel))).
Notation evl c := (fun x => ev_eval (evs_at ped repl lim fuel) x c).

Ltac start Hr Ea :=
  cbn [evs_at evs_step ev_resolve]; unfold resolve_body; unfold bind at 1; rewrite Hr; cbn [fst snd];
  unfold bind at 1, get_arr at 1; rewrite Ea; cbn [fst snd].

(* in bounds: exactly the element the linearisation selects *)
Theorem element_resolves_to_the_selected_cell t r' idx c s aid a rsl is eid :
  ev_resolve (evs_at ped repl lim fuel) r' c s = (Ok (HArr aid), s) -> nm_get aid (s_arrs s) = Some a ->
  List.length idx = List.length (a_dims a) -> Forall2 (evaluates (evl c) s) idx rsl ->
  Forall2 (fun dr i => index_ok (fst dr) (snd dr) i) (combine (a_dims a) rsl) is ->
  nth_z (a_elems a) (linear is (a_dims a)) = Some eid ->
  rs (RIndex t r' idx) c s = (Ok (HVar eid), s).
Proof.
  intros Hr Ea HL HE HO Hn. start Hr Ea. rewrite HL. rewrite Nat.eqb_refl. cbn [negb].
  unfold bind at 1. rewrite (eval_indices_ok (evl c) c s idx (a_dims a) rsl is HE (eq_sym HL) HO). cbn [fst snd]. rewrite Hn. reflexivity.
Qed.

(* an index that is not an INTEGER or lies outside its bounds: a runtime error, nothing read or written *)
Theorem bad_index_is_an_error t r' idx c s aid a rsl :
  ev_resolve (evs_at ped repl lim fuel) r' c s = (Ok (HArr aid), s) -> nm_get aid (s_arrs s) = Some a ->
  List.length idx = List.length (a_dims a) -> Forall2 (evaluates (evl c) s) idx rsl -> Forall int_tagged rsl ->
  ~ (exists is, Forall2 (fun dr i => index_ok (fst dr) (snd dr) i) (combine (a_dims a) rsl) is) ->
  exists f, rs (RIndex t r' idx) c s = (Fail f, s).
Proof.
  intros Hr Ea HL HE HT HN. start Hr Ea. rewrite HL. rewrite Nat.eqb_refl. cbn [negb].
  destruct (eval_indices_bad (evl c) c s idx (a_dims a) rsl HE (eq_sym HL) HT HN) as [f Hf]. unfold bind at 1. rewrite Hf. cbn [fst snd]. eauto.
Qed.

(* a wrong number of indices *)
Theorem wrong_number_of_indices_is_an_error t r' idx c s aid a :
  ev_resolve (evs_at ped repl lim fuel) r' c s = (Ok (HArr aid), s) -> nm_get aid (s_arrs s) = Some a ->
  List.length idx <> List.length (a_dims a) -> exists f, rs (RIndex t r' idx) c s = (Fail f, s).
Proof.
  intros Hr Ea HL. start Hr Ea. destruct (Nat.eqb (List.length idx) (List.length (a_dims a))) eqn:E; [apply Nat.eqb_eq in E; contradiction|]. cbn [negb]. apply rt_error_pure.
Qed.

(* indexing something that is not an array *)
Theorem indexing_a_variable_is_an_error t r' idx c s id :
  ev_resolve (evs_at ped repl lim fuel) r' c s = (Ok (HVar id), s) -> exists f, rs (RIndex t r' idx) c s = (Fail f, s).
Proof.
  intros Hr. cbn [evs_at evs_step ev_resolve]. unfold resolve_body. unfold bind at 1. rewrite Hr. cbn [fst snd]. apply rt_error_pure.
Qed.
End Resolve.
