(* Properties_C03.v — selection and loop statements execute exactly the documented control flow.
   The combinators are the ones the evaluator uses (first two theorems); their laws hold for
   arbitrary condition and body computations. *)
From PE2 Require Import Eval Control Lemmas_Control Run Lemmas_ForStates.
Local Open Scope Z_scope.

Theorem C03_evaluator_uses_combinators : forall ped repl lim f t cond body c,
  eval ped repl lim (S f) (NWhile t cond body) c = while_loop lim f t c (eval ped repl lim f cond c) (run_block ped repl lim f body c) /\
  eval ped repl lim (S f) (NRepeat t cond body) c = repeat_loop lim f t c (eval ped repl lim f cond c) (run_block ped repl lim f body c).
Proof. intros. split; [apply eval_while|apply eval_repeat]. Qed.
Print Assumptions C03_evaluator_uses_combinators.

Theorem C03_if_first_true : forall t c ce b rest s s1,
  ce s = (Ok (rbool true), s1) -> if_chain t c ((Some ce, b) :: rest) s = (b ;;; ret res_none) s1.
Proof. exact if_true. Qed.
Print Assumptions C03_if_first_true.

Theorem C03_if_false_goes_on : forall t c ce b rest s s1,
  ce s = (Ok (rbool false), s1) -> if_chain t c ((Some ce, b) :: rest) s = if_chain t c rest s1.
Proof. exact if_false. Qed.
Print Assumptions C03_if_false_goes_on.

Theorem C03_if_else_and_end : forall t c b rest s,
  if_chain t c ((None, b) :: rest) s = (b ;;; ret res_none) s /\ if_chain t c [] s = (Ok res_none, s).
Proof. intros. split; [apply if_else|apply if_none_left]. Qed.
Print Assumptions C03_if_else_and_end.

Theorem C03_condition_type_error : forall t c ce b rest s s1 r,
  ce s = (Ok r, s1) -> dk (r_type r) <> KBool -> forall x s2, if_chain t c ((Some ce, b) :: rest) s <> (Ok x, s2).
Proof. exact if_condition_not_boolean. Qed.
Print Assumptions C03_condition_type_error.

Theorem C03_case_first_match : forall m b rest s s1,
  (m s = (Ok true, s1) -> case_chain ((m, b) :: rest) s = (b ;;; ret res_none) s1) /\
  (m s = (Ok false, s1) -> case_chain ((m, b) :: rest) s = case_chain rest s1).
Proof. intros. split; [apply case_match|apply case_no_match]. Qed.
Print Assumptions C03_case_first_match.

Theorem C03_while_tests_before : forall lim t c k ce br,
  while_loop lim (S k) t c ce br =
  (tick lim t c ;;; v <- cond_bool t c ce ;;
   if negb v then ret res_none else go_on <- run_body br ;; if go_on then while_loop lim k t c ce br else ret res_none).
Proof. exact while_unfold. Qed.
Print Assumptions C03_while_tests_before.

Theorem C03_repeat_tests_after : forall lim t c k ce br,
  repeat_loop lim (S k) t c ce br =
  (tick lim t c ;;; go_on <- run_body br ;;
   if negb go_on then ret res_none else v <- cond_bool t c ce ;; if v then ret res_none else repeat_loop lim k t c ce br).
Proof. exact repeat_unfold. Qed.
Print Assumptions C03_repeat_tests_after.

Theorem C03_repeat_continue_still_tests_until : forall lim t c k ce br s s0 s1 s2 tk,
  tick lim t c s = (Ok Datatypes.tt, s0) -> br s0 = (Fail (FContinue tk), s1) -> ce s1 = (Ok (rbool true), s2) ->
  repeat_loop lim (S k) t c ce br s = (Ok res_none, s2).
Proof. exact repeat_continue_tests_until. Qed.
Print Assumptions C03_repeat_continue_still_tests_until.

(* BREAK and CONTINUE never leave the loop that encloses them *)
Theorem C03_while_absorbs_signals : forall lim t c k ce br, no_signal ce -> no_signal (while_loop lim k t c ce br).
Proof. exact while_absorbs_signals. Qed.
Print Assumptions C03_while_absorbs_signals.
Theorem C03_repeat_absorbs_signals : forall lim t c k ce br, no_signal ce -> no_signal (repeat_loop lim k t c ce br).
Proof. exact repeat_absorbs_signals. Qed.
Print Assumptions C03_repeat_absorbs_signals.
Theorem C03_for_absorbs_signals : forall lim t c k it stepv stop br, no_signal (for_loop lim k t c it stepv stop br).
Proof. exact for_absorbs_signals. Qed.
Print Assumptions C03_for_absorbs_signals.

(* FOR: with the header test of the evaluator (for_continues), the iterator takes the values
   start, start+step, ... for n = max 0 ((stop - start) / step + 1) iterations and ends at
   start + n*step, the first value past stop *)
Theorem C03_for_sequence : forall n fuel start stop stepv, stepv <> 0 ->
  Z.of_nat n = for_count start stop stepv -> (n < fuel)%nat ->
  for_values fuel start stop stepv = (seq_from n start stepv, start + Z.of_nat n * stepv).
Proof. exact for_values_spec. Qed.
Print Assumptions C03_for_sequence.

Theorem C03_for_final_is_first_past_stop : forall start stop stepv, stepv <> 0 ->
  let n := for_count start stop stepv in
  for_continues stepv (start + n * stepv) stop = false /\ (0 < n -> for_continues stepv (start + (n - 1) * stepv) stop = true).
Proof. exact for_final_past_stop. Qed.
Print Assumptions C03_for_final_is_first_past_stop.

Example C03_for_examples :
  for_values 10 1 5 2 = ([1; 3; 5], 7) /\ for_values 10 5 1 (-2) = ([5; 3; 1], -1) /\ for_values 10 5 1 1 = ([], 5).
Proof. vm_compute. repeat split; reflexivity. Qed.

(* the FOR header, in every state: a counter that exists and is not an INTEGER variable is a runtime error raised before any bound is
   evaluated; the whole state is as it was *)
Theorem C03_for_counter_must_be_an_integer_variable : forall ped repl lim fuel t id start stop step body c s i cl,
  lookup_var c (tval id) true s = (Ok (Some i), s) -> nm_get i (s_cells s) = Some cl -> c_const cl = false -> dk (c_type cl) <> KInt ->
  exists f, ev_eval (evs_at ped repl lim (S fuel)) (NFor t id start stop step body) c s = (Fail f, s).
Proof. exact for_counter_must_be_an_integer_variable. Qed.
Print Assumptions C03_for_counter_must_be_an_integer_variable.
