(* Properties_C20.v — --pedantic only rejects.
   PARTIAL: proved for the lexer (every text the pedantic lexer accepts gets the same tokens without the
   option).  The parser and the evaluator consult the flag at four more sites (ELSE IF, casts, assignment
   and INPUT to an undeclared name); for them the property is checked by running every generated program
   under both configurations (identical stdout, stderr, exit status, files) and by the correspondence. *)
From PE2 Require Import Lexer Lemmas_Lexer.

Theorem C20_lexer_only_rejects : forall input toks, lex true input = inl toks -> lex false input = inl toks.
Proof. exact lex_ped_only_rejects. Qed.
Print Assumptions C20_lexer_only_rejects.

Theorem C20_lexer_step_only_rejects : forall s toks s' toks', lex_step true s toks = LOk s' toks' -> lex_step false s toks = LOk s' toks'.
Proof. exact lex_step_ped. Qed.
Print Assumptions C20_lexer_step_only_rejects.

Example C20_break_rejected :
  (match lex true (str_of_string "WHILE TRUE
  BREAK
ENDWHILE") with inr e => match le_kind e with LexPedantic => true | _ => false end | _ => false end) = true /\
  (match lex false (str_of_string "BREAK") with inl _ => true | _ => false end) = true.
Proof. vm_compute. split; reflexivity. Qed.
