(* Properties_C20.v — --pedantic only rejects.
   Proved for the whole launcher (lexer, parser, evaluator, run_file): for every program text, input, file
   system, random sequence, budget and fuel, running with the option gives either exactly the observation of
   running without it (stdout, diagnostics, exit status, files, status), or one pedantic Error with exit
   status 1.  Lex- and parse-time rejections leave the file system untouched and print nothing but the
   parser warnings and the blank line before the diagnostic.  Each of the five construct sites rejects. *)
From PE2 Require Import Run Lemmas_Lexer Lemmas_PedParser Lemmas_Ped Lemmas_Out Lemmas_PedRun.
Local Open Scope Z_scope.

Theorem C20_run_file_only_rejects : forall lim fuel content stdin fs rnd,
  run_file true lim fuel content stdin fs rnd = run_file false lim fuel content stdin fs rnd
  \/ (let o := run_file true lim fuel content stdin fs rnd in
      ob_exit o = 1 /\ ob_status o = SDone /\ exists d, ob_diags o = [d] /\ d_kind d = DPedantic).
Proof. exact run_file_ped_only_rejects. Qed.
Print Assumptions C20_run_file_only_rejects.

(* accepted programs mean the same: no pedantic diagnostic => identical observation *)
Theorem C20_accepted_identical : forall lim fuel content stdin fs rnd,
  (forall d, In d (ob_diags (run_file true lim fuel content stdin fs rnd)) -> d_kind d <> DPedantic) ->
  run_file true lim fuel content stdin fs rnd = run_file false lim fuel content stdin fs rnd.
Proof.
  intros lim fuel content stdin fs rnd H.
  destruct (run_file_ped_only_rejects lim fuel content stdin fs rnd) as [E|[_ [_ [d [Hd Hk]]]]]; [exact E|].
  exfalso. apply (H d); [rewrite Hd; left; reflexivity|exact Hk].
Qed.
Print Assumptions C20_accepted_identical.

Theorem C20_evaluator_only_rejects : forall repl lim fuel bl c s,
  run_block true repl lim fuel bl c s = run_block false repl lim fuel bl c s
  \/ exists d s', run_block true repl lim fuel bl c s = (Fail (FErr d), s') /\ d_kind d = DPedantic /\ d_cls d = EOther.
Proof. exact run_block_ped_only_rejects. Qed.
Print Assumptions C20_evaluator_only_rejects.

Theorem C20_parser_only_rejects : forall ts,
  parse_program true ts = parse_program false ts \/ exists t s, parse_program true ts = PFail LexPedantic t s.
Proof. exact parse_program_ped_only_rejects. Qed.
Print Assumptions C20_parser_only_rejects.

Theorem C20_lexer_only_rejects : forall input,
  lex true input = lex false input \/ exists e, lex true input = inr e /\ le_kind e = LexPedantic.
Proof. exact lex_rel. Qed.
Print Assumptions C20_lexer_only_rejects.

Theorem C20_lexer_step_only_rejects : forall s toks s' toks', lex_step true s toks = LOk s' toks' -> lex_step false s toks = LOk s' toks'.
Proof. exact lex_step_ped. Qed.
Print Assumptions C20_lexer_step_only_rejects.

(* rejected before anything executes *)
Theorem C20_lex_time_rejection : forall lim fuel content stdin fs rnd e,
  lex true (content ++ [ch_nl]) = inr e ->
  run_file true lim fuel content stdin fs rnd = mkObs [ch_nl] [diag_of_lex e] 1 fs SDone [].
Proof. exact lex_time_rejection. Qed.
Print Assumptions C20_lex_time_rejection.

Theorem C20_parse_time_rejection : forall lim fuel content stdin fs rnd toks k t ps,
  lex true (content ++ [ch_nl]) = inl toks -> parse_program true toks = PFail k t ps ->
  run_file true lim fuel content stdin fs rnd =
  mkObs (List.concat (map warning_text (rev (p_warns ps))) ++ [ch_nl]) [diag_of_parse k t] 1 fs SDone [].
Proof. exact parse_time_rejection. Qed.
Print Assumptions C20_parse_time_rejection.

(* nothing after a run-time construct executes: the rejected run's output is the text printed before the
   construct plus the blank line that precedes every diagnostic, and that text is a prefix of what the program
   prints without the option *)
Theorem C20_run_time_rejection_output_prefix : forall lim fuel content stdin fs rnd toks b ps,
  lex true (content ++ [ch_nl]) = inl toks -> parse_program true toks = POk b ps ->
  run_file true lim fuel content stdin fs rnd = run_file false lim fuel content stdin fs rnd \/
  ((let o := run_file true lim fuel content stdin fs rnd in
    ob_exit o = 1 /\ ob_status o = SDone /\ exists d, ob_diags o = [d] /\ d_kind d = DPedantic) /\
   exists pre more, ob_out (run_file true lim fuel content stdin fs rnd) = pre ++ [ch_nl] /\
                    ob_out (run_file false lim fuel content stdin fs rnd) = pre ++ more).
Proof. exact run_time_rejection_output_prefix. Qed.
Print Assumptions C20_run_time_rejection_output_prefix.

Theorem C20_evaluator_rejection_keeps_prefix : forall repl lim fuel bl c s,
  run_block true repl lim fuel bl c s = run_block false repl lim fuel bl c s \/
  ((exists d s', run_block true repl lim fuel bl c s = (Fail (FErr d), s') /\ d_kind d = DPedantic /\ d_cls d = EOther) /\
   exists e, s_out (snd (run_block false repl lim fuel bl c s)) = e ++ s_out (snd (run_block true repl lim fuel bl c s))).
Proof. exact Lemmas_Out.run_block_ped_output_prefix. Qed.
Print Assumptions C20_evaluator_rejection_keeps_prefix.

(* the five sites *)
Theorem C20_no_break_continue_token : forall input toks,
  lex true input = inl toks -> Forall (fun t => tt t <> TBREAK /\ tt t <> TCONTINUE) toks.
Proof. exact lex_ped_no_break_continue. Qed.
Print Assumptions C20_no_break_continue_token.

Theorem C20_break_continue_rejected : forall s toks s1 w,
  word_loop (S (List.length (rest s))) s [] = (s1, w) ->
  lookup_kw w keywords = Some TBREAK \/ lookup_kw w keywords = Some TCONTINUE ->
  make_word true s toks = LErr (mkLexErr LexPedantic (line s1) (col s)).
Proof. exact break_continue_rejected. Qed.
Print Assumptions C20_break_continue_rejected.

Theorem C20_cast_rejected : forall self s, parse_cast_body true self s = PFail LexPedantic (cur s) s.
Proof. exact cast_rejected. Qed.
Print Assumptions C20_cast_rejected.

Theorem C20_else_if_rejected : forall self acc s,
  is_t s TELSE = true -> is_t (adv s) TIF = true ->
  parse_if_tail_body true self acc s = PFail LexPedantic (cur (adv s)) (adv s).
Proof. exact else_if_rejected. Qed.
Print Assumptions C20_else_if_rejected.

Theorem C20_undeclared_rejected : forall t s,
  ped_guard true t s = (Fail (FErr (mkDiag DPedantic (tline t) (tcol t) EOther [])), s).
Proof. exact undeclared_rejected. Qed.
Print Assumptions C20_undeclared_rejected.

(* non-vacuity: both alternatives of the main theorem occur *)
Example C20_break_rejected :
  (match lex true (str_of_string "WHILE TRUE
  BREAK
ENDWHILE") with inr e => match le_kind e with LexPedantic => true | _ => false end | _ => false end) = true /\
  (match lex false (str_of_string "BREAK") with inl _ => true | _ => false end) = true.
Proof. vm_compute. split; reflexivity. Qed.

Definition c20_lim : limits := mkLim 100000 1000 100000 100000.
Example C20_undeclared_assignment_runs_both_ways :
  let p := str_of_string "OUTPUT 1
x <- 2
OUTPUT x" in
  ob_exit (run_file false c20_lim 200 p [] [] []) = 0 /\
  ob_exit (run_file true c20_lim 200 p [] [] []) = 1 /\
  ob_out (run_file true c20_lim 200 p [] [] []) = str_of_string "1

".
Proof. vm_compute. repeat split; reflexivity. Qed.
