(* Lemmas_Numerals.v — decimal numerals: printing an integer and reading the digits back gives the integer,
   for every integer; used by the record codec (C13), text files (C15) and the conversions (C17). *)
From PE2 Require Import Codec.
Require Import ZifyBool Lia.
Local Open Scope Z_scope.

Definition digit_char (n : Z) : ascii := ascii_of_z (48 + n).

Lemma digit_char_spec n : 0 <= n < 10 -> is_digit (digit_char n) = true /\ digit_val (digit_char n) = n.
Proof.
  intros H. assert (C : n = 0 \/ n = 1 \/ n = 2 \/ n = 3 \/ n = 4 \/ n = 5 \/ n = 6 \/ n = 7 \/ n = 8 \/ n = 9) by lia.
  destruct C as [->|[->|[->|[->|[->|[->|[->|[->|[->| ->]]]]]]]]]; vm_compute; split; reflexivity.
Qed.

Lemma dtz_app s1 : forall s2 a, digits_to_z_aux (s1 ++ s2) a = digits_to_z_aux s2 (digits_to_z_aux s1 a).
Proof. induction s1 as [|c r IH]; intros s2 a; cbn [app digits_to_z_aux]; [reflexivity|apply IH]. Qed.

(* the printer: digits, most significant first, put in front of acc *)
Lemma pos_digits_spec : forall fuel n acc, 0 <= n < 10 ^ Z.of_nat (S fuel) ->
  exists ds, pos_digits_aux (S fuel) n acc = ds ++ acc /\ ds <> [] /\ forallb is_digit ds = true /\
             (forall a, digits_to_z_aux ds a = a * 10 ^ Z.of_nat (List.length ds) + n).
Proof.
  assert (One : forall n acc, 0 <= n < 10 ->
    exists ds, digit_char n :: acc = ds ++ acc /\ ds <> [] /\ forallb is_digit ds = true /\
               (forall a, digits_to_z_aux ds a = a * 10 ^ Z.of_nat (List.length ds) + n)).
  { intros n acc Hn. exists [digit_char n]. destruct (digit_char_spec n Hn) as [D1 D2].
    split; [reflexivity|]. split; [discriminate|]. split; [cbn; rewrite D1; reflexivity|].
    intros a. cbn [digits_to_z_aux List.length]. rewrite D2. change (Z.of_nat 1) with 1. lia. }
  induction fuel as [|f IH]; intros n acc H.
  - cbn [pos_digits_aux]. change (10 ^ Z.of_nat 1) with 10 in H. destruct (n <? 10) eqn:E; [|lia]. apply One. lia.
  - remember (S f) as g. cbn [pos_digits_aux]. destruct (n <? 10) eqn:E; [apply One; lia|].
    assert (Hq : 0 <= n / 10 < 10 ^ Z.of_nat g).
    { rewrite Nat2Z.inj_succ, Z.pow_succ_r in H by lia. split; [apply Z.div_pos; lia|]. apply Z.div_lt_upper_bound; lia. }
    subst g. destruct (IH (n / 10) (digit_char (n mod 10) :: acc) Hq) as [ds [E1 [Hn [Hd Hv]]]].
    exists (ds ++ [digit_char (n mod 10)]).
    destruct (digit_char_spec (n mod 10) ltac:(apply Z.mod_pos_bound; lia)) as [D1 D2].
    split; [unfold digit_char in *; rewrite E1, <- app_assoc; reflexivity|].
    split; [destruct ds; discriminate|].
    split; [rewrite forallb_app, Hd; cbn; rewrite D1; reflexivity|].
    intros a. rewrite dtz_app, Hv. cbn [digits_to_z_aux]. rewrite D2, app_length. cbn [List.length].
    rewrite Nat2Z.inj_add. change (Z.of_nat 1) with 1. rewrite Z.pow_add_r by lia.
    pose proof (Z.div_mod n 10 ltac:(lia)). lia.
Qed.

Lemma fuel_enough n : 0 <= n -> n < 10 ^ Z.of_nat (S (Z.to_nat (Z.log2 n + 1))).
Proof.
  intros H. rewrite Nat2Z.inj_succ, Z2Nat.id by (pose proof (Z.log2_nonneg n); lia).
  destruct (Z.eq_dec n 0) as [->|Hn]; [cbn; lia|].
  assert (Hl : n < 2 ^ (Z.log2 n + 1)) by (pose proof (Z.log2_spec n ltac:(lia)) as L; replace (Z.log2 n + 1) with (Z.succ (Z.log2 n)) by lia; lia).
  assert (Hp : 2 ^ (Z.log2 n + 1) <= 10 ^ (Z.log2 n + 1)) by (apply Z.pow_le_mono_l; pose proof (Z.log2_nonneg n); lia).
  assert (Hq : 10 ^ (Z.log2 n + 1) <= 10 ^ Z.succ (Z.log2 n + 1)) by (apply Z.pow_le_mono_r; pose proof (Z.log2_nonneg n); lia).
  lia.
Qed.

Lemma nat_digits_spec n : 0 <= n ->
  nat_digits n <> [] /\ forallb is_digit (nat_digits n) = true /\ digits_to_z (nat_digits n) = n.
Proof.
  intros H. unfold nat_digits. destruct (pos_digits_spec (Z.to_nat (Z.log2 n + 1)) n [] (conj H (fuel_enough n H))) as [ds [E [Hn [Hd Hv]]]].
  rewrite E, app_nil_r. split; [exact Hn|]. split; [exact Hd|]. unfold digits_to_z. rewrite Hv. lia.
Qed.

(* reading digits stops at the first non-digit *)
Definition no_leading_digit (s : str) : Prop := match s with c :: _ => is_digit c = false | [] => True end.

Lemma take_digits_app ds : forall acc rest, forallb is_digit ds = true -> no_leading_digit rest ->
  take_digits (ds ++ rest) acc = (rev acc ++ ds, rest).
Proof.
  induction ds as [|c r IH]; intros acc rest Hd Hr.
  - cbn [app]. rewrite app_nil_r. destruct rest as [|x t]; [reflexivity|]. cbn in Hr. cbn [take_digits]. rewrite Hr. reflexivity.
  - cbn in Hd. apply andb_true_iff in Hd. destruct Hd as [Hc Hd]. cbn [app take_digits]. rewrite Hc.
    rewrite IH by assumption. cbn [rev]. rewrite <- app_assoc. reflexivity.
Qed.

Lemma first_is_digit ds : ds <> [] -> forallb is_digit ds = true -> exists c r, ds = c :: r /\ is_digit c = true.
Proof. destruct ds as [|c r]; [congruence|]. cbn. intros _ H. apply andb_true_iff in H. exists c, r. split; [reflexivity|apply H]. Qed.

Lemma digit_not_special c : is_digit c = true -> is_cspace c = false /\ aeqb c "-" = false /\ aeqb c "+" = false.
Proof.
  intros H. unfold is_digit, is_cspace in *. cbv zeta in *.
  apply andb_true_iff in H. destruct H as [H1 H2]. apply Z.leb_le in H1. apply Z.leb_le in H2.
  split.
  - destruct (zcode c =? 32) eqn:E1; [apply Z.eqb_eq in E1; lia|]. cbn [orb].
    destruct (zcode c <=? 13) eqn:E2; [apply Z.leb_le in E2; lia|]. apply andb_false_r.
  - split; apply Ascii.eqb_neq; intros ->.
    + assert (Q : zcode "-" = 45) by reflexivity. rewrite Q in H1. lia.
    + assert (Q : zcode "+" = 43) by reflexivity. rewrite Q in H1. lia.
Qed.

Lemma rd_integer_digits lo hi ds rest : ds <> [] -> forallb is_digit ds = true -> no_leading_digit rest ->
  rd_integer lo hi (ds ++ rest) =
  (if (lo <=? digits_to_z ds) && (digits_to_z ds <=? hi) then Some (digits_to_z ds, rest) else None).
Proof.
  intros Hn Hd Hr. destruct (first_is_digit _ Hn Hd) as [c [r [Ec Hc]]]. destruct (digit_not_special c Hc) as [S1 [S2 S3]].
  subst ds. unfold rd_integer. cbn [app skip_space]. rewrite S1. cbv zeta. rewrite S2, S3.
  change (c :: r ++ rest) with ((c :: r) ++ rest). rewrite take_digits_app by assumption. reflexivity.
Qed.

(* operator>> into an integer type reads back what z_to_str printed *)
Theorem rd_integer_z_to_str lo hi z rest : lo <= z <= hi -> no_leading_digit rest ->
  rd_integer lo hi (z_to_str z ++ rest) = Some (z, rest).
Proof.
  intros Hr Hrest. unfold z_to_str. destruct (z <? 0) eqn:E.
  - destruct (nat_digits_spec (- z) ltac:(lia)) as [Hn [Hd Hv]].
    unfold rd_integer. cbn [app skip_space]. change (is_cspace "-") with false. cbv iota. change (aeqb "-" "-") with true. cbv iota.
    rewrite take_digits_app by assumption. cbn [rev app].
    destruct (nat_digits (- z)) eqn:En; [congruence|]. rewrite <- En in *. rewrite Hv.
    replace (- - z) with z by lia. destruct ((lo <=? z) && (z <=? hi)) eqn:B; [reflexivity|lia].
  - destruct (nat_digits_spec z ltac:(lia)) as [Hn [Hd Hv]].
    rewrite rd_integer_digits by assumption. rewrite Hv.
    destruct ((lo <=? z) && (z <=? hi)) eqn:B; [reflexivity|lia].
Qed.

(* with blanks in front, as between the fields of a record *)
Theorem rd_integer_after_blank lo hi z rest : lo <= z <= hi -> no_leading_digit rest ->
  rd_integer lo hi (sp ++ z_to_str z ++ rest) = Some (z, rest).
Proof.
  intros Hr Hrest. rewrite <- (rd_integer_z_to_str lo hi z rest Hr Hrest). unfold rd_integer. reflexivity.
Qed.

(* ---- whole fields of the record codec ---- *)
Ltac lit_str := repeat match goal with |- context [str_of_string ?x] => let v := eval vm_compute in (str_of_string x) in change (str_of_string x) with v end.

Lemma expect_tag_integer x : expect_tag "INTEGER" (str_of_string "INTEGER " ++ x) = Some (sp ++ x).
Proof. reflexivity. Qed.
Lemma expect_tag_boolean x : expect_tag "BOOLEAN" (str_of_string "BOOLEAN " ++ x) = Some (sp ++ x).
Proof. reflexivity. Qed.
Lemma expect_tag_date x : expect_tag "DATE" (str_of_string "DATE " ++ x) = Some (sp ++ x).
Proof. reflexivity. Qed.
Lemma expect_tag_enum x : expect_tag "ENUM" (str_of_string "ENUM " ++ x) = Some (sp ++ x).
Proof. reflexivity. Qed.

Theorem int_field_roundtrip z rest old : int64_min <= z <= int64_max -> no_leading_digit rest ->
  load (VInt old) (str_of_string "INTEGER " ++ z_to_str z ++ rest) = (VInt z, rest, true).
Proof.
  intros Hz Hr. cbn [load]. rewrite expect_tag_integer. unfold rd_long. rewrite rd_integer_after_blank by assumption. reflexivity.
Qed.

Theorem date_field_roundtrip d m y rest old : 0 <= d <= 255 -> 0 <= m <= 255 -> -32768 <= y <= 32767 -> no_leading_digit rest ->
  load (VDate (fst (fst old)) (snd (fst old)) (snd old))
       (str_of_string "DATE " ++ z_to_str d ++ sp ++ z_to_str m ++ sp ++ z_to_str y ++ rest) = (VDate d m y, rest, true).
Proof.
  intros Hd Hm Hy Hr. cbn [load]. rewrite expect_tag_date. unfold rd_uint, rd_int.
  rewrite rd_integer_after_blank; [|lia|reflexivity].
  rewrite rd_integer_after_blank; [|lia|reflexivity].
  rewrite rd_integer_after_blank; [|lia|exact Hr].
  unfold narrow_u8, narrow_i16. rewrite !Z.mod_small by lia. replace (y + 32768 - 32768) with y by lia. reflexivity.
Qed.

Definition word_end (s : str) : Prop := match s with c :: _ => is_cspace c = true | [] => True end.
Definition no_space (w : str) : bool := forallb (fun c => negb (is_cspace c)) w.

Lemma take_word_app w : forall acc rest, no_space w = true -> word_end rest -> take_word (w ++ rest) acc = (rev acc ++ w, rest).
Proof.
  induction w as [|c r IH]; intros acc rest Hw Hr.
  - cbn [app]. rewrite app_nil_r. destruct rest as [|x t]; [reflexivity|]. cbn in Hr. cbn [take_word]. rewrite Hr. reflexivity.
  - cbn in Hw. apply andb_true_iff in Hw. destruct Hw as [Hc Hw]. apply negb_true_iff in Hc. cbn [app take_word]. rewrite Hc.
    rewrite IH by assumption. cbn [rev]. rewrite <- app_assoc. reflexivity.
Qed.

Lemma rd_word_after_blank w rest : w <> [] -> no_space w = true -> word_end rest -> rd_word (sp ++ w ++ rest) = Some (w, rest).
Proof.
  intros Hn Hw Hr. unfold rd_word. destruct w as [|c r]; [congruence|].
  assert (Hc : is_cspace c = false) by (cbn in Hw; apply andb_true_iff in Hw; destruct Hw as [H _]; apply negb_true_iff in H; exact H).
  cbn [sp app skip_space]. change (is_cspace ch_space) with true. cbv iota. rewrite Hc.
  change (c :: r ++ rest) with ((c :: r) ++ rest). rewrite take_word_app by assumption. reflexivity.
Qed.

Theorem bool_field_roundtrip (b : bool) rest old : word_end rest ->
  load (VBool old) (str_of_string (if b then "BOOLEAN TRUE"%string else "BOOLEAN FALSE"%string) ++ rest) = (VBool b, rest, true).
Proof.
  intros Hr. destruct b.
  - change (str_of_string "BOOLEAN TRUE") with (str_of_string "BOOLEAN " ++ str_of_string "TRUE"). rewrite <- app_assoc.
    cbn [load]. rewrite expect_tag_boolean. rewrite rd_word_after_blank; [reflexivity|discriminate|reflexivity|exact Hr].
  - change (str_of_string "BOOLEAN FALSE") with (str_of_string "BOOLEAN " ++ str_of_string "FALSE"). rewrite <- app_assoc.
    cbn [load]. rewrite expect_tag_boolean. rewrite rd_word_after_blank; [reflexivity|discriminate|reflexivity|exact Hr].
Qed.

Theorem enum_field_roundtrip tn size idx old rest : tn <> [] -> no_space tn = true -> 0 <= idx < size -> size <= two64 -> no_leading_digit rest ->
  load (VEnum tn size old) (str_of_string "ENUM " ++ tn ++ sp ++ z_to_str idx ++ rest) = (VEnum tn size idx, rest, true).
Proof.
  intros Hn Hs Hi Hsz Hr. cbn [load]. rewrite expect_tag_enum.
  rewrite rd_word_after_blank; [|exact Hn|exact Hs|reflexivity]. rewrite str_eqb_refl.
  unfold rd_size. rewrite rd_integer_after_blank; [|unfold two64 in *; lia|exact Hr].
  destruct (idx <? size) eqn:E; [reflexivity|lia].
Qed.

(* a STRING field, with its length prefix *)
Lemma expect_tag_string x : expect_tag "STRING" (str_of_string "STRING " ++ x) = Some (sp ++ x).
Proof. reflexivity. Qed.

Lemma digits_no_space ds : forallb is_digit ds = true -> no_space ds = true.
Proof.
  induction ds as [|c r IH]; [reflexivity|]. cbn. intros H. apply andb_true_iff in H. destruct H as [Hc Hr].
  destruct (digit_not_special c Hc) as [S1 _]. rewrite S1. cbn. apply IH. exact Hr.
Qed.

From PE2 Require Import Lemmas_Codec.

Theorem string_field_roundtrip s rest old : slen' (mark_newlines s) < two64 ->
  load (VStr old) (str_of_string "STRING " ++ z_to_str (slen' (mark_newlines s)) ++ sp ++ mark_newlines s ++ rest) = (VStr s, rest, true).
Proof.
  intros Hlen. set (m := mark_newlines s) in *. set (n := slen' m) in *.
  assert (Hn0 : 0 <= n) by (unfold n, slen'; lia).
  destruct (nat_digits_spec n Hn0) as [Hne [Hd Hv]].
  assert (Hz : z_to_str n = nat_digits n) by (unfold z_to_str; destruct (n <? 0) eqn:E; [lia|reflexivity]).
  cbn [load]. rewrite expect_tag_string. rewrite Hz.
  rewrite rd_word_after_blank; [|exact Hne|apply digits_no_space; exact Hd|reflexivity].
  rewrite Hd, Hv. destruct (n <? two64) eqn:E; [|lia]. cbn [andb sp app].
  assert (Hle : (n <=? slen' (m ++ rest)) = true) by (apply Z.leb_le; unfold n, slen'; rewrite app_length; lia).
  rewrite Hle. replace (Z.to_nat n) with (List.length m) by (unfold n, slen'; lia).
  unfold m. rewrite string_payload_roundtrip. reflexivity.
Qed.

(* ---- STRING -> INTEGER conversion (String::toInteger: INTEGER("..."), INPUT into an INTEGER) ---- *)
Lemma digit_not_nul c : is_digit c = true -> aeqb c ch_nul = false.
Proof.
  intros H. unfold is_digit in H. cbv zeta in H. apply andb_true_iff in H. destruct H as [H1 _]. apply Z.leb_le in H1.
  apply Ascii.eqb_neq. intros ->. assert (Q : zcode ch_nul = 0) by reflexivity. rewrite Q in H1. lia.
Qed.
Lemma cstr_digits ds : forallb is_digit ds = true -> cstr ds = ds.
Proof.
  induction ds as [|c r IH]; [reflexivity|]. cbn [cstr forallb]. intros H. apply andb_true_iff in H. destruct H as [Hc Hr].
  rewrite (digit_not_nul c Hc). f_equal. apply IH. exact Hr.
Qed.

Definition clamp64 (v : Z) : Z := if v <? int64_min then int64_min else if int64_max <? v then int64_max else v.

(* every non-empty string of decimal digits converts to the number it denotes (saturating at the 64-bit range) *)
Theorem string_to_int_digits ds : ds <> [] -> forallb is_digit ds = true -> string_to_int ds = clamp64 (digits_to_z ds).
Proof.
  intros Hn Hd. destruct (first_is_digit _ Hn Hd) as [c [r [Ec Hc]]]. destruct (digit_not_special c Hc) as [S1 [S2 S3]].
  unfold string_to_int. rewrite cstr_digits by exact Hd. subst ds. cbn [skip_space]. rewrite S1. cbv zeta. rewrite S2, S3.
  rewrite <- (app_nil_r (c :: r)) at 1. rewrite take_digits_app; [|exact Hd|exact I]. cbn [rev app]. reflexivity.
Qed.

Theorem string_to_int_z_to_str z : int64_min <= z <= int64_max -> string_to_int (z_to_str z) = z.
Proof.
  intros Hz. unfold z_to_str. destruct (z <? 0) eqn:E.
  - destruct (nat_digits_spec (- z) ltac:(lia)) as [Hn [Hd Hv]].
    unfold string_to_int. assert (Hc : cstr ("-"%char :: nat_digits (- z)) = "-"%char :: nat_digits (- z)).
    { cbn [cstr]. change (aeqb "-" ch_nul) with false. cbv iota. rewrite cstr_digits by exact Hd. reflexivity. }
    rewrite Hc. cbn [skip_space]. change (is_cspace "-") with false. cbv iota zeta. change (aeqb "-" "-") with true. cbv iota.
    rewrite <- (app_nil_r (nat_digits (- z))). rewrite take_digits_app; [|exact Hd|exact I]. cbn [rev app].
    destruct (nat_digits (- z)) eqn:En; [congruence|]. rewrite <- En in *. rewrite Hv.
    replace (- - z) with z by lia. destruct (z <? int64_min) eqn:B1; [lia|]. destruct (int64_max <? z) eqn:B2; [lia|]. reflexivity.
  - destruct (nat_digits_spec z ltac:(lia)) as [Hn [Hd Hv]].
    rewrite string_to_int_digits by assumption. rewrite Hv. unfold clamp64.
    destruct (z <? int64_min) eqn:B1; [lia|]. destruct (int64_max <? z) eqn:B2; [lia|]. reflexivity.
Qed.
