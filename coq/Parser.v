(* Parser.v — model of src/parser/*.cpp: tokens -> AST, one Gallina function per C++ parse
   function, same order of tests, same offending token on error.  Recursion is on fuel
   (each call passes a smaller fuel); fuel exhaustion is the distinct result PFuel. *)
From PE2 Require Export Ast Real.
Local Open Scope Z_scope.

Record pst := mkPst { p_toks : list token; p_warns : list (Z * Z) }.   (* warnings: most recent first *)

Inductive pres (A : Type) :=
 | POk (a : A) (s : pst)
 | PFail (k : lexkind) (t : token) (s : pst)
 | PFuel.
Arguments POk {A}. Arguments PFail {A}. Arguments PFuel {A}.

Definition P (A : Type) := pst -> pres A.

Definition eof_tok : token := mkTok TEXPRESSION_END 0 0 [].
Definition cur (s : pst) : token := hd eof_tok (p_toks s).
Definition adv (s : pst) : pst :=
  match p_toks s with
  | _ :: ((_ :: _) as r) => mkPst r (p_warns s)
  | _ => s
  end.
Definition next_is (s : pst) (n : nat) (ty : ttype) : bool :=
  match nth_error (p_toks s) n with Some t => tt_eqb (tt t) ty | None => false end.
Definition is_t (s : pst) (ty : ttype) : bool := tt_eqb (tt (cur s)) ty.

Definition pbind {A B} (m : P A) (k : A -> P B) : P B :=
  fun s => match m s with POk a s' => k a s' | PFail kd t s' => PFail kd t s' | PFuel => PFuel end.
Definition pret {A} (a : A) : P A := fun s => POk a s.
Definition perr {A} : P A := fun s => PFail LexSyntax (cur s) s.          (* error at the current token *)
Definition perr_at {A} (t : token) : P A := fun s => PFail LexSyntax t s.
Definition pped {A} (t : token) : P A := fun s => PFail LexPedantic t s.
Definition padv : P unit := fun s => POk Datatypes.tt (adv s).
Definition pcur : P token := fun s => POk (cur s) s.
Definition pfuel {A} : P A := fun _ => PFuel.

Notation "x <- m ;; k" := (pbind m (fun x => k)) (at level 61, m at next level, right associativity).
Notation "m ;;; k" := (pbind m (fun _ => k)) (at level 61, right associativity).

Definition expect (ty : ttype) : P unit := fun s => if is_t s ty then POk Datatypes.tt (adv s) else PFail LexSyntax (cur s) s.
Definition pis (ty : ttype) : P bool := fun s => POk (is_t s ty) s.

Fixpoint skip_line_ends (n : nat) : P unit :=
  fun s => match n with
           | O => POk Datatypes.tt s
           | S k => if is_t s TLINE_END then skip_line_ends k (adv s) else POk Datatypes.tt s
           end.
Definition skip_nl : P unit := fun s => skip_line_ends (List.length (p_toks s)) s.

(* left-associative operator loop shared by the five binary levels *)
Fixpoint binloop (n : nat) (isop : ttype -> bool) (sub : P node) (mk : token -> node -> node -> node)
         (left : node) : P node :=
  fun s => match n with
           | O => PFuel
           | S k =>
             let t := cur s in
             if isop (tt t) then
               match sub (adv s) with
               | POk r s' => binloop k isop sub mk (mk t left r) s'
               | PFail kd t' s' => PFail kd t' s'
               | PFuel => PFuel
               end
             else POk left s
           end.

Definition op_eq (t : ttype) := match t with TEQUALS | TNOT_EQUALS => true | _ => false end.
Definition op_logic (t : ttype) := match t with TAND | TOR => true | _ => false end.
Definition op_cmp (t : ttype) :=
  match t with TEQUALS | TNOT_EQUALS | TGREATER | TLESSER | TGREATER_EQUAL | TLESSER_EQUAL => true | _ => false end.
Definition op_cat (t : ttype) := match t with TAMPERSAND => true | _ => false end.
Definition op_add (t : ttype) := match t with TPLUS | TMINUS => true | _ => false end.
Definition op_mul (t : ttype) := match t with TSTAR | TSLASH | TDIV | TMOD => true | _ => false end.

(* literal constructors that can throw at parse time *)
Definition int_literal_ok (t : token) : bool := digits_to_z (tval t) <=? int64_max.
Definition real_literal_ok (t : token) : bool := match stod_literal (tval t) with Some _ => true | None => false end.

Definition is_type_tok (s : pst) : bool := is_t s TDATA_TYPE || is_t s TIDENTIFIER.

Definition block_terminator (t : ttype) : bool :=
  match t with
  | TEXPRESSION_END | TENDIF | TOTHERWISE | TENDCASE | TELSE | TENDWHILE | TUNTIL | TNEXT
  | TENDPROCEDURE | TENDFUNCTION => true
  | _ => false
  end.

(* CASE-block look-ahead: a ':' later on the current line (starting at offset 1) *)
Fixpoint colon_on_line (l : list token) : bool :=
  match l with
  | t :: r => if tt_eqb (tt t) TCOLON then true else if tt_eqb (tt t) TLINE_END then false else colon_on_line r
  | [] => false
  end.

Inductive btype := BMain | BCase | BOther.

(* parameter-list accumulator of parseProcedure / parseFunction *)
Record pacc := mkPacc { pa_names : list str; pa_types : list token; pa_pass : list bool;
                        pa_byref : bool; pa_tc : nat; pa_pc : nat }.

Definition literal_node (s : pst) : option (pres node) :=
  let t := cur s in
  match tt t with
  | TINTEGER => Some (if int_literal_ok t then POk (NInt t) (adv s) else PFail LexSyntax t s)
  | TREAL => Some (if real_literal_ok t then POk (NReal t) (adv s) else PFail LexSyntax t s)
  | TTRUE | TFALSE => Some (POk (NBool t) (adv s))
  | TCHAR => Some (POk (NChar t) (adv s))
  | TSTRING => Some (POk (NStr t) (adv s))
  | _ => None
  end.

Section Parser.
Variable pedantic : bool.

Fixpoint parse_eval (fuel : nat) : P node :=
  match fuel with O => pfuel | S f =>
    l <- parse_logical f ;; binloop f op_eq (parse_logical f) NCmp l
  end
with parse_logical (fuel : nat) : P node :=
  match fuel with O => pfuel | S f =>
    l <- parse_comparison f ;; binloop f op_logic (parse_comparison f) NLogic l
  end
with parse_comparison (fuel : nat) : P node :=
  match fuel with O => pfuel | S f =>
    fun s => if is_t s TNOT then (let t := cur s in (padv ;;; e <- parse_comparison f ;; pret (NNot t e)) s)
             else (l <- parse_strexpr f ;; binloop f op_cmp (parse_strexpr f) NCmp l) s
  end
with parse_strexpr (fuel : nat) : P node :=
  match fuel with O => pfuel | S f =>
    l <- parse_arith f ;; binloop f op_cat (parse_arith f) NCat l
  end
with parse_arith (fuel : nat) : P node :=
  match fuel with O => pfuel | S f =>
    l <- parse_term f ;; binloop f op_add (parse_term f) NArith l
  end
with parse_term (fuel : nat) : P node :=
  match fuel with O => pfuel | S f =>
    l <- parse_factor f ;; binloop f op_mul (parse_factor f) NArith l
  end
with parse_factor (fuel : nat) : P node :=
  match fuel with O => pfuel | S f =>
    fun s => if is_t s TMINUS then (let t := cur s in (padv ;;; a <- parse_atom f ;; pret (NNeg t a)) s)
             else parse_atom f s
  end
with parse_atom (fuel : nat) : P node :=
  match fuel with O => pfuel | S f =>
    fun s =>
      let t := cur s in
      match literal_node s with
      | Some r => r
      | None =>
        match tt t with
        | TDATE => POk (NDate t) (adv s)
        | TIDENTIFIER =>
          if next_is s 1 TLPAREN then parse_fncall f s
          else
            (r <- parse_resolver f ;;
             fun s1 =>
               if is_t s1 TASSIGNMENT then
                 let at_ := cur s1 in
                 let s2 := adv s1 in
                 if is_t s2 TCARET then
                   let rt := cur s2 in
                   let s3 := adv s2 in
                   if is_t s3 TIDENTIFIER then (v <- parse_resolver f ;; pret (NPtrAssign rt r v)) s3
                   else perr s3
                 else (e <- parse_eval f ;; pret (NAssign at_ e r)) s2
               else POk (NAccess t r) s1) s
        | TLPAREN =>
          (padv ;;; e <- parse_eval f ;; expect TRPAREN ;;; pret e) s
        | TDATA_TYPE => parse_cast f s
        | TMOD | TDIV => if next_is s 1 TLPAREN then parse_moddiv f s else perr s
        | _ => perr s
        end
      end
  end
with parse_moddiv (fuel : nat) : P node :=
  match fuel with O => pfuel | S f =>
    t <- pcur ;; padv ;;; padv ;;;
    a <- parse_eval f ;; expect TCOMMA ;;; b <- parse_eval f ;; expect TRPAREN ;;; pret (NArith t a b)
  end
with parse_cast (fuel : nat) : P node :=
  match fuel with O => pfuel | S f =>
    t <- pcur ;;
    if pedantic then pped t
    else match psc_type_of_word (tval t) with
         | None => perr                           (* unreachable: DATA_TYPE tokens carry one of the six words *)
         | Some k => padv ;;; expect TLPAREN ;;; e <- parse_eval f ;; expect TRPAREN ;;; pret (NCast t e k)
         end
  end
with parse_args (fuel : nat) (acc : list node) : P (list node) :=      (* after the first argument *)
  match fuel with O => pfuel | S f =>
    fun s => if is_t s TCOMMA then (padv ;;; e <- parse_eval f ;; parse_args f (e :: acc)) s
             else (expect TRPAREN ;;; pret (rev acc)) s
  end
with parse_arglist (fuel : nat) : P (list node) :=                      (* current token follows '(' *)
  match fuel with O => pfuel | S f =>
    fun s => if is_t s TRPAREN then POk [] (adv s)
             else (e <- parse_eval f ;; parse_args f [e]) s
  end
with parse_fncall (fuel : nat) : P node :=
  match fuel with O => pfuel | S f =>
    t <- pcur ;; padv ;;; padv ;;; args <- parse_arglist f ;; pret (NFnCall t args)
  end
with parse_indices (fuel : nat) (acc : list node) : P (list node) :=
  match fuel with O => pfuel | S f =>
    e <- parse_arith f ;;
    fun s => if is_t s TCOMMA then parse_indices f (e :: acc) (adv s)
             else (expect TRSQRBRACKET ;;; pret (rev (e :: acc))) s
  end
with parse_resolver_tail (fuel : nat) (r : resolver) : P resolver :=
  match fuel with O => pfuel | S f =>
    fun s =>
      let t := cur s in
      match tt t with
      | TPERIOD => let s1 := adv s in parse_resolver_tail f (RField t r (cur s1)) (adv s1)
      | TCARET => parse_resolver_tail f (RDeref t r) (adv s)
      | TLSQRBRACKET => (idx <- parse_indices f [] ;; parse_resolver_tail f (RIndex t r idx)) (adv s)
      | _ => POk r s
      end
  end
with parse_resolver (fuel : nat) : P resolver :=
  match fuel with O => pfuel | S f =>
    t <- pcur ;; padv ;;; parse_resolver_tail f (RSimple t)
  end
(* ---------------- statements ---------------- *)
with parse_ids (fuel : nat) (acc : list token) : P (list token) :=
  match fuel with O => pfuel | S f =>
    fun s => if is_t s TIDENTIFIER then
               let t := cur s in let s1 := adv s in
               if is_t s1 TCOMMA then parse_ids f (t :: acc) (adv s1) else POk (rev (t :: acc)) s1
             else perr s
  end
with parse_bounds (fuel : nat) (acc : list node) : P (list node) :=
  match fuel with O => pfuel | S f =>
    lo <- parse_arith f ;; expect TCOLON ;;; hi <- parse_arith f ;;
    fun s => if is_t s TCOMMA then parse_bounds f (hi :: lo :: acc) (adv s)
             else POk (rev (hi :: lo :: acc)) s
  end
with parse_declare (fuel : nat) : P node :=
  match fuel with O => pfuel | S f =>
    op <- pcur ;; padv ;;; ids <- parse_ids f [] ;; expect TCOLON ;;;
    fun s =>
      if is_t s TARRAY then
        (padv ;;; expect TLSQRBRACKET ;;; bs <- parse_bounds f [] ;; expect TRSQRBRACKET ;;; expect TOF ;;;
         fun s1 => if is_type_tok s1 then POk (NArrDeclare op ids (cur s1) bs) (adv s1) else perr s1) s
      else if is_type_tok s then POk (NDeclare op ids (cur s)) (adv s)
      else perr s
  end
with parse_const (fuel : nat) : P node :=
  match fuel with O => pfuel | S f =>
    op <- pcur ;; padv ;;;
    fun s =>
      if negb (is_t s TIDENTIFIER) then perr s else
      let id := cur s in let s1 := adv s in
      if negb (is_t s1 TEQUALS || is_t s1 TASSIGNMENT) then perr s1 else
      let s2 := adv s1 in
      let mt := cur s2 in
      let neg := is_t s2 TMINUS in
      let s3 := if neg then adv s2 else s2 in
      match literal_node s3 with
      | Some (POk v s4) => POk (NConst op (if neg then NNeg mt v else v) id) s4
      | Some (PFail k t s4) => PFail k t s4
      | Some PFuel => PFuel
      | None => perr s3
      end
  end
with parse_enum_vals (fuel : nat) (acc : list str) : P (list str) :=
  match fuel with O => pfuel | S f =>
    fun s => if negb (is_t s TIDENTIFIER) then perr s else
             let v := tval (cur s) in let s1 := adv s in
             if is_t s1 TCOMMA then parse_enum_vals f (v :: acc) (adv s1)
             else if is_t s1 TRPAREN then POk (rev (v :: acc)) (adv s1)
             else perr s1
  end
with parse_comp_body (fuel : nat) (acc : list node) : P (list node) :=
  match fuel with O => pfuel | S f =>
    fun s => if is_t s TDECLARE then
               (d <- parse_declare f ;; expect TLINE_END ;;; skip_nl ;;; parse_comp_body f (d :: acc)) s
             else (expect TENDTYPE ;;; pret (rev acc)) s
  end
with parse_type (fuel : nat) : P node :=
  match fuel with O => pfuel | S f =>
    t <- pcur ;; padv ;;; skip_nl ;;;
    fun s =>
      if negb (is_t s TIDENTIFIER) then perr s else
      let id := cur s in let s1 := adv s in
      if negb (is_t s1 TEQUALS) then
        if negb (is_t s1 TLINE_END) then perr s1
        else (skip_nl ;;; body <- parse_comp_body f [] ;; pret (NCompDef t id body)) (adv s1)
      else
        let s2 := adv s1 in
        if is_t s2 TCARET then
          let s3 := adv s2 in
          if is_type_tok s3 then POk (NPtrDef t id (cur s3)) (adv s3) else perr s3
        else if is_t s2 TLPAREN then (vs <- parse_enum_vals f [] ;; pret (NEnumDef t id vs)) (adv s2)
        else perr s2
  end
with parse_if_tail (fuel : nat) (acc : list (option node * list node)) : P (list (option node * list node)) :=
  match fuel with O => pfuel | S f =>
    fun s =>
      if is_t s TELSE then
        let s1 := adv s in
        if is_t s1 TIF then
          if pedantic then PFail LexPedantic (cur s1) s1
          else (c <- parse_eval f ;; skip_nl ;;; expect TTHEN ;;; b <- parse_block f BOther ;;
                parse_if_tail f ((Some c, b) :: acc)) (adv s1)
        else (b <- parse_block f BOther ;; expect TENDIF ;;; pret (rev ((None, b) :: acc))) s1
      else (expect TENDIF ;;; pret (rev acc)) s
  end
with parse_if (fuel : nat) : P node :=
  match fuel with O => pfuel | S f =>
    t <- pcur ;; padv ;;; c <- parse_eval f ;; skip_nl ;;; expect TTHEN ;;; b <- parse_block f BOther ;;
    comps <- parse_if_tail f [(Some c, b)] ;; pret (NIf t comps)
  end
with parse_case_clauses (fuel : nat) (acc : list casecomp) : P (list casecomp) :=
  match fuel with O => pfuel | S f =>
    fun s =>
      if is_t s TENDCASE then POk (rev acc) (adv s)
      else if is_t s TOTHERWISE then
        (padv ;;; expect TCOLON ;;; b <- parse_block f BCase ;; expect TENDCASE ;;; pret (rev (COther b :: acc))) s
      else
        (e <- parse_eval f ;;
         fun s1 =>
           if is_t s1 TTO then
             (padv ;;; hi <- parse_eval f ;; expect TCOLON ;;; b <- parse_block f BCase ;;
              parse_case_clauses f (CRange b e hi :: acc)) s1
           else (expect TCOLON ;;; b <- parse_block f BCase ;; parse_case_clauses f (CEq b e :: acc)) s1) s
  end
with parse_case (fuel : nat) : P node :=
  match fuel with O => pfuel | S f =>
    t <- pcur ;; padv ;;; expect TOF ;;;
    fun s => if negb (is_t s TIDENTIFIER) then perr s else
             let id := cur s in
             (padv ;;; skip_nl ;;; cs <- parse_case_clauses f [] ;; pret (NCase t (NAccess id (RSimple id)) cs)) s
  end
with parse_while (fuel : nat) : P node :=
  match fuel with O => pfuel | S f =>
    t <- pcur ;; padv ;;; c <- parse_eval f ;; skip_nl ;;;
    (fun s => POk Datatypes.tt (if is_t s TDO then adv s else s)) ;;;
    b <- parse_block f BOther ;; expect TENDWHILE ;;; pret (NWhile t c b)
  end
with parse_repeat (fuel : nat) : P node :=
  match fuel with O => pfuel | S f =>
    t <- pcur ;; padv ;;; b <- parse_block f BOther ;; expect TUNTIL ;;; c <- parse_eval f ;; pret (NRepeat t c b)
  end
with parse_for (fuel : nat) : P node :=
  match fuel with O => pfuel | S f =>
    t <- pcur ;; padv ;;;
    fun s =>
      if negb (is_t s TIDENTIFIER) then perr s else
      let it := cur s in
      (padv ;;; expect TASSIGNMENT ;;; a <- parse_arith f ;; expect TTO ;;; b <- parse_arith f ;;
       st <- (fun s1 => if is_t s1 TSTEP then (padv ;;; e <- parse_arith f ;; pret (Some e)) s1 else POk None s1) ;;
       body <- parse_block f BOther ;; expect TNEXT ;;;
       fun s2 =>
         if is_t s2 TIDENTIFIER then
           if str_eqb (tval (cur s2)) (tval it) then POk (NFor t it a b st body) (adv s2) else perr s2
         else POk (NFor t it a b st body) s2) s
  end
with parse_params (fuel : nat) (a : pacc) : P pacc :=
  match fuel with O => pfuel | S f =>
    fun s =>
      if is_t s TRPAREN then
        if negb (Nat.eqb (pa_tc a) 1) then perr s
        else POk (mkPacc (pa_names a) (pa_types a) (pa_pass a ++ replicate (pa_pc a) (pa_byref a))
                         (pa_byref a) (pa_tc a) (pa_pc a)) (adv s)
      else
        let comma_ok := match pa_names a with [] => Some s | _ => if is_t s TCOMMA then Some (adv s) else None end in
        match comma_ok with
        | None => perr s
        | Some s1 =>
          let '(a1, s2) :=
            if is_t s1 TBYREF || is_t s1 TBYVAL then
              let cur_is_ref := is_t s1 TBYREF in
              if negb (Bool.eqb cur_is_ref (pa_byref a))
              then (mkPacc (pa_names a) (pa_types a) (pa_pass a ++ replicate (pa_pc a) (pa_byref a))
                           (negb (pa_byref a)) (pa_tc a) 1, adv s1)
              else (mkPacc (pa_names a) (pa_types a) (pa_pass a) (pa_byref a) (pa_tc a) (S (pa_pc a)), adv s1)
            else (mkPacc (pa_names a) (pa_types a) (pa_pass a) (pa_byref a) (pa_tc a) (S (pa_pc a)), s1) in
          if negb (is_t s2 TIDENTIFIER) then perr s2 else
          let nm := tval (cur s2) in
          let s3 := adv s2 in
          if is_t s3 TCOLON then
            let s4 := adv s3 in
            if negb (is_type_tok s4) then perr s4 else
            let ty := cur s4 in
            parse_params f (mkPacc (pa_names a1 ++ [nm]) (pa_types a1 ++ replicate (pa_tc a1) ty) (pa_pass a1)
                                   (pa_byref a1) 1 (pa_pc a1)) (adv s4)
          else if is_t s3 TCOMMA then
            parse_params f (mkPacc (pa_names a1 ++ [nm]) (pa_types a1) (pa_pass a1) (pa_byref a1) (S (pa_tc a1)) (pa_pc a1)) s3
          else perr s3
        end
  end
with parse_paramlist (fuel : nat) : P (list (str * token * bool)) :=
  match fuel with O => pfuel | S f =>
    fun s =>
      if is_t s TLPAREN then
        (a <- parse_params f (mkPacc [] [] [] false 1 0) ;;
         pret (combine (combine (pa_names a) (pa_types a)) (pa_pass a))) (adv s)
      else POk [] s
  end
with parse_procedure (fuel : nat) : P node :=
  match fuel with O => pfuel | S f =>
    t <- pcur ;; padv ;;;
    fun s => if negb (is_t s TIDENTIFIER) then perr s else
             let nm := tval (cur s) in
             (padv ;;; ps <- parse_paramlist f ;; b <- parse_block f BOther ;; expect TENDPROCEDURE ;;;
              pret (NProc t nm ps b)) s
  end
with parse_function (fuel : nat) : P node :=
  match fuel with O => pfuel | S f =>
    t <- pcur ;; padv ;;;
    fun s => if negb (is_t s TIDENTIFIER) then perr s else
             let nm := tval (cur s) in
             (padv ;;; ps <- parse_paramlist f ;; skip_nl ;;; expect TRETURNS ;;;
              fun s1 => if negb (is_type_tok s1) then perr s1 else
                        let rt := cur s1 in
                        (padv ;;; b <- parse_block f BOther ;; expect TENDFUNCTION ;;; pret (NFunc t nm ps b rt)) s1) s
  end
with parse_call (fuel : nat) : P node :=
  match fuel with O => pfuel | S f =>
    t <- pcur ;; padv ;;;
    fun s => if negb (is_t s TIDENTIFIER) then perr s else
             let nm := tval (cur s) in
             let s1 := adv s in
             if is_t s1 TLPAREN then (args <- parse_arglist f ;; pret (NCall t nm args)) (adv s1)
             else POk (NCall t nm []) s1
  end
with parse_output_tail (fuel : nat) (acc : list node) : P (list node) :=
  match fuel with O => pfuel | S f =>
    fun s => if is_t s TCOMMA then (padv ;;; e <- parse_eval f ;; parse_output_tail f (e :: acc)) s
             else POk (rev acc) s
  end
with parse_statement (fuel : nat) : P node :=          (* Parser::parseExpression *)
  match fuel with O => pfuel | S f =>
    fun s =>
      let t := cur s in
      match tt t with
      | TDECLARE => parse_declare f s
      | TCONSTANT => parse_const f s
      | TTYPE => parse_type f s
      | TIF => parse_if f s
      | TCASE => parse_case f s
      | TWHILE => parse_while f s
      | TREPEAT => parse_repeat f s
      | TFOR => parse_for f s
      | TCALL => parse_call f s
      | TOUTPUT => (padv ;;; e <- parse_eval f ;; es <- parse_output_tail f [e] ;; pret (NOutput t es)) s
      | TREAD | TINPUT =>
        (padv ;;; fun s1 => if is_t s1 TIDENTIFIER then (r <- parse_resolver f ;; pret (NInput t r)) s1 else perr s1) s
      | TOPENFILE =>
        (padv ;;; fn <- parse_strexpr f ;; expect TFOR ;;;
         fun s1 => match tt (cur s1) with
                   | TREAD => POk (NOpenFile t fn FRead) (adv s1)
                   | TWRITE => POk (NOpenFile t fn FWrite) (adv s1)
                   | TAPPEND => POk (NOpenFile t fn FAppend) (adv s1)
                   | TRANDOM => POk (NOpenFile t fn FRandom) (adv s1)
                   | _ => perr s1
                   end) s
      | TREADFILE =>
        (padv ;;; fn <- parse_strexpr f ;; expect TCOMMA ;;;
         fun s1 => if is_t s1 TIDENTIFIER then POk (NReadFile t fn (cur s1)) (adv s1) else perr s1) s
      | TWRITEFILE => (padv ;;; fn <- parse_strexpr f ;; expect TCOMMA ;;; d <- parse_eval f ;; pret (NWriteFile t fn d)) s
      | TCLOSEFILE => (padv ;;; fn <- parse_strexpr f ;; pret (NCloseFile t fn)) s
      | TSEEK => (padv ;;; fn <- parse_strexpr f ;; expect TCOMMA ;;; a <- parse_eval f ;; pret (NSeek t fn a)) s
      | TGETRECORD =>
        (padv ;;; fn <- parse_strexpr f ;; expect TCOMMA ;;;
         fun s1 => if is_t s1 TIDENTIFIER then POk (NGetRecord t fn (cur s1)) (adv s1) else perr s1) s
      | TPUTRECORD =>
        (padv ;;; fn <- parse_strexpr f ;; expect TCOMMA ;;;
         fun s1 => if is_t s1 TIDENTIFIER then POk (NPutRecord t fn (cur s1)) (adv s1) else perr s1) s
      | TRETURN => (padv ;;; e <- parse_eval f ;; pret (NReturn t e)) s
      | TBREAK => POk (NBreak t) (adv s)
      | TCONTINUE => POk (NContinue t) (adv s)
      | _ => parse_eval f s
      end
  end
with parse_block_loop (fuel : nat) (bt : btype) (acc : list node) : P (list node) :=
  match fuel with O => pfuel | S f =>
    skip_nl ;;;
    fun s =>
      let t := cur s in
      if block_terminator (tt t) then POk (rev acc) s
      else if (match bt with BCase => negb (is_t s TDECLARE) && colon_on_line (tl (p_toks s)) | _ => false end)
      then POk (rev acc) s
      else
        let pn : P node :=
          match tt t with
          | TPROCEDURE => match bt with BMain => parse_procedure f | _ => perr end
          | TFUNCTION => match bt with BMain => parse_function f | _ => perr end
          | _ =>
            n <- parse_statement f ;;
            fun s1 => match n with
                      | NCmp ct (NAccess _ _) _ => POk n (mkPst (p_toks s1) ((tline ct, tcol ct) :: p_warns s1))
                      | _ => POk n s1
                      end
          end in
        (n <- pn ;;
         fun s1 => if is_t s1 TLINE_END || is_t s1 TEXPRESSION_END then parse_block_loop f bt (n :: acc) s1
                   else perr s1) s
  end
with parse_block (fuel : nat) (bt : btype) : P (list node) :=
  match fuel with O => pfuel | S f => parse_block_loop f bt [] end.

Definition parse_fuel (ts : list token) : nat := 40 * List.length ts + 100.

(* Parser::parse *)
Definition parse_program (ts : list token) : pres block :=
  (b <- parse_block (parse_fuel ts) BMain ;; fun s => if is_t s TEXPRESSION_END then POk b s else perr s)
    (mkPst ts []).

End Parser.
