(* Parser.v — model of src/parser/*.cpp: tokens -> AST, one Gallina function per C++ parse
   function, same order of tests, same offending token on error.  Recursion is on fuel
   (each call passes a smaller fuel); fuel exhaustion is the distinct result PFuel. *)
From PE2 Require Export Ast Real.
Local Open Scope Z_scope.

Record pst := mkPst { p_toks : list token; p_warns : list (Z * Z) }.   (* warnings: most recent first *)

Inductive pres (A : Type) :=
 | POk (a : A) (s : pst)
 | PFail (k : lexkind) (t : token) (s : pst)
 | PFuel.
Arguments POk {A}. Arguments PFail {A}. Arguments PFuel {A}.

Definition P (A : Type) := pst -> pres A.

Definition eof_tok : token := mkTok TEXPRESSION_END 0 0 [].
Definition cur (s : pst) : token := hd eof_tok (p_toks s).
Definition adv (s : pst) : pst :=
  match p_toks s with
  | _ :: ((_ :: _) as r) => mkPst r (p_warns s)
  | _ => s
  end.
Definition next_is (s : pst) (n : nat) (ty : ttype) : bool :=
  match nth_error (p_toks s) n with Some t => tt_eqb (tt t) ty | None => false end.
Definition is_t (s : pst) (ty : ttype) : bool := tt_eqb (tt (cur s)) ty.

Definition pbind {A B} (m : P A) (k : A -> P B) : P B :=
  fun s => match m s with POk a s' => k a s' | PFail kd t s' => PFail kd t s' | PFuel => PFuel end.
Definition pret {A} (a : A) : P A := fun s => POk a s.
Definition perr {A} : P A := fun s => PFail LexSyntax (cur s) s.          (* error at the current token *)
Definition perr_at {A} (t : token) : P A := fun s => PFail LexSyntax t s.
Definition pped {A} (t : token) : P A := fun s => PFail LexPedantic t s.
Definition padv : P unit := fun s => POk Datatypes.tt (adv s).
Definition pcur : P token := fun s => POk (cur s) s.
Definition pfuel {A} : P A := fun _ => PFuel.

Notation "x <- m ;; k" := (pbind m (fun x => k)) (at level 61, m at next level, right associativity).
Notation "m ;;; k" := (pbind m (fun _ => k)) (at level 61, right associativity).

Definition expect (ty : ttype) : P unit := fun s => if is_t s ty then POk Datatypes.tt (adv s) else PFail LexSyntax (cur s) s.
Definition pis (ty : ttype) : P bool := fun s => POk (is_t s ty) s.

Fixpoint skip_line_ends (n : nat) : P unit :=
  fun s => match n with
           | O => POk Datatypes.tt s
           | S k => if is_t s TLINE_END then skip_line_ends k (adv s) else POk Datatypes.tt s
           end.
Definition skip_nl : P unit := fun s => skip_line_ends (List.length (p_toks s)) s.

(* left-associative operator loop shared by the five binary levels *)
Fixpoint binloop (n : nat) (isop : ttype -> bool) (sub : P node) (mk : token -> node -> node -> node)
         (left : node) : P node :=
  fun s => match n with
           | O => PFuel
           | S k =>
             let t := cur s in
             if isop (tt t) then
               match sub (adv s) with
               | POk r s' => binloop k isop sub mk (mk t left r) s'
               | PFail kd t' s' => PFail kd t' s'
               | PFuel => PFuel
               end
             else POk left s
           end.

Definition op_eq (t : ttype) := match t with TEQUALS | TNOT_EQUALS => true | _ => false end.
Definition op_logic (t : ttype) := match t with TAND | TOR => true | _ => false end.
Definition op_cmp (t : ttype) :=
  match t with TEQUALS | TNOT_EQUALS | TGREATER | TLESSER | TGREATER_EQUAL | TLESSER_EQUAL => true | _ => false end.
Definition op_cat (t : ttype) := match t with TAMPERSAND => true | _ => false end.
Definition op_add (t : ttype) := match t with TPLUS | TMINUS => true | _ => false end.
Definition op_mul (t : ttype) := match t with TSTAR | TSLASH | TDIV | TMOD => true | _ => false end.

(* literal constructors that can throw at parse time *)
Definition int_literal_ok (t : token) : bool := digits_to_z (tval t) <=? int64_max.
Definition real_literal_ok (t : token) : bool := match stod_literal (tval t) with Some _ => true | None => false end.

Definition is_type_tok (s : pst) : bool := is_t s TDATA_TYPE || is_t s TIDENTIFIER.

Definition block_terminator (t : ttype) : bool :=
  match t with
  | TEXPRESSION_END | TENDIF | TOTHERWISE | TENDCASE | TELSE | TENDWHILE | TUNTIL | TNEXT
  | TENDPROCEDURE | TENDFUNCTION => true
  | _ => false
  end.

(* CASE-block look-ahead: a ':' later on the current line (starting at offset 1) *)
Fixpoint colon_on_line (l : list token) : bool :=
  match l with
  | t :: r => if tt_eqb (tt t) TCOLON then true else if tt_eqb (tt t) TLINE_END then false else colon_on_line r
  | [] => false
  end.

Inductive btype := BMain | BCase | BOther.

(* parameter-list accumulator of parseProcedure / parseFunction *)
Record pacc := mkPacc { pa_names : list str; pa_types : list token; pa_pass : list bool;
                        pa_byref : bool; pa_tc : nat; pa_pc : nat }.

Definition literal_node (s : pst) : option (pres node) :=
  let t := cur s in
  match tt t with
  | TINTEGER => Some (if int_literal_ok t then POk (NInt t) (adv s) else PFail LexSyntax t s)
  | TREAL => Some (if real_literal_ok t then POk (NReal t) (adv s) else PFail LexSyntax t s)
  | TTRUE | TFALSE => Some (POk (NBool t) (adv s))
  | TCHAR => Some (POk (NChar t) (adv s))
  | TSTRING => Some (POk (NStr t) (adv s))
  | _ => None
  end.

Section Parser.
Variable pedantic : bool.

Record prs := mkPrs {
  pr_fuel : nat;
  pr_parse_eval : P node;
  pr_parse_logical : P node;
  pr_parse_comparison : P node;
  pr_parse_strexpr : P node;
  pr_parse_arith : P node;
  pr_parse_term : P node;
  pr_parse_factor : P node;
  pr_parse_atom : P node;
  pr_parse_moddiv : P node;
  pr_parse_cast : P node;
  pr_parse_args : (list node) -> P (list node);
  pr_parse_arglist : P (list node);
  pr_parse_fncall : P node;
  pr_parse_indices : (list node) -> P (list node);
  pr_parse_resolver_tail : resolver -> P resolver;
  pr_parse_resolver : P resolver;
  pr_parse_ids : (list token) -> P (list token);
  pr_parse_bounds : (list node) -> P (list node);
  pr_parse_declare : P node;
  pr_parse_const : P node;
  pr_parse_enum_vals : (list str) -> P (list str);
  pr_parse_comp_body : (list node) -> P (list node);
  pr_parse_type : P node;
  pr_parse_if_tail : (list (option node * list node)) -> P (list (option node * list node));
  pr_parse_if : P node;
  pr_parse_case_clauses : (list casecomp) -> P (list casecomp);
  pr_parse_case : P node;
  pr_parse_while : P node;
  pr_parse_repeat : P node;
  pr_parse_for : P node;
  pr_parse_params : pacc -> P pacc;
  pr_parse_paramlist : P (list (str * token * bool));
  pr_parse_procedure : P node;
  pr_parse_function : P node;
  pr_parse_call : P node;
  pr_parse_output_tail : (list node) -> P (list node);
  pr_parse_statement : P node;
  pr_parse_block_loop : btype -> (list node) -> P (list node);
  pr_parse_block : btype -> P (list node) }.

Definition parse_eval_body (self : prs) : P node :=
    l <- pr_parse_logical self ;; binloop (pr_fuel self) op_eq (pr_parse_logical self) NCmp l.

Definition parse_logical_body (self : prs) : P node :=
    l <- pr_parse_comparison self ;; binloop (pr_fuel self) op_logic (pr_parse_comparison self) NLogic l.

Definition parse_comparison_body (self : prs) : P node :=
    fun s => if is_t s TNOT then (let t := cur s in (padv ;;; e <- pr_parse_comparison self ;; pret (NNot t e)) s)
             else (l <- pr_parse_strexpr self ;; binloop (pr_fuel self) op_cmp (pr_parse_strexpr self) NCmp l) s.

Definition parse_strexpr_body (self : prs) : P node :=
    l <- pr_parse_arith self ;; binloop (pr_fuel self) op_cat (pr_parse_arith self) NCat l.

Definition parse_arith_body (self : prs) : P node :=
    l <- pr_parse_term self ;; binloop (pr_fuel self) op_add (pr_parse_term self) NArith l.

Definition parse_term_body (self : prs) : P node :=
    l <- pr_parse_factor self ;; binloop (pr_fuel self) op_mul (pr_parse_factor self) NArith l.

Definition parse_factor_body (self : prs) : P node :=
    fun s => if is_t s TMINUS then (let t := cur s in (padv ;;; a <- pr_parse_atom self ;; pret (NNeg t a)) s)
             else pr_parse_atom self s.

Definition parse_atom_body (self : prs) : P node :=
    fun s =>
      let t := cur s in
      match literal_node s with
      | Some r => r
      | None =>
        match tt t with
        | TDATE => POk (NDate t) (adv s)
        | TIDENTIFIER =>
          if next_is s 1 TLPAREN then pr_parse_fncall self s
          else
            (r <- pr_parse_resolver self ;;
             fun s1 =>
               if is_t s1 TASSIGNMENT then
                 let at_ := cur s1 in
                 let s2 := adv s1 in
                 if is_t s2 TCARET then
                   let rt := cur s2 in
                   let s3 := adv s2 in
                   if is_t s3 TIDENTIFIER then (v <- pr_parse_resolver self ;; pret (NPtrAssign rt r v)) s3
                   else perr s3
                 else (e <- pr_parse_eval self ;; pret (NAssign at_ e r)) s2
               else POk (NAccess t r) s1) s
        | TLPAREN =>
          (padv ;;; e <- pr_parse_eval self ;; expect TRPAREN ;;; pret e) s
        | TDATA_TYPE => pr_parse_cast self s
        | TMOD | TDIV => if next_is s 1 TLPAREN then pr_parse_moddiv self s else perr s
        | _ => perr s
        end
      end.

Definition parse_moddiv_body (self : prs) : P node :=
    t <- pcur ;; padv ;;; padv ;;;
    a <- pr_parse_eval self ;; expect TCOMMA ;;; b <- pr_parse_eval self ;; expect TRPAREN ;;; pret (NArith t a b).

Definition parse_cast_body (self : prs) : P node :=
    t <- pcur ;;
    if pedantic then pped t
    else match psc_type_of_word (tval t) with
         | None => perr                           (* unreachable: DATA_TYPE tokens carry one of the six words *)
         | Some k => padv ;;; expect TLPAREN ;;; e <- pr_parse_eval self ;; expect TRPAREN ;;; pret (NCast t e k)
         end.

Definition parse_args_body (self : prs) (acc : list node) : P (list node) :=
    fun s => if is_t s TCOMMA then (padv ;;; e <- pr_parse_eval self ;; pr_parse_args self (e :: acc)) s
             else (expect TRPAREN ;;; pret (rev acc)) s.

Definition parse_arglist_body (self : prs) : P (list node) :=
    fun s => if is_t s TRPAREN then POk [] (adv s)
             else (e <- pr_parse_eval self ;; pr_parse_args self [e]) s.

Definition parse_fncall_body (self : prs) : P node :=
    t <- pcur ;; padv ;;; padv ;;; args <- pr_parse_arglist self ;; pret (NFnCall t args).

Definition parse_indices_body (self : prs) (acc : list node) : P (list node) :=
    e <- pr_parse_arith self ;;
    fun s => if is_t s TCOMMA then pr_parse_indices self (e :: acc) (adv s)
             else (expect TRSQRBRACKET ;;; pret (rev (e :: acc))) s.

Definition parse_resolver_tail_body (self : prs) (r : resolver) : P resolver :=
    fun s =>
      let t := cur s in
      match tt t with
      | TPERIOD => let s1 := adv s in pr_parse_resolver_tail self (RField t r (cur s1)) (adv s1)
      | TCARET => pr_parse_resolver_tail self (RDeref t r) (adv s)
      | TLSQRBRACKET => (idx <- pr_parse_indices self [] ;; pr_parse_resolver_tail self (RIndex t r idx)) (adv s)
      | _ => POk r s
      end.

Definition parse_resolver_body (self : prs) : P resolver :=
    t <- pcur ;; padv ;;; pr_parse_resolver_tail self (RSimple t).

Definition parse_ids_body (self : prs) (acc : list token) : P (list token) :=
    fun s => if is_t s TIDENTIFIER then
               let t := cur s in let s1 := adv s in
               if is_t s1 TCOMMA then pr_parse_ids self (t :: acc) (adv s1) else POk (rev (t :: acc)) s1
             else perr s.

Definition parse_bounds_body (self : prs) (acc : list node) : P (list node) :=
    lo <- pr_parse_arith self ;; expect TCOLON ;;; hi <- pr_parse_arith self ;;
    fun s => if is_t s TCOMMA then pr_parse_bounds self (hi :: lo :: acc) (adv s)
             else POk (rev (hi :: lo :: acc)) s.

Definition parse_declare_body (self : prs) : P node :=
    op <- pcur ;; padv ;;; ids <- pr_parse_ids self [] ;; expect TCOLON ;;;
    fun s =>
      if is_t s TARRAY then
        (padv ;;; expect TLSQRBRACKET ;;; bs <- pr_parse_bounds self [] ;; expect TRSQRBRACKET ;;; expect TOF ;;;
         fun s1 => if is_type_tok s1 then POk (NArrDeclare op ids (cur s1) bs) (adv s1) else perr s1) s
      else if is_type_tok s then POk (NDeclare op ids (cur s)) (adv s)
      else perr s.

Definition parse_const_body (self : prs) : P node :=
    op <- pcur ;; padv ;;;
    fun s =>
      if negb (is_t s TIDENTIFIER) then perr s else
      let id := cur s in let s1 := adv s in
      if negb (is_t s1 TEQUALS || is_t s1 TASSIGNMENT) then perr s1 else
      let s2 := adv s1 in
      let mt := cur s2 in
      let neg := is_t s2 TMINUS in
      let s3 := if neg then adv s2 else s2 in
      match literal_node s3 with
      | Some (POk v s4) => POk (NConst op (if neg then NNeg mt v else v) id) s4
      | Some (PFail k t s4) => PFail k t s4
      | Some PFuel => PFuel
      | None => perr s3
      end.

Definition parse_enum_vals_body (self : prs) (acc : list str) : P (list str) :=
    fun s => if negb (is_t s TIDENTIFIER) then perr s else
             let v := tval (cur s) in let s1 := adv s in
             if is_t s1 TCOMMA then pr_parse_enum_vals self (v :: acc) (adv s1)
             else if is_t s1 TRPAREN then POk (rev (v :: acc)) (adv s1)
             else perr s1.

Definition parse_comp_body_body (self : prs) (acc : list node) : P (list node) :=
    fun s => if is_t s TDECLARE then
               (d <- pr_parse_declare self ;; expect TLINE_END ;;; skip_nl ;;; pr_parse_comp_body self (d :: acc)) s
             else (expect TENDTYPE ;;; pret (rev acc)) s.

Definition parse_type_body (self : prs) : P node :=
    t <- pcur ;; padv ;;; skip_nl ;;;
    fun s =>
      if negb (is_t s TIDENTIFIER) then perr s else
      let id := cur s in let s1 := adv s in
      if negb (is_t s1 TEQUALS) then
        if negb (is_t s1 TLINE_END) then perr s1
        else (skip_nl ;;; body <- pr_parse_comp_body self [] ;; pret (NCompDef t id body)) (adv s1)
      else
        let s2 := adv s1 in
        if is_t s2 TCARET then
          let s3 := adv s2 in
          if is_type_tok s3 then POk (NPtrDef t id (cur s3)) (adv s3) else perr s3
        else if is_t s2 TLPAREN then (vs <- pr_parse_enum_vals self [] ;; pret (NEnumDef t id vs)) (adv s2)
        else perr s2.

Definition parse_if_tail_body (self : prs) (acc : list (option node * list node)) : P (list (option node * list node)) :=
    fun s =>
      if is_t s TELSE then
        let s1 := adv s in
        if is_t s1 TIF then
          if pedantic then PFail LexPedantic (cur s1) s1
          else (c <- pr_parse_eval self ;; skip_nl ;;; expect TTHEN ;;; b <- pr_parse_block self BOther ;;
                pr_parse_if_tail self ((Some c, b) :: acc)) (adv s1)
        else (b <- pr_parse_block self BOther ;; expect TENDIF ;;; pret (rev ((None, b) :: acc))) s1
      else (expect TENDIF ;;; pret (rev acc)) s.

Definition parse_if_body (self : prs) : P node :=
    t <- pcur ;; padv ;;; c <- pr_parse_eval self ;; skip_nl ;;; expect TTHEN ;;; b <- pr_parse_block self BOther ;;
    comps <- pr_parse_if_tail self [(Some c, b)] ;; pret (NIf t comps).

Definition parse_case_clauses_body (self : prs) (acc : list casecomp) : P (list casecomp) :=
    fun s =>
      if is_t s TENDCASE then POk (rev acc) (adv s)
      else if is_t s TOTHERWISE then
        (padv ;;; expect TCOLON ;;; b <- pr_parse_block self BCase ;; expect TENDCASE ;;; pret (rev (COther b :: acc))) s
      else
        (e <- pr_parse_eval self ;;
         fun s1 =>
           if is_t s1 TTO then
             (padv ;;; hi <- pr_parse_eval self ;; expect TCOLON ;;; b <- pr_parse_block self BCase ;;
              pr_parse_case_clauses self (CRange b e hi :: acc)) s1
           else (expect TCOLON ;;; b <- pr_parse_block self BCase ;; pr_parse_case_clauses self (CEq b e :: acc)) s1) s.

Definition parse_case_body (self : prs) : P node :=
    t <- pcur ;; padv ;;; expect TOF ;;;
    fun s => if negb (is_t s TIDENTIFIER) then perr s else
             let id := cur s in
             (padv ;;; skip_nl ;;; cs <- pr_parse_case_clauses self [] ;; pret (NCase t (NAccess id (RSimple id)) cs)) s.

Definition parse_while_body (self : prs) : P node :=
    t <- pcur ;; padv ;;; c <- pr_parse_eval self ;; skip_nl ;;;
    (fun s => POk Datatypes.tt (if is_t s TDO then adv s else s)) ;;;
    b <- pr_parse_block self BOther ;; expect TENDWHILE ;;; pret (NWhile t c b).

Definition parse_repeat_body (self : prs) : P node :=
    t <- pcur ;; padv ;;; b <- pr_parse_block self BOther ;; expect TUNTIL ;;; c <- pr_parse_eval self ;; pret (NRepeat t c b).

Definition parse_for_body (self : prs) : P node :=
    t <- pcur ;; padv ;;;
    fun s =>
      if negb (is_t s TIDENTIFIER) then perr s else
      let it := cur s in
      (padv ;;; expect TASSIGNMENT ;;; a <- pr_parse_arith self ;; expect TTO ;;; b <- pr_parse_arith self ;;
       st <- (fun s1 => if is_t s1 TSTEP then (padv ;;; e <- pr_parse_arith self ;; pret (Some e)) s1 else POk None s1) ;;
       body <- pr_parse_block self BOther ;; expect TNEXT ;;;
       fun s2 =>
         if is_t s2 TIDENTIFIER then
           if str_eqb (tval (cur s2)) (tval it) then POk (NFor t it a b st body) (adv s2) else perr s2
         else POk (NFor t it a b st body) s2) s.

Definition parse_params_body (self : prs) (a : pacc) : P pacc :=
    fun s =>
      if is_t s TRPAREN then
        if negb (Nat.eqb (pa_tc a) 1) then perr s
        else POk (mkPacc (pa_names a) (pa_types a) (pa_pass a ++ replicate (pa_pc a) (pa_byref a))
                         (pa_byref a) (pa_tc a) (pa_pc a)) (adv s)
      else
        let comma_ok := match pa_names a with [] => Some s | _ => if is_t s TCOMMA then Some (adv s) else None end in
        match comma_ok with
        | None => perr s
        | Some s1 =>
          let '(a1, s2) :=
            if is_t s1 TBYREF || is_t s1 TBYVAL then
              let cur_is_ref := is_t s1 TBYREF in
              if negb (Bool.eqb cur_is_ref (pa_byref a))
              then (mkPacc (pa_names a) (pa_types a) (pa_pass a ++ replicate (pa_pc a) (pa_byref a))
                           (negb (pa_byref a)) (pa_tc a) 1, adv s1)
              else (mkPacc (pa_names a) (pa_types a) (pa_pass a) (pa_byref a) (pa_tc a) (S (pa_pc a)), adv s1)
            else (mkPacc (pa_names a) (pa_types a) (pa_pass a) (pa_byref a) (pa_tc a) (S (pa_pc a)), s1) in
          if negb (is_t s2 TIDENTIFIER) then perr s2 else
          let nm := tval (cur s2) in
          let s3 := adv s2 in
          if is_t s3 TCOLON then
            let s4 := adv s3 in
            if negb (is_type_tok s4) then perr s4 else
            let ty := cur s4 in
            pr_parse_params self (mkPacc (pa_names a1 ++ [nm]) (pa_types a1 ++ replicate (pa_tc a1) ty) (pa_pass a1)
                                   (pa_byref a1) 1 (pa_pc a1)) (adv s4)
          else if is_t s3 TCOMMA then
            pr_parse_params self (mkPacc (pa_names a1 ++ [nm]) (pa_types a1) (pa_pass a1) (pa_byref a1) (S (pa_tc a1)) (pa_pc a1)) s3
          else perr s3
        end.

Definition parse_paramlist_body (self : prs) : P (list (str * token * bool)) :=
    fun s =>
      if is_t s TLPAREN then
        (a <- pr_parse_params self (mkPacc [] [] [] false 1 0) ;;
         pret (combine (combine (pa_names a) (pa_types a)) (pa_pass a))) (adv s)
      else POk [] s.

Definition parse_procedure_body (self : prs) : P node :=
    t <- pcur ;; padv ;;;
    fun s => if negb (is_t s TIDENTIFIER) then perr s else
             let nm := tval (cur s) in
             (padv ;;; ps <- pr_parse_paramlist self ;; b <- pr_parse_block self BOther ;; expect TENDPROCEDURE ;;;
              pret (NProc t nm ps b)) s.

Definition parse_function_body (self : prs) : P node :=
    t <- pcur ;; padv ;;;
    fun s => if negb (is_t s TIDENTIFIER) then perr s else
             let nm := tval (cur s) in
             (padv ;;; ps <- pr_parse_paramlist self ;; skip_nl ;;; expect TRETURNS ;;;
              fun s1 => if negb (is_type_tok s1) then perr s1 else
                        let rt := cur s1 in
                        (padv ;;; b <- pr_parse_block self BOther ;; expect TENDFUNCTION ;;; pret (NFunc t nm ps b rt)) s1) s.

Definition parse_call_body (self : prs) : P node :=
    t <- pcur ;; padv ;;;
    fun s => if negb (is_t s TIDENTIFIER) then perr s else
             let nm := tval (cur s) in
             let s1 := adv s in
             if is_t s1 TLPAREN then (args <- pr_parse_arglist self ;; pret (NCall t nm args)) (adv s1)
             else POk (NCall t nm []) s1.

Definition parse_output_tail_body (self : prs) (acc : list node) : P (list node) :=
    fun s => if is_t s TCOMMA then (padv ;;; e <- pr_parse_eval self ;; pr_parse_output_tail self (e :: acc)) s
             else POk (rev acc) s.

Definition parse_statement_body (self : prs) : P node :=
    fun s =>
      let t := cur s in
      match tt t with
      | TDECLARE => pr_parse_declare self s
      | TCONSTANT => pr_parse_const self s
      | TTYPE => pr_parse_type self s
      | TIF => pr_parse_if self s
      | TCASE => pr_parse_case self s
      | TWHILE => pr_parse_while self s
      | TREPEAT => pr_parse_repeat self s
      | TFOR => pr_parse_for self s
      | TCALL => pr_parse_call self s
      | TOUTPUT => (padv ;;; e <- pr_parse_eval self ;; es <- pr_parse_output_tail self [e] ;; pret (NOutput t es)) s
      | TREAD | TINPUT =>
        (padv ;;; fun s1 => if is_t s1 TIDENTIFIER then (r <- pr_parse_resolver self ;; pret (NInput t r)) s1 else perr s1) s
      | TOPENFILE =>
        (padv ;;; fn <- pr_parse_strexpr self ;; expect TFOR ;;;
         fun s1 => match tt (cur s1) with
                   | TREAD => POk (NOpenFile t fn FRead) (adv s1)
                   | TWRITE => POk (NOpenFile t fn FWrite) (adv s1)
                   | TAPPEND => POk (NOpenFile t fn FAppend) (adv s1)
                   | TRANDOM => POk (NOpenFile t fn FRandom) (adv s1)
                   | _ => perr s1
                   end) s
      | TREADFILE =>
        (padv ;;; fn <- pr_parse_strexpr self ;; expect TCOMMA ;;;
         fun s1 => if is_t s1 TIDENTIFIER then POk (NReadFile t fn (cur s1)) (adv s1) else perr s1) s
      | TWRITEFILE => (padv ;;; fn <- pr_parse_strexpr self ;; expect TCOMMA ;;; d <- pr_parse_eval self ;; pret (NWriteFile t fn d)) s
      | TCLOSEFILE => (padv ;;; fn <- pr_parse_strexpr self ;; pret (NCloseFile t fn)) s
      | TSEEK => (padv ;;; fn <- pr_parse_strexpr self ;; expect TCOMMA ;;; a <- pr_parse_eval self ;; pret (NSeek t fn a)) s
      | TGETRECORD =>
        (padv ;;; fn <- pr_parse_strexpr self ;; expect TCOMMA ;;;
         fun s1 => if is_t s1 TIDENTIFIER then POk (NGetRecord t fn (cur s1)) (adv s1) else perr s1) s
      | TPUTRECORD =>
        (padv ;;; fn <- pr_parse_strexpr self ;; expect TCOMMA ;;;
         fun s1 => if is_t s1 TIDENTIFIER then POk (NPutRecord t fn (cur s1)) (adv s1) else perr s1) s
      | TRETURN => (padv ;;; e <- pr_parse_eval self ;; pret (NReturn t e)) s
      | TBREAK => POk (NBreak t) (adv s)
      | TCONTINUE => POk (NContinue t) (adv s)
      | _ => pr_parse_eval self s
      end.

Definition parse_block_loop_body (self : prs) (bt : btype) (acc : list node) : P (list node) :=
    skip_nl ;;;
    fun s =>
      let t := cur s in
      if block_terminator (tt t) then POk (rev acc) s
      else if (match bt with BCase => negb (is_t s TDECLARE) && colon_on_line (tl (p_toks s)) | _ => false end)
      then POk (rev acc) s
      else
        let pn : P node :=
          match tt t with
          | TPROCEDURE => match bt with BMain => pr_parse_procedure self | _ => perr end
          | TFUNCTION => match bt with BMain => pr_parse_function self | _ => perr end
          | _ =>
            n <- pr_parse_statement self ;;
            fun s1 => match n with
                      | NCmp ct (NAccess _ _) _ => POk n (mkPst (p_toks s1) ((tline ct, tcol ct) :: p_warns s1))
                      | _ => POk n s1
                      end
          end in
        (n <- pn ;;
         fun s1 => if is_t s1 TLINE_END || is_t s1 TEXPRESSION_END then pr_parse_block_loop self bt (n :: acc) s1
                   else perr s1) s.

Definition parse_block_body (self : prs) (bt : btype) : P (list node) :=
    pr_parse_block_loop self bt [].

Definition prs_zero : prs :=
  mkPrs O pfuel pfuel pfuel pfuel pfuel pfuel pfuel pfuel pfuel pfuel (fun _ => pfuel) pfuel pfuel (fun _ => pfuel) (fun _ => pfuel) pfuel (fun _ => pfuel) (fun _ => pfuel) pfuel pfuel (fun _ => pfuel) (fun _ => pfuel) pfuel (fun _ => pfuel) pfuel (fun _ => pfuel) pfuel pfuel pfuel pfuel (fun _ => pfuel) pfuel pfuel pfuel pfuel (fun _ => pfuel) pfuel (fun _ _ => pfuel) (fun _ => pfuel).
Definition prs_step (self : prs) : prs :=
  mkPrs (S (pr_fuel self)) (parse_eval_body self) (parse_logical_body self) (parse_comparison_body self) (parse_strexpr_body self) (parse_arith_body self) (parse_term_body self) (parse_factor_body self) (parse_atom_body self) (parse_moddiv_body self) (parse_cast_body self) (parse_args_body self) (parse_arglist_body self) (parse_fncall_body self) (parse_indices_body self) (parse_resolver_tail_body self) (parse_resolver_body self) (parse_ids_body self) (parse_bounds_body self) (parse_declare_body self) (parse_const_body self) (parse_enum_vals_body self) (parse_comp_body_body self) (parse_type_body self) (parse_if_tail_body self) (parse_if_body self) (parse_case_clauses_body self) (parse_case_body self) (parse_while_body self) (parse_repeat_body self) (parse_for_body self) (parse_params_body self) (parse_paramlist_body self) (parse_procedure_body self) (parse_function_body self) (parse_call_body self) (parse_output_tail_body self) (parse_statement_body self) (parse_block_loop_body self) (parse_block_body self).
Fixpoint prs_at (fuel : nat) : prs := match fuel with O => prs_zero | S f => prs_step (prs_at f) end.

Definition parse_eval (fuel : nat) := pr_parse_eval (prs_at fuel).
Definition parse_logical (fuel : nat) := pr_parse_logical (prs_at fuel).
Definition parse_comparison (fuel : nat) := pr_parse_comparison (prs_at fuel).
Definition parse_strexpr (fuel : nat) := pr_parse_strexpr (prs_at fuel).
Definition parse_arith (fuel : nat) := pr_parse_arith (prs_at fuel).
Definition parse_term (fuel : nat) := pr_parse_term (prs_at fuel).
Definition parse_factor (fuel : nat) := pr_parse_factor (prs_at fuel).
Definition parse_atom (fuel : nat) := pr_parse_atom (prs_at fuel).
Definition parse_moddiv (fuel : nat) := pr_parse_moddiv (prs_at fuel).
Definition parse_cast (fuel : nat) := pr_parse_cast (prs_at fuel).
Definition parse_args (fuel : nat) := pr_parse_args (prs_at fuel).
Definition parse_arglist (fuel : nat) := pr_parse_arglist (prs_at fuel).
Definition parse_fncall (fuel : nat) := pr_parse_fncall (prs_at fuel).
Definition parse_indices (fuel : nat) := pr_parse_indices (prs_at fuel).
Definition parse_resolver_tail (fuel : nat) := pr_parse_resolver_tail (prs_at fuel).
Definition parse_resolver (fuel : nat) := pr_parse_resolver (prs_at fuel).
Definition parse_ids (fuel : nat) := pr_parse_ids (prs_at fuel).
Definition parse_bounds (fuel : nat) := pr_parse_bounds (prs_at fuel).
Definition parse_declare (fuel : nat) := pr_parse_declare (prs_at fuel).
Definition parse_const (fuel : nat) := pr_parse_const (prs_at fuel).
Definition parse_enum_vals (fuel : nat) := pr_parse_enum_vals (prs_at fuel).
Definition parse_comp_body (fuel : nat) := pr_parse_comp_body (prs_at fuel).
Definition parse_type (fuel : nat) := pr_parse_type (prs_at fuel).
Definition parse_if_tail (fuel : nat) := pr_parse_if_tail (prs_at fuel).
Definition parse_if (fuel : nat) := pr_parse_if (prs_at fuel).
Definition parse_case_clauses (fuel : nat) := pr_parse_case_clauses (prs_at fuel).
Definition parse_case (fuel : nat) := pr_parse_case (prs_at fuel).
Definition parse_while (fuel : nat) := pr_parse_while (prs_at fuel).
Definition parse_repeat (fuel : nat) := pr_parse_repeat (prs_at fuel).
Definition parse_for (fuel : nat) := pr_parse_for (prs_at fuel).
Definition parse_params (fuel : nat) := pr_parse_params (prs_at fuel).
Definition parse_paramlist (fuel : nat) := pr_parse_paramlist (prs_at fuel).
Definition parse_procedure (fuel : nat) := pr_parse_procedure (prs_at fuel).
Definition parse_function (fuel : nat) := pr_parse_function (prs_at fuel).
Definition parse_call (fuel : nat) := pr_parse_call (prs_at fuel).
Definition parse_output_tail (fuel : nat) := pr_parse_output_tail (prs_at fuel).
Definition parse_statement (fuel : nat) := pr_parse_statement (prs_at fuel).
Definition parse_block_loop (fuel : nat) := pr_parse_block_loop (prs_at fuel).
Definition parse_block (fuel : nat) := pr_parse_block (prs_at fuel).

Definition parse_fuel (ts : list token) : nat := 40 * List.length ts + 100.

(* Parser::parse *)
Definition parse_program (ts : list token) : pres block :=
  (b <- parse_block (parse_fuel ts) BMain ;; fun s => if is_t s TEXPRESSION_END then POk b s else perr s)
    (mkPst ts []).

End Parser.
