From PE2 Require Import Dates.
From Coq Require Import ZifyBool.
Local Open Scope Z_scope.

Definition lex_lt (d1 m1 y1 d2 m2 y2 : Z) : Prop :=
  y1 < y2 \/ (y1 = y2 /\ (m1 < m2 \/ (m1 = m2 /\ d1 < d2))).

Lemma days_in_month_range y m : 28 <= days_in_month y m <= 31.
Proof. unfold days_in_month. destruct (m =? 2); [destruct (is_leap y)|destruct ((m =? 4) || (m =? 6) || (m =? 9) || (m =? 11))]; lia. Qed.

Lemma ymd_ok_bounds d m y : ymd_ok d m y = true -> 1 <= m <= 12 /\ 1 <= d <= 31 /\ -32767 <= y <= 32767.
Proof.
  unfold ymd_ok. rewrite !andb_true_iff, !Z.leb_le. pose proof (days_in_month_range y m). lia.
Qed.

Lemma key_monotone d1 m1 y1 d2 m2 y2 :
  ymd_ok d1 m1 y1 = true -> ymd_ok d2 m2 y2 = true ->
  (date_key d1 m1 y1 < date_key d2 m2 y2 <-> lex_lt d1 m1 y1 d2 m2 y2).
Proof.
  intros H1 H2. apply ymd_ok_bounds in H1. apply ymd_ok_bounds in H2. unfold date_key, lex_lt. lia.
Qed.

Lemma key_injective d1 m1 y1 d2 m2 y2 :
  ymd_ok d1 m1 y1 = true -> ymd_ok d2 m2 y2 = true ->
  (date_key d1 m1 y1 = date_key d2 m2 y2 <-> (d1 = d2 /\ m1 = m2 /\ y1 = y2)).
Proof.
  intros H1 H2. apply ymd_ok_bounds in H1. apply ymd_ok_bounds in H2. unfold date_key. lia.
Qed.

Lemma setdate_iff d m y : setdate d m y = Some (d, m, y) <-> valid_gregorian d m y = true.
Proof.
  unfold setdate, valid_gregorian. split.
  - destruct (setdate_in_range d m y && ymd_ok d m y) eqn:E; [|discriminate].
    apply andb_true_iff in E. tauto.
  - intros H. assert (R : setdate_in_range d m y = true).
    { pose proof (ymd_ok_bounds _ _ _ H). unfold setdate_in_range. lia. }
    rewrite R, H. reflexivity.
Qed.

Lemma setdate_none d m y : valid_gregorian d m y = false -> setdate d m y = None.
Proof. unfold setdate, valid_gregorian. intros ->. rewrite andb_false_r. reflexivity. Qed.

(* literal path: components after the range guard; a result that passes ok() has the written components *)
Lemma literal_components d m y :
  0 <= d -> 0 <= m -> 0 <= y ->
  let '(d', m', y') := date_literal_components d m y in
  ymd_ok d' m' y' = true -> (d', m', y') = (d, m, y) /\ valid_gregorian d m y = true.
Proof.
  intros Hd Hm Hy. unfold date_literal_components.
  destruct ((31 <? d) || (12 <? m) || (32767 <? y)) eqn:E.
  - cbn. discriminate.
  - intros H. split; [reflexivity|exact H].
Qed.

Lemma literal_valid d m y : valid_gregorian d m y = true -> date_literal_components d m y = (d, m, y).
Proof.
  intros H. pose proof (ymd_ok_bounds _ _ _ H). unfold date_literal_components.
  destruct ((31 <? d) || (12 <? m) || (32767 <? y)) eqn:E; [lia|reflexivity].
Qed.

(* ---- weekday ---- *)
Ltac Zify.zify_post_hook ::= Z.div_mod_to_equations.

Definition gy (y : Z) : Z :=
  let era := y / 400 in let yoe := y - era * 400 in era * 146097 + yoe * 365 + yoe / 4 - yoe / 100.

Lemma gy_closed y : gy y = 365 * y + y / 4 - y / 100 + y / 400.
Proof. unfold gy. cbv zeta. lia. Qed.

Lemma gy_step y : gy y = gy (y - 1) + 365 + (if is_leap y then 1 else 0).
Proof.
  rewrite !gy_closed. unfold is_leap.
  destruct (y mod 4 =? 0) eqn:E4; destruct (y mod 100 =? 0) eqn:E100; destruct (y mod 400 =? 0) eqn:E400;
    cbn [andb orb negb]; rewrite ?Z.eqb_eq, ?Z.eqb_neq in *; lia.
Qed.

Lemma dfc_form d m y :
  days_from_civil d m y =
  gy (if m <=? 2 then y - 1 else y) + (153 * (if 2 <? m then m - 3 else m + 9) + 2) / 5 + d - 1 - 719468.
Proof. unfold days_from_civil, gy. cbv zeta. ring. Qed.

Ltac eval_bools :=
  repeat match goal with
         | |- context [?a <=? ?b] =>
           let v := eval vm_compute in (a <=? b) in
           match v with true => change (a <=? b) with true | false => change (a <=? b) with false end
         | |- context [?a <? ?b] =>
           let v := eval vm_compute in (a <? b) in
           match v with true => change (a <? b) with true | false => change (a <? b) with false end
         end; cbv iota.

Lemma days_next d m y : ymd_ok d m y = true ->
  let '(d', m', y') := next_day d m y in days_from_civil d' m' y' = days_from_civil d m y + 1.
Proof.
  intros H. pose proof (ymd_ok_bounds _ _ _ H) as B.
  unfold ymd_ok in H. rewrite !andb_true_iff, !Z.leb_le in H. destruct H as [_ Hdm].
  unfold next_day. destruct (d <? days_in_month y m) eqn:E1.
  - rewrite !dfc_form. lia.
  - assert (Hd : d = days_in_month y m) by lia. clear E1 Hdm.
    destruct (m <? 12) eqn:E2.
    + assert (Hm : m = 1 \/ m = 2 \/ m = 3 \/ m = 4 \/ m = 5 \/ m = 6 \/ m = 7 \/ m = 8 \/ m = 9 \/ m = 10 \/ m = 11) by lia.
      rewrite !dfc_form. unfold days_in_month in Hd.
      destruct Hm as [Hm|[Hm|[Hm|[Hm|[Hm|[Hm|[Hm|[Hm|[Hm|[Hm|Hm]]]]]]]]]]; subst m;
        change (1 + 1) with 2 in *; change (2 + 1) with 3 in *; change (3 + 1) with 4 in *; change (4 + 1) with 5 in *;
        change (5 + 1) with 6 in *; change (6 + 1) with 7 in *; change (7 + 1) with 8 in *; change (8 + 1) with 9 in *;
        change (9 + 1) with 10 in *; change (10 + 1) with 11 in *; change (11 + 1) with 12 in *;
        cbn [Z.eqb Pos.eqb orb] in Hd; eval_bools; try lia.
      (* February -> March *)
      pose proof (gy_step y). destruct (is_leap y); lia.
    + assert (m = 12) by lia. subst m. unfold days_in_month in Hd. cbn [Z.eqb Pos.eqb orb] in Hd. subst d.
      rewrite !dfc_form. eval_bools. replace (y + 1 - 1) with y by lia. lia.
Qed.

Lemma day_index_range d m y : 1 <= day_index d m y <= 7.
Proof. unfold day_index. pose proof (Z.mod_pos_bound (days_from_civil d m y + 4) 7 ltac:(lia)). lia. Qed.

Lemma day_index_step d m y : ymd_ok d m y = true ->
  let '(d', m', y') := next_day d m y in day_index d' m' y' = day_index d m y mod 7 + 1.
Proof.
  intros H. pose proof (days_next d m y H) as N. destruct (next_day d m y) as [[d' m'] y'].
  unfold day_index. rewrite N. lia.
Qed.

Lemma day_index_anchor : day_index 1 1 2000 = 7 /\ day_index 29 9 2026 = 3.
Proof. vm_compute. split; reflexivity. Qed.
