(* Lemmas_Lexer.v — laws of the lexer model. *)
From PE2 Require Import Lexer.
Local Open Scope Z_scope.

(* line endings: the lexer sees the text with every CR removed *)
Lemma lex_depends_on_cr_free_text ped a b : remove_cr a = remove_cr b -> lex ped a = lex ped b.
Proof. intros H. unfold lex. rewrite H. reflexivity. Qed.

Fixpoint to_crlf (s : str) : str :=
  match s with [] => [] | c :: r => if aeqb c ch_nl then ch_cr :: c :: to_crlf r else c :: to_crlf r end.

Lemma remove_cr_crlf s : remove_cr (to_crlf s) = remove_cr s.
Proof.
  induction s as [|c r IH]; [reflexivity|]. cbn [to_crlf]. destruct (aeqb c ch_nl) eqn:E.
  - apply Ascii.eqb_eq in E. subst c. cbn. f_equal. exact IH.
  - unfold remove_cr in *. cbn [filter]. destruct (negb (aeqb c ch_cr)); [f_equal|]; exact IH.
Qed.

Lemma crlf_same_tokens ped s : lex ped (to_crlf s) = lex ped s.
Proof. apply lex_depends_on_cr_free_text. apply remove_cr_crlf. Qed.

(* a comment: from the character after "//", skip_comment stops at the line break that ends the line,
   on the same line, having produced no token *)
Definition no_newline (t : str) : Prop := Forall (fun c => aeqb c ch_nl = false) t.

Lemma advance_non_newline c r st0 l k p :
  aeqb c ch_nl = false -> r <> [] ->
  advance (mkLst (c :: r) st0 l k p) = mkLst r c l (k + 1) (Some c).
Proof.
  intros Hc Hr. unfold advance, curc. cbn [rest line col]. rewrite Hc. destruct r as [|x r']; [contradiction|]. reflexivity.
Qed.

Lemma skip_comment_stops_at_newline : forall t fuel r st0 l k p,
  no_newline t -> (List.length t < fuel)%nat ->
  exists st1 k1 p1, skip_comment fuel (mkLst (t ++ ch_nl :: r) st0 l k p) = mkLst (ch_nl :: r) st1 l k1 p1.
Proof.
  induction t as [|c t IH]; intros fuel r st0 l k p Hn Hf; destruct fuel as [|f]; cbn [List.length] in Hf; try lia.
  - cbn [app skip_comment at_end rest curc]. rewrite Ascii.eqb_refl. cbn. eauto.
  - inversion Hn as [|? ? Hc Ht]; subst. cbn [app skip_comment]. unfold at_end, curc. cbn [rest]. rewrite Hc. cbn [negb andb].
    rewrite advance_non_newline; [|exact Hc|destruct t; discriminate].
    apply IH; [exact Ht|lia].
Qed.

(* "//" produces no token: lex_step on '/' followed by '/' returns the tokens it was given *)
Lemma comment_adds_no_token ped r st0 l k p toks :
  exists s', lex_step ped (mkLst ("/"%char :: "/"%char :: r) st0 l k p) toks = LOk s' toks.
Proof.
  unfold lex_step. cbn [curc rest]. cbn. eauto.
Qed.

(* blanks and tabs between tokens produce no token and keep the line *)
Lemma blank_adds_no_token ped c r st0 l k p toks :
  (c = ch_space \/ c = ch_tab) -> r <> [] ->
  lex_step ped (mkLst (c :: r) st0 l k p) toks = LOk (mkLst r c l (k + 1) (Some c)) toks.
Proof.
  intros [H|H] Hr; subst c; unfold lex_step; cbn [curc rest]; cbn; (destruct r as [|x r']; [contradiction|reflexivity]).
Qed.

(* '(' directly after an I/O keyword is the one deliberate exception; after a blank or a TAB it is an ordinary token *)
Lemma paren_after_blank_accepted ped r st0 l k toks c :
  (c = ch_space \/ c = ch_tab) ->
  exists s', lex_step ped (mkLst ("("%char :: r) st0 l k (Some c)) toks = LOk s' (mkTok TLPAREN l k [] :: toks).
Proof.
  intros [H|H]; subst c; unfold lex_step; cbn [curc rest prevc]; cbn; destruct toks; eauto.
Qed.

(* ---------------- invariants carried through the main loop ---------------- *)
Lemma lex_loop_invariant (P : list token -> Prop) ped :
  (forall s toks s' toks', P toks -> at_end s = false -> lex_step ped s toks = LOk s' toks' -> P toks') ->
  forall fuel s toks s' toks', P toks -> lex_loop fuel ped s toks = LOk s' toks' -> P toks'.
Proof.
  intros Hstep. induction fuel as [|f IH]; intros s toks s' toks' HP H; cbn in H.
  - inversion H; subst; exact HP.
  - destruct (at_end s) eqn:E; [inversion H; subst; exact HP|].
    destruct (lex_step ped s toks) as [s1 toks1|e] eqn:E1; [|discriminate].
    eapply IH; [|exact H]. eapply Hstep; eauto.
Qed.

(* token well-formedness needed by the parser's literal constructors (C01): a CHAR token holds exactly one
   character, INTEGER/REAL tokens are non-empty and start with a digit *)
Definition tok_wf (t : token) : Prop :=
  match tt t with
  | TCHAR => exists ch, tval t = [ch]
  | TINTEGER | TREAL => exists ch r, tval t = ch :: r /\ is_digit ch = true
  | _ => True
  end.

Lemma number_loop_prefix : forall fuel s d acc s' d' txt,
  number_loop fuel s d acc = (s', d', txt) -> exists more, txt = rev acc ++ more.
Proof.
  induction fuel as [|f IH]; intros s d acc s' d' txt H; cbn in H.
  - inversion H; subst. exists []. rewrite app_nil_r. reflexivity.
  - destruct (at_end s); [inversion H; subst; exists []; rewrite app_nil_r; reflexivity|].
    destruct (aeqb (curc s) "." && negb d).
    + apply IH in H. destruct H as [more H]. exists (curc s :: more). rewrite H. cbn [rev]. rewrite <- app_assoc. reflexivity.
    + destruct (is_digit (curc s)).
      * apply IH in H. destruct H as [more H]. exists (curc s :: more). rewrite H. cbn [rev]. rewrite <- app_assoc. reflexivity.
      * inversion H; subst. exists []. rewrite app_nil_r. reflexivity.
Qed.

Lemma make_number_wf s toks s' toks' :
  at_end s = false -> is_digit (curc s) = true -> Forall tok_wf toks -> make_number s toks = LOk s' toks' -> Forall tok_wf toks'.
Proof.
  intros He Hd HP H. unfold make_number in H.
  destruct (number_loop (S (List.length (rest s))) s false []) as [[s1 dec] txt] eqn:En.
  assert (Ht : exists ch r, txt = ch :: r /\ is_digit ch = true).
  { cbn [number_loop] in En. rewrite He in En.
    assert (Hp : (aeqb (curc s) "." && negb false) = false).
    { destruct (aeqb (curc s) ".") eqn:E; [|reflexivity]. apply Ascii.eqb_eq in E. rewrite E in Hd. discriminate. }
    rewrite Hp, Hd in En. apply number_loop_prefix in En. destruct En as [more En]. cbn in En. eauto. }
  destruct (negb (aeqb (curc s1) "/") || dec).
  - inversion H; subst. constructor; [|exact HP]. unfold tok_wf. cbn. destruct dec; exact Ht.
  - destruct ((List.length (tl (rest s1)) <? 0)%nat); cbn in H.
    all: repeat match type of H with
         | (if ?b then _ else _) = _ => destruct b
         | (let '(_, _) := ?x in _) = _ => destruct x
         end; inversion H; subst; constructor; try exact HP; unfold tok_wf; cbn; try (destruct dec; exact Ht); exact I.
Qed.

Lemma make_char_wf s toks s' toks' : Forall tok_wf toks -> make_char s toks = LOk s' toks' -> Forall tok_wf toks'.
Proof.
  intros HP H. unfold make_char in H.
  destruct (List.length (rest s) <? 3)%nat; [discriminate|].
  repeat match type of H with
         | match (if ?b then _ else _) with _ => _ end = _ => destruct b
         | match (match ?x with _ => _ end) with _ => _ end = _ => destruct x
         | match ?x with _ => _ end = _ => destruct x
         | (if ?b then _ else _) = _ => destruct b
         end; try discriminate; inversion H; subst; constructor; try exact HP; unfold tok_wf; cbn; eauto.
Qed.

Lemma make_word_wf ped s toks s' toks' : Forall tok_wf toks -> make_word ped s toks = LOk s' toks' -> Forall tok_wf toks'.
Proof.
  intros HP H. unfold make_word in H.
  destruct (word_loop (S (List.length (rest s))) s []) as [s1 w].
  destruct (lookup_kw w keywords) as [k|] eqn:Ek.
  - assert (Hk : k <> TCHAR /\ k <> TINTEGER /\ k <> TREAL).
    { clear -Ek. revert Ek. unfold keywords. cbn [lookup_kw].
      repeat match goal with |- context [if ?b then _ else _] => destruct b end; intros E; inversion E; subst; repeat split; discriminate. }
    destruct Hk as [K1 [K2 K3]].
    destruct k; try (destruct ped; try discriminate); inversion H; subst; constructor; try exact HP; unfold tok_wf; cbn; try exact I; congruence.
  - destruct (is_data_type_word w); inversion H; subst; constructor; try exact HP; exact I.
Qed.

Lemma make_string_wf s toks s' toks' : Forall tok_wf toks -> make_string s toks = LOk s' toks' -> Forall tok_wf toks'.
Proof.
  intros HP H. unfold make_string in H.
  destruct (string_loop (S (List.length (rest (advance s)))) (advance s) []) as [[s2 acc]|e]; [|discriminate].
  destruct (at_end s2 || negb (aeqb (curc s2) ch_dquote)); [discriminate|]. inversion H; subst. constructor; [exact I|exact HP].
Qed.

Lemma lex_step_wf ped s toks s' toks' :
  Forall tok_wf toks -> at_end s = false -> lex_step ped s toks = LOk s' toks' -> Forall tok_wf toks'.
Proof.
  intros HP He H. unfold lex_step in H.
  destruct (simple_tok (curc s)) as [k|] eqn:Es.
  { assert (Hk : k <> TCHAR /\ k <> TINTEGER /\ k <> TREAL).
    { clear -Es. unfold simple_tok in Es.
      repeat match type of Es with (if ?b then _ else _) = _ => destruct b end; inversion Es; subst; repeat split; discriminate. }
    destruct Hk as [K1 [K2 K3]]. inversion H; subst. constructor; [|exact HP]. unfold tok_wf. cbn. destruct k; try exact I; congruence. }
  destruct (aeqb (curc s) "/").
  { destruct (at_end (advance s) || negb (aeqb (curc (advance s)) "/")); inversion H; subst; [constructor; [exact I|exact HP]|exact HP]. }
  destruct (aeqb (curc s) "(").
  { match type of H with (if ?b then _ else _) = _ => destruct b end; [discriminate|]. inversion H; subst. constructor; [exact I|exact HP]. }
  destruct (aeqb (curc s) "=").
  { destruct (at_end (advance s) || negb (aeqb (curc (advance s)) "=")); [|discriminate]. inversion H; subst. constructor; [exact I|exact HP]. }
  destruct (aeqb (curc s) ch_quote); [eapply make_char_wf; eauto|].
  destruct (aeqb (curc s) ch_dquote); [eapply make_string_wf; eauto|].
  destruct (aeqb (curc s) ">").
  { destruct (at_end (advance s) || negb (aeqb (curc (advance s)) "=")); inversion H; subst; constructor; try exact HP; exact I. }
  destruct (aeqb (curc s) "<").
  { repeat match type of H with (if ?b then _ else _) = _ => destruct b end; inversion H; subst; constructor; try exact HP; exact I. }
  destruct (is_alpha (curc s)); [eapply make_word_wf; eauto|].
  destruct (is_digit (curc s)) eqn:Ed; [eapply make_number_wf; eauto|].
  destruct (aeqb (curc s) ch_space || aeqb (curc s) ch_tab); [|discriminate]. inversion H; subst. exact HP.
Qed.

Lemma lex_tokens_wf ped input toks : lex ped input = inl toks -> Forall tok_wf toks.
Proof.
  unfold lex. destruct (lex_loop (S (List.length (remove_cr input))) ped (init_lst (remove_cr input)) []) as [s ts|e] eqn:E; [|discriminate].
  intros H. inversion H; subst. apply Forall_app. split; [apply Forall_rev|constructor; [exact I|constructor]].
  eapply (lex_loop_invariant (Forall tok_wf) ped); [|constructor|exact E].
  intros s0 t0 s1 t1 HP He Hs. eapply lex_step_wf; eauto.
Qed.

(* ---------------- --pedantic only rejects, in the lexer ---------------- *)
Lemma make_word_ped s toks s' toks' : make_word true s toks = LOk s' toks' -> make_word false s toks = LOk s' toks'.
Proof.
  unfold make_word. destruct (word_loop (S (List.length (rest s))) s []) as [s1 w].
  destruct (lookup_kw w keywords) as [k|]; [|auto]. destruct k; auto; discriminate.
Qed.

Lemma lex_step_ped s toks s' toks' : lex_step true s toks = LOk s' toks' -> lex_step false s toks = LOk s' toks'.
Proof.
  unfold lex_step. destruct (simple_tok (curc s)); [auto|].
  repeat match goal with |- context [if ?b then _ else _] => destruct b end; auto using make_word_ped.
Qed.

Lemma lex_loop_ped : forall fuel s toks s' toks', lex_loop fuel true s toks = LOk s' toks' -> lex_loop fuel false s toks = LOk s' toks'.
Proof.
  induction fuel as [|f IH]; intros s toks s' toks' H; cbn in *; [exact H|].
  destruct (at_end s); [exact H|].
  destruct (lex_step true s toks) as [s1 t1|e] eqn:E; [|discriminate].
  rewrite (lex_step_ped _ _ _ _ E). apply IH. exact H.
Qed.

Lemma lex_ped_only_rejects input toks : lex true input = inl toks -> lex false input = inl toks.
Proof.
  unfold lex. destruct (lex_loop (S (List.length (remove_cr input))) true (init_lst (remove_cr input)) []) as [s ts|e] eqn:E; [|discriminate].
  rewrite (lex_loop_ped _ _ _ _ _ E). auto.
Qed.


(* relational form: under --pedantic a lexer step gives the same result or a pedantic error *)
Definition lres_rel (x y : lres) : Prop := x = y \/ exists e, x = LErr e /\ le_kind e = LexPedantic.

Lemma make_word_rel s toks : lres_rel (make_word true s toks) (make_word false s toks).
Proof.
  unfold make_word. destruct (word_loop (S (List.length (rest s))) s []) as [s1 w].
  destruct (lookup_kw w keywords) as [k|]; [|left; reflexivity].
  destruct k; try (left; reflexivity); right; eexists; split; reflexivity.
Qed.

Lemma lex_step_rel s toks : lres_rel (lex_step true s toks) (lex_step false s toks).
Proof.
  unfold lex_step. destruct (simple_tok (curc s)); [left; reflexivity|].
  repeat match goal with |- context [if ?b then _ else _] => destruct b end; try (left; reflexivity). apply make_word_rel.
Qed.

Lemma lex_loop_rel : forall fuel s toks, lres_rel (lex_loop fuel true s toks) (lex_loop fuel false s toks).
Proof.
  induction fuel as [|f IH]; intros s toks; cbn; [left; reflexivity|].
  destruct (at_end s); [left; reflexivity|].
  destruct (lex_step_rel s toks) as [E|[e [E Hk]]].
  - rewrite E. destruct (lex_step false s toks); [apply IH|left; reflexivity].
  - rewrite E. right. eauto.
Qed.

Lemma lex_rel input : lex true input = lex false input \/ exists e, lex true input = inr e /\ le_kind e = LexPedantic.
Proof.
  unfold lex. destruct (lex_loop_rel (S (List.length (remove_cr input))) (init_lst (remove_cr input)) []) as [E|[e [E Hk]]].
  - rewrite E. left. reflexivity.
  - rewrite E. right. eauto.
Qed.

(* with the option, an accepted text contains no BREAK and no CONTINUE token: they are rejected, not dropped *)
Definition not_bc (t : token) : Prop := tt t <> TBREAK /\ tt t <> TCONTINUE.

Lemma make_word_no_bc s toks s' toks' : Forall not_bc toks -> make_word true s toks = LOk s' toks' -> Forall not_bc toks'.
Proof.
  intros HP. unfold make_word. destruct (word_loop (S (List.length (rest s))) s []) as [s1 w].
  destruct (lookup_kw w keywords) as [k|].
  - destruct k; intros H; try discriminate; inversion H; subst; (constructor; [split; discriminate|exact HP]).
  - destruct (is_data_type_word w); intros H; inversion H; subst; (constructor; [split; discriminate|exact HP]).
Qed.
Lemma make_number_no_bc s toks s' toks' : Forall not_bc toks -> make_number s toks = LOk s' toks' -> Forall not_bc toks'.
Proof.
  intros HP. unfold make_number. destruct (number_loop (S (List.length (rest s))) s false []) as [[s1 d] txt].
  cbv zeta. repeat match goal with |- context [if ?b then _ else _] => destruct b end;
  try destruct (digits_loop _ _ _) as [s3 yrev]; intros H; inversion H; subst; (constructor; [split; discriminate|exact HP]).
Qed.
Lemma make_char_no_bc s toks s' toks' : Forall not_bc toks -> make_char s toks = LOk s' toks' -> Forall not_bc toks'.
Proof.
  intros HP. unfold make_char. destruct (Nat.ltb _ 3); [discriminate|]. cbv zeta.
  match goal with |- context [match ?b with inl _ => _ | inr _ => _ end] => destruct b as [[s2 c]|e] end; [|discriminate].
  destruct (rest s2) as [|x [|q r]]; try discriminate. destruct (aeqb q ch_quote); [|discriminate].
  intros H; inversion H; subst. constructor; [split; discriminate|exact HP].
Qed.
Lemma make_string_no_bc s toks s' toks' : Forall not_bc toks -> make_string s toks = LOk s' toks' -> Forall not_bc toks'.
Proof.
  intros HP. unfold make_string. cbv zeta. destruct (string_loop _ _ _) as [[s2 acc]|e]; [|discriminate].
  destruct (at_end s2 || negb (aeqb (curc s2) ch_dquote)); [discriminate|].
  intros H; inversion H; subst. constructor; [split; discriminate|exact HP].
Qed.

Lemma lex_step_no_bc s toks s' toks' :
  Forall not_bc toks -> lex_step true s toks = LOk s' toks' -> Forall not_bc toks'.
Proof.
  intros HP H. unfold lex_step in H.
  destruct (simple_tok (curc s)) as [k|] eqn:Es.
  { assert (Hk : k <> TBREAK /\ k <> TCONTINUE).
    { clear -Es. unfold simple_tok in Es.
      repeat match type of Es with (if ?b then _ else _) = _ => destruct b end; inversion Es; subst; split; discriminate. }
    inversion H; subst. constructor; [exact Hk|exact HP]. }
  destruct (aeqb (curc s) "/").
  { destruct (at_end (advance s) || negb (aeqb (curc (advance s)) "/")); inversion H; subst; [constructor; [split; discriminate|exact HP]|exact HP]. }
  destruct (aeqb (curc s) "(").
  { match type of H with (if ?b then _ else _) = _ => destruct b end; [discriminate|]. inversion H; subst. constructor; [split; discriminate|exact HP]. }
  destruct (aeqb (curc s) "=").
  { destruct (at_end (advance s) || negb (aeqb (curc (advance s)) "=")); [|discriminate]. inversion H; subst. constructor; [split; discriminate|exact HP]. }
  destruct (aeqb (curc s) ch_quote); [eapply make_char_no_bc; eauto|].
  destruct (aeqb (curc s) ch_dquote); [eapply make_string_no_bc; eauto|].
  destruct (aeqb (curc s) ">").
  { destruct (at_end (advance s) || negb (aeqb (curc (advance s)) "=")); inversion H; subst; constructor; try exact HP; split; discriminate. }
  destruct (aeqb (curc s) "<").
  { repeat match type of H with (if ?b then _ else _) = _ => destruct b end; inversion H; subst; constructor; try exact HP; split; discriminate. }
  destruct (is_alpha (curc s)); [eapply make_word_no_bc; eauto|].
  destruct (is_digit (curc s)) eqn:Ed; [eapply make_number_no_bc; eauto|].
  destruct (aeqb (curc s) ch_space || aeqb (curc s) ch_tab); [|discriminate]. inversion H; subst. exact HP.
Qed.

Lemma lex_ped_no_break_continue input toks : lex true input = inl toks -> Forall not_bc toks.
Proof.
  unfold lex. destruct (lex_loop (S (List.length (remove_cr input))) true (init_lst (remove_cr input)) []) as [s ts|e] eqn:E; [|discriminate].
  intros H. inversion H; subst. apply Forall_app. split; [apply Forall_rev|constructor; [split; discriminate|constructor]].
  eapply (lex_loop_invariant (Forall not_bc) true); [|constructor|exact E].
  intros s0 t0 s1 t1 HP He Hs. eapply lex_step_no_bc; eauto.
Qed.
