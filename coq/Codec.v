(* Codec.v — the record codec of random files: dump/load of every value kind as byte strings
   (src/psc/types/*.cpp dump/load, src/psc/array.cpp, src/psc/types/userType.cpp) and the
   record <-> physical line mapping of src/psc/file.cpp. *)
From PE2 Require Export Real.
Local Open Scope Z_scope.

Inductive vtree :=
 | VInt (z : Z) | VReal (r : real) | VBool (b : bool) | VChar (c : ascii) | VStr (s : str)
 | VDate (d m y : Z) | VEnum (tn : str) (size : Z) (idx : Z) | VPtr
 | VRec (tn : str) (fields : list vtree) (arrays : list (list vtree)).

Definition sp : str := [ch_space].
Fixpoint join_sp (l : list str) : str :=
  match l with [] => [] | [x] => x | x :: r => x ++ sp ++ join_sp r end.

Fixpoint mark_newlines (s : str) : str :=
  match s with [] => [] | c :: r => if aeqb c ch_nl then c :: ch_hash :: mark_newlines r else c :: mark_newlines r end.

Definition slen' (s : str) : Z := Z.of_nat (List.length s).

(* None when a REAL is NaN (its text form depends on the sign bit, which spec_float does not carry) *)
Fixpoint dump (v : vtree) : option str :=
  match v with
  | VInt z => Some (str_of_string "INTEGER " ++ z_to_str z)
  | VReal r => match fmt_g 17 r with Some t => Some (str_of_string "REAL " ++ t) | None => None end
  | VBool b => Some (str_of_string (if b then "BOOLEAN TRUE" else "BOOLEAN FALSE"))
  | VChar c => Some (str_of_string "CHAR " ++ [c] ++ (if aeqb c ch_nl then [ch_hash] else []))
  | VStr s => let m := mark_newlines s in Some (str_of_string "STRING " ++ z_to_str (slen' m) ++ sp ++ m)
  | VDate d m y => Some (str_of_string "DATE " ++ z_to_str d ++ sp ++ z_to_str m ++ sp ++ z_to_str y)
  | VEnum tn _ idx => Some (str_of_string "ENUM " ++ tn ++ sp ++ z_to_str idx)
  | VPtr => Some []
  | VRec tn fields arrays =>
    let fix dump_list (l : list vtree) : option (list str) :=
        match l with
        | [] => Some []
        | x :: r => match dump x, dump_list r with Some a, Some b => Some (a :: b) | _, _ => None end
        end in
    let dump_array (l : list vtree) : option str :=
        match dump_list l with
        | Some ds => Some (str_of_string "ARRAY " ++ z_to_str (slen' (map (fun _ => ch_nul) l)) ++ sp ++ join_sp ds)
        | None => None end in
    let fix dump_arrays (l : list (list vtree)) : option (list str) :=
        match l with
        | [] => Some []
        | x :: r => match dump_array x, dump_arrays r with Some a, Some b => Some (a :: b) | _, _ => None end
        end in
    match dump_list fields, dump_arrays arrays with
    | Some fs, Some ars =>
      Some (str_of_string "COMPOSITE " ++ tn ++ sp ++ join_sp fs ++
            (match ars with [] => [] | _ => sp end) ++ join_sp ars)
    | _, _ => None
    end
  end.

Fixpoint dump_list (l : list vtree) : option (list str) :=
  match l with
  | [] => Some []
  | x :: r => match dump x, dump_list r with Some a, Some b => Some (a :: b) | _, _ => None end
  end.
(* Array::dump for a top-level array variable *)
Definition dump_array (l : list vtree) : option str :=
  match dump_list l with
  | Some ds => Some (str_of_string "ARRAY " ++ z_to_str (Z.of_nat (List.length l)) ++ sp ++ join_sp ds)
  | None => None
  end.

(* ---------------- istream primitives ---------------- *)
Fixpoint take_word (s : str) (acc : str) : str * str :=
  match s with
  | c :: r => if is_cspace c then (rev acc, s) else take_word r (c :: acc)
  | [] => (rev acc, [])
  end.
(* in >> std::string : None = failbit *)
Definition rd_word (s : str) : option (str * str) :=
  let '(w, r) := take_word (skip_space s) [] in
  match w with [] => None | _ => Some (w, r) end.

(* in >> long / unsigned / size_t (sign accepted; out of range = failbit) *)
Definition rd_integer (lo hi : Z) (s : str) : option (Z * str) :=
  let s1 := skip_space s in
  let '(neg, s2) := match s1 with
                    | c :: r => if aeqb c "-"%char then (true, r) else if aeqb c "+"%char then (false, r) else (false, s1)
                    | [] => (false, []) end in
  let '(ds, r) := take_digits s2 [] in
  match ds with
  | [] => None
  | _ => let v := digits_to_z ds in let v := if neg then - v else v in
         if (lo <=? v) && (v <=? hi) then Some (v, r) else None
  end.
Definition rd_long := rd_integer int64_min int64_max.
Definition rd_size := rd_integer 0 (two64 - 1).
Definition rd_uint := rd_integer 0 4294967295.
Definition rd_int := rd_integer (-2147483648) 2147483647.

(* in >> double : libstdc++ collects [sign] digits [. digits] [e [sign] digits] and converts *)
Definition rd_double (s : str) : option (real * str) :=
  let s1 := skip_space s in
  let '(sg, s2) := match s1 with
                   | c :: r => if aeqb c "-"%char || aeqb c "+"%char then ([c], r) else ([], s1)
                   | [] => ([], []) end in
  let '(ip, s3) := take_digits s2 [] in
  let '(fp, s4, pt) := match s3 with
                       | c :: r => if aeqb c "."%char then let '(d, r') := take_digits r [] in (d, r', [c]) else ([], s3, [])
                       | [] => ([], s3, []) end in
  match ip ++ fp with
  | [] => None
  | _ =>
    let '(ex, s5) :=
      match s4 with
      | c :: r => if aeqb (to_lower c) "e"%char then
                    let '(esg, r1) := match r with
                                      | x :: t => if aeqb x "-"%char || aeqb x "+"%char then ([x], t) else ([], r)
                                      | [] => ([], []) end in
                    let '(ed, r2) := take_digits r1 [] in
                    (c :: esg ++ ed, r2)
                  else ([], s4)
      | [] => ([], s4) end in
    let txt := sg ++ ip ++ pt ++ fp ++ ex in
    let sr := strtod_pfx txt in
    match sr_rest sr with
    | [] => if is_inf (sr_val sr) then None else Some (sr_val sr, s5)
    | _ => None
    end
  end.

(* ---------------- load ---------------- *)
(* [load old s] reads a value shaped like [old] from s; result: updated tree, rest, success *)
Definition expect_tag (tag : string) (s : str) : option str :=
  match rd_word s with Some (w, r) => if str_eqb w (str_of_string tag) then Some r else None | None => None end.

Fixpoint read_marked (n : nat) (first : bool) (prev : ascii) (s : str) (acc : str) : option (str * str) :=
  match n with
  | O => Some (rev acc, s)
  | S k => match s with
           | [] => None
           | c :: r => if negb first && aeqb c ch_hash && aeqb prev ch_nl
                       then read_marked k false c r acc
                       else read_marked k false c r (c :: acc)
           end
  end.

Definition narrow_u8 (z : Z) : Z := z mod 256.
Definition narrow_i16 (z : Z) : Z := (z + 32768) mod 65536 - 32768.

Fixpoint load (old : vtree) (s : str) : vtree * str * bool :=
  match old with
  | VInt _ => match expect_tag "INTEGER" s with
              | Some r => match rd_long r with Some (v, r') => (VInt v, r', true) | None => (VInt 0, r, false) end
              | None => (old, s, false) end
  | VReal _ => match expect_tag "REAL" s with
               | Some r => match rd_double r with Some (v, r') => (VReal v, r', true) | None => (VReal rzero, r, false) end
               | None => (old, s, false) end
  | VBool _ => match expect_tag "BOOLEAN" s with
               | Some r => match rd_word r with
                           | Some (w, r') => if str_eqb w (str_of_string "TRUE") then (VBool true, r', true)
                                             else if str_eqb w (str_of_string "FALSE") then (VBool false, r', true)
                                             else (old, r', false)
                           | None => (old, r, false) end
               | None => (old, s, false) end
  | VChar _ => match expect_tag "CHAR" s with
               | Some r => match r with
                           | _ :: c :: r' =>
                             (VChar c, (if aeqb c ch_nl then match r' with h :: t => if aeqb h ch_hash then t else r' | [] => r' end else r'), true)
                           | _ => (VChar (ascii_of_z 255), [], false)      (* get() at end of data: EOF cast to char *)
                           end
               | None => (old, s, false) end
  | VStr _ => match expect_tag "STRING" s with
              | Some r => match rd_word r with
                          | Some (w, r1) =>
                            if forallb is_digit w && (digits_to_z w <? two64) then
                              match r1 with
                              | _ :: r2 => match (if digits_to_z w <=? slen' r2 then read_marked (Z.to_nat (digits_to_z w)) true ch_nul r2 [] else None) with
                                           | Some (v, r3) => (VStr v, r3, true)
                                           | None => (VStr [], [], false)
                                           end
                              | [] => if digits_to_z w =? 0 then (VStr [], [], true) else (VStr [], [], false)
                              end
                            else (old, r1, false)
                          | None => (old, r, false) end
              | None => (old, s, false) end
  | VDate _ _ _ => match expect_tag "DATE" s with
                   | Some r => match rd_uint r with
                               | Some (d, r1) => match rd_uint r1 with
                                 | Some (m, r2) => match rd_int r2 with
                                   | Some (y, r3) => (VDate (narrow_u8 d) (narrow_u8 m) (narrow_i16 y), r3, true)
                                   | None => (old, r2, false) end
                                 | None => (old, r1, false) end
                               | None => (old, r, false) end
                   | None => (old, s, false) end
  | VEnum tn size _ => match expect_tag "ENUM" s with
                       | Some r => match rd_word r with
                                   | Some (w, r1) => if str_eqb w tn then
                                                       match rd_size r1 with
                                                       | Some (i, r2) => if i <? size then (VEnum tn size i, r2, true) else (old, r2, false)
                                                       | None => (old, r1, false) end
                                                     else (old, r1, false)
                                   | None => (old, r, false) end
                       | None => (old, s, false) end
  | VPtr => (old, s, false)
  | VRec tn fields arrays =>
    match expect_tag "COMPOSITE" s with
    | Some r => match rd_word r with
                | Some (w, r1) =>
                  if str_eqb w tn then
                    let fix load_list (l : list vtree) (s : str) : list vtree * str * bool :=
                        match l with
                        | [] => ([], s, true)
                        | x :: t => let '(x', s', ok) := load x s in
                                    if ok then let '(t', s'', ok') := load_list t s' in (x' :: t', s'', ok')
                                    else (x' :: t, s', false)
                        end in
                    let load_arr (l : list vtree) (s : str) : list vtree * str * bool :=
                        match expect_tag "ARRAY" s with
                        | Some r => match rd_size r with
                                    | Some (n, r') => if n =? slen' (map (fun _ => ch_nul) l) then load_list l r' else (l, r', false)
                                    | None => (l, r, false) end
                        | None => (l, s, false) end in
                    let fix load_arrs (l : list (list vtree)) (s : str) : list (list vtree) * str * bool :=
                        match l with
                        | [] => ([], s, true)
                        | x :: t => let '(x', s', ok) := load_arr x s in
                                    if ok then let '(t', s'', ok') := load_arrs t s' in (x' :: t', s'', ok')
                                    else (x' :: t, s', false)
                        end in
                    let '(fs, s1, ok1) := load_list fields r1 in
                    if ok1 then let '(ars, s2, ok2) := load_arrs arrays s1 in (VRec tn fs ars, s2, ok2)
                    else (VRec tn fs arrays, s1, false)
                  else (old, r1, false)
                | None => (old, r, false) end
    | None => (old, s, false)
    end
  end.

Fixpoint load_list (l : list vtree) (s : str) : list vtree * str * bool :=
  match l with
  | [] => ([], s, true)
  | x :: t => let '(x', s', ok) := load x s in
              if ok then let '(t', s'', ok') := load_list t s' in (x' :: t', s'', ok')
              else (x' :: t, s', false)
  end.
(* Array::load for a top-level array variable *)
Definition load_array (l : list vtree) (s : str) : list vtree * str * bool :=
  match expect_tag "ARRAY" s with
  | Some r => match rd_size r with
              | Some (n, r') => if n =? Z.of_nat (List.length l) then load_list l r' else (l, r', false)
              | None => (l, r, false) end
  | None => (l, s, false) end.

(* ---------------- records <-> physical lines (File::File RANDOM, File::close) ---------------- *)
Fixpoint split_lines_aux (s : str) (cur : str) : list str :=
  match s with
  | [] => [rev cur]
  | c :: r => if aeqb c ch_nl then rev cur :: split_lines_aux r [] else split_lines_aux r (c :: cur)
  end.
Definition split_lines (s : str) : list str := split_lines_aux s [].

Fixpoint merge_records (lines : list str) (acc : list str) : list str :=     (* acc: records, most recent first *)
  match lines with
  | [] => acc
  | l :: r => match l, acc with
              | c :: _, last :: acc' => if aeqb c ch_hash then merge_records r ((last ++ ch_nl :: l) :: acc')
                                        else merge_records r (l :: acc)
              | _, _ => merge_records r (l :: acc)
              end
  end.
Fixpoint drop_empty_front (l : list str) : list str :=
  match l with [] :: r => drop_empty_front r | _ => l end.

(* records of a random file as loaded at OPENFILE *)
Definition load_records (content : str) : list str :=
  match content with
  | [] => []
  | _ => rev (drop_empty_front (merge_records (split_lines content) []))
  end.
(* File::close for a modified random file *)
Definition store_records (recs : list str) : str := List.concat (map (fun r => r ++ [ch_nl]) recs).
