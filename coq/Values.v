(* Values.v — data types, values, the heap/context state and the state-and-failure monad of the
   interpreter model.  NodeResult keeps its DataType tag and its payload SEPARATE, exactly as the
   C++ does; consumers use partial downcasts that return a Crash when tag and payload disagree. *)
From Coq Require Export FSets.FMapPositive.
From PE2 Require Export Ast Real.
Local Open Scope Z_scope.

(* finite maps keyed by the ids of the heap (N), as binary tries *)
Definition nmap (A : Type) := PositiveMap.t A.
Definition nm_empty {A} : nmap A := PositiveMap.empty A.
Definition nm_get {A} (k : N) (m : nmap A) : option A := PositiveMap.find (N.succ_pos k) m.
Definition nm_put {A} (k : N) (v : A) (m : nmap A) : nmap A := PositiveMap.add (N.succ_pos k) v m.

Lemma nm_get_put_same {A} k (v : A) m : nm_get k (nm_put k v m) = Some v.
Proof. unfold nm_get, nm_put. apply PositiveMap.gss. Qed.
Lemma nm_get_put_other {A} k k' (v : A) m : k <> k' -> nm_get k' (nm_put k v m) = nm_get k' m.
Proof.
  intros H. unfold nm_get, nm_put. apply PositiveMap.gso. intro E. apply H.
  apply (f_equal Pos.pred_N) in E. rewrite !N.pos_pred_succ in E. congruence.
Qed.

Record dtype := mkDT { dk : dkind; dname : option str }.
Definition dt_none := mkDT KNone None.
Definition dt_prim (k : dkind) := mkDT k None.

(* DataType::operator==(const DataType&) : kinds only, unless both sides carry a type name *)
Definition dt_eq (a b : dtype) : bool :=
  match dname a, dname b with
  | Some x, Some y => dk_eqb (dk a) (dk b) && str_eqb x y
  | _, _ => dk_eqb (dk a) (dk b)
  end.
Definition dt_is (a : dtype) (k : dkind) : bool := dk_eqb (dk a) k.

Inductive payload :=
 | PInt (z : Z)
 | PReal (r : real)
 | PBool (b : bool)
 | PChar (c : ascii)
 | PStr (s : str)
 | PDate (d m y : Z)                       (* std::chrono::year_month_day, possibly not ok() *)
 | PEnum (tn : str) (idx : Z)
 | PPtr (tn : str) (target : option N) (owner : N)   (* owner = id of the activation owning the target, 0 = unset *)
 | PRec (tn : str) (c : N).                (* id of the record's private context *)

Definition payload_kind (p : payload) : dkind :=
  match p with
  | PInt _ => KInt | PReal _ => KReal | PBool _ => KBool | PChar _ => KChar | PStr _ => KStr
  | PDate _ _ _ => KDate | PEnum _ _ => KEnum | PPtr _ _ _ => KPtr | PRec _ _ => KRec
  end.
Definition is_primitive (p : payload) : bool :=
  match p with PEnum _ _ | PPtr _ _ _ | PRec _ _ => false | _ => true end.

Record result := mkRes { r_type : dtype; r_val : option payload }.
Definition res_none : result := mkRes dt_none None.
Definition res_of (k : dkind) (p : payload) : result := mkRes (dt_prim k) (Some p).

Record cell := mkCell { c_name : str; c_type : dtype; c_const : bool; c_owner : N; c_val : payload }.
Record arr := mkArr { a_name : str; a_type : dtype; a_dims : list (Z * Z); a_elems : list N }.

Record ctx := mkCtx {
  x_parent : option N; x_name : str;
  x_vars : list (str * N);            (* declaration order *)
  x_arrs : list (str * N);
  x_enums : list (str * list str);
  x_ptrs : list (str * dtype);
  x_comps : list (str * block);
  x_isfun : bool; x_isrec : bool;
  x_rettype : dtype; x_retval : option result;
  x_switch : option (Z * Z);
  x_depth : nat }.                    (* distance to the root of the parent chain *)

Record pdef := mkPdef { pd_params : list (str * dtype * bool); pd_body : block }.
Record fdef := mkFdef { fd_params : list (str * dtype * bool); fd_body : block; fd_ret : dtype; fd_tok : token }.

Record ofile := mkOfile {
  of_name : str; of_mode : fmode;
  of_rest : str;                      (* READ: bytes not yet consumed *)
  of_recs : list str; of_ptr : Z; of_modified : bool }.   (* RANDOM *)

Inductive dkindg := DSyntax | DRuntime | DPedantic.
Inductive ecls := ENotDefined | EArrayDirect (c : N) | EOther | EBudget.
Record diag := mkDiag { d_kind : dkindg; d_line : Z; d_col : Z; d_cls : ecls; d_trace : list (str * Z * Z) }.

Record st := mkSt {
  s_next : N;
  s_cells : nmap cell; s_arrs : nmap arr; s_ctxs : nmap ctx;
  s_procs : list (str * pdef); s_funcs : list (str * fdef);
  s_out : list str;                   (* chunks, most recent first *)
  s_in : str;                         (* unread standard input *)
  s_fs : list (str * str);            (* disk: name -> contents *)
  s_files : list ofile;
  s_steps : Z; s_cellcount : Z; s_depth : Z;
  s_rand : list Z }.                  (* oracle: future results of rand() *)

Record limits := mkLim { max_steps : Z; max_depth : Z; max_cells : Z; max_strlen : Z }.   (* 0 = unlimited *)

Inductive fail :=
 | FErr (d : diag)
 | FCrash (site : string)
 | FFuel
 | FBreak (t : token) | FContinue (t : token) | FReturn
 | FUnsupported (what : string).

Inductive outcome (A : Type) := Ok (a : A) | Fail (f : fail).
Arguments Ok {A}. Arguments Fail {A}.

Definition M (A : Type) := st -> outcome A * st.
Definition ret {A} (a : A) : M A := fun s => (Ok a, s).
Definition bind {A B} (m : M A) (k : A -> M B) : M B :=
  fun s => match m s with (Ok a, s') => k a s' | (Fail f, s') => (Fail f, s') end.
Definition failm {A} (f : fail) : M A := fun s => (Fail f, s).
Definition crash {A} (site : string) : M A := failm (FCrash site).
Definition unsupported {A} (w : string) : M A := failm (FUnsupported w).
Definition gets {A} (f : st -> A) : M A := fun s => (Ok (f s), s).
Definition modify (f : st -> st) : M unit := fun s => (Ok Datatypes.tt, f s).

Notation "x <- m ;; k" := (bind m (fun x => k)) (at level 61, m at next level, right associativity).
Notation "' p <- m ;; k" := (bind m (fun x => let p := x in k)) (at level 61, p pattern, m at next level, right associativity).
Notation "m ;;; k" := (bind m (fun _ => k)) (at level 61, right associativity).

(* try m; on failure f with (handler f = Some m') continue with m' in the state reached *)
Definition catch {A} (m : M A) (h : fail -> option (M A)) : M A :=
  fun s => match m s with
           | (Ok a, s') => (Ok a, s')
           | (Fail f, s') => match h f with Some m' => m' s' | None => (Fail f, s') end
           end.

Fixpoint mapM {A B} (f : A -> M B) (l : list A) : M (list B) :=
  match l with [] => ret [] | x :: r => y <- f x ;; ys <- mapM f r ;; ret (y :: ys) end.
Fixpoint iterM {A} (f : A -> M unit) (l : list A) : M unit :=
  match l with [] => ret Datatypes.tt | x :: r => f x ;;; iterM f r end.

(* ---------- state accessors ---------- *)
Definition set_next n s := mkSt n (s_cells s) (s_arrs s) (s_ctxs s) (s_procs s) (s_funcs s) (s_out s) (s_in s) (s_fs s) (s_files s) (s_steps s) (s_cellcount s) (s_depth s) (s_rand s).
Definition set_cells v s := mkSt (s_next s) v (s_arrs s) (s_ctxs s) (s_procs s) (s_funcs s) (s_out s) (s_in s) (s_fs s) (s_files s) (s_steps s) (s_cellcount s) (s_depth s) (s_rand s).
Definition set_arrs v s := mkSt (s_next s) (s_cells s) v (s_ctxs s) (s_procs s) (s_funcs s) (s_out s) (s_in s) (s_fs s) (s_files s) (s_steps s) (s_cellcount s) (s_depth s) (s_rand s).
Definition set_ctxs v s := mkSt (s_next s) (s_cells s) (s_arrs s) v (s_procs s) (s_funcs s) (s_out s) (s_in s) (s_fs s) (s_files s) (s_steps s) (s_cellcount s) (s_depth s) (s_rand s).
Definition set_procs v s := mkSt (s_next s) (s_cells s) (s_arrs s) (s_ctxs s) v (s_funcs s) (s_out s) (s_in s) (s_fs s) (s_files s) (s_steps s) (s_cellcount s) (s_depth s) (s_rand s).
Definition set_funcs v s := mkSt (s_next s) (s_cells s) (s_arrs s) (s_ctxs s) (s_procs s) v (s_out s) (s_in s) (s_fs s) (s_files s) (s_steps s) (s_cellcount s) (s_depth s) (s_rand s).
Definition set_out v s := mkSt (s_next s) (s_cells s) (s_arrs s) (s_ctxs s) (s_procs s) (s_funcs s) v (s_in s) (s_fs s) (s_files s) (s_steps s) (s_cellcount s) (s_depth s) (s_rand s).
Definition set_in v s := mkSt (s_next s) (s_cells s) (s_arrs s) (s_ctxs s) (s_procs s) (s_funcs s) (s_out s) v (s_fs s) (s_files s) (s_steps s) (s_cellcount s) (s_depth s) (s_rand s).
Definition set_fs v s := mkSt (s_next s) (s_cells s) (s_arrs s) (s_ctxs s) (s_procs s) (s_funcs s) (s_out s) (s_in s) v (s_files s) (s_steps s) (s_cellcount s) (s_depth s) (s_rand s).
Definition set_files v s := mkSt (s_next s) (s_cells s) (s_arrs s) (s_ctxs s) (s_procs s) (s_funcs s) (s_out s) (s_in s) (s_fs s) v (s_steps s) (s_cellcount s) (s_depth s) (s_rand s).
Definition set_steps v s := mkSt (s_next s) (s_cells s) (s_arrs s) (s_ctxs s) (s_procs s) (s_funcs s) (s_out s) (s_in s) (s_fs s) (s_files s) v (s_cellcount s) (s_depth s) (s_rand s).
Definition set_cellcount v s := mkSt (s_next s) (s_cells s) (s_arrs s) (s_ctxs s) (s_procs s) (s_funcs s) (s_out s) (s_in s) (s_fs s) (s_files s) (s_steps s) v (s_depth s) (s_rand s).
Definition set_depth v s := mkSt (s_next s) (s_cells s) (s_arrs s) (s_ctxs s) (s_procs s) (s_funcs s) (s_out s) (s_in s) (s_fs s) (s_files s) (s_steps s) (s_cellcount s) v (s_rand s).
Definition set_rand v s := mkSt (s_next s) (s_cells s) (s_arrs s) (s_ctxs s) (s_procs s) (s_funcs s) (s_out s) (s_in s) (s_fs s) (s_files s) (s_steps s) (s_cellcount s) (s_depth s) v.

Definition fresh : M N := fun s => (Ok (s_next s), set_next (N.succ (s_next s)) s).

Definition get_cell (id : N) : M cell :=
  fun s => match nm_get id (s_cells s) with Some c => (Ok c, s) | None => (Fail (FCrash "dangling cell"), s) end.
Definition put_cell (id : N) (c : cell) : M unit := modify (fun s => set_cells (nm_put id c (s_cells s)) s).
Definition get_arr (id : N) : M arr :=
  fun s => match nm_get id (s_arrs s) with Some a => (Ok a, s) | None => (Fail (FCrash "dangling array"), s) end.
Definition put_arr (id : N) (a : arr) : M unit := modify (fun s => set_arrs (nm_put id a (s_arrs s)) s).
Definition get_ctx (id : N) : M ctx :=
  fun s => match nm_get id (s_ctxs s) with Some c => (Ok c, s) | None => (Fail (FCrash "dangling context"), s) end.
Definition put_ctx (id : N) (c : ctx) : M unit := modify (fun s => set_ctxs (nm_put id c (s_ctxs s)) s).

Definition upd_ctx (id : N) (f : ctx -> ctx) : M unit := c <- get_ctx id ;; put_ctx id (f c).
Definition set_cell_val (id : N) (v : payload) : M unit :=
  c <- get_cell id ;; put_cell id (mkCell (c_name c) (c_type c) (c_const c) (c_owner c) v).

Definition ctx_with_vars v c := mkCtx (x_parent c) (x_name c) v (x_arrs c) (x_enums c) (x_ptrs c) (x_comps c) (x_isfun c) (x_isrec c) (x_rettype c) (x_retval c) (x_switch c) (x_depth c).
Definition ctx_with_arrs v c := mkCtx (x_parent c) (x_name c) (x_vars c) v (x_enums c) (x_ptrs c) (x_comps c) (x_isfun c) (x_isrec c) (x_rettype c) (x_retval c) (x_switch c) (x_depth c).
Definition ctx_with_enums v c := mkCtx (x_parent c) (x_name c) (x_vars c) (x_arrs c) v (x_ptrs c) (x_comps c) (x_isfun c) (x_isrec c) (x_rettype c) (x_retval c) (x_switch c) (x_depth c).
Definition ctx_with_ptrs v c := mkCtx (x_parent c) (x_name c) (x_vars c) (x_arrs c) (x_enums c) v (x_comps c) (x_isfun c) (x_isrec c) (x_rettype c) (x_retval c) (x_switch c) (x_depth c).
Definition ctx_with_comps v c := mkCtx (x_parent c) (x_name c) (x_vars c) (x_arrs c) (x_enums c) (x_ptrs c) v (x_isfun c) (x_isrec c) (x_rettype c) (x_retval c) (x_switch c) (x_depth c).
Definition ctx_with_retval v c := mkCtx (x_parent c) (x_name c) (x_vars c) (x_arrs c) (x_enums c) (x_ptrs c) (x_comps c) (x_isfun c) (x_isrec c) (x_rettype c) v (x_switch c) (x_depth c).
Definition ctx_with_switch v c := mkCtx (x_parent c) (x_name c) (x_vars c) (x_arrs c) (x_enums c) (x_ptrs c) (x_comps c) (x_isfun c) (x_isrec c) (x_rettype c) (x_retval c) v (x_depth c).

Definition new_ctx (parent : option N) (name : str) (isfun isrec : bool) (rett : dtype) : M N :=
  d <- match parent with
       | None => ret O
       | Some p => pc <- get_ctx p ;; ret (S (x_depth pc))
       end ;;
  id <- fresh ;;
  put_ctx id (mkCtx parent name [] [] [] [] [] isfun isrec rett None None d) ;;;
  ret id.

Definition emit (s : str) : M unit := modify (fun st0 => set_out (s :: s_out st0) st0).
Definition out_string (s : st) : str := List.concat (rev (s_out s)).

(* ---------- context chain ---------- *)
Fixpoint root_of_aux (fuel : nat) (id : N) : M N :=
  match fuel with
  | O => crash "context chain too long"
  | S f => c <- get_ctx id ;; match x_parent c with None => ret id | Some p => root_of_aux f p end
  end.
Definition root_of (id : N) : M N := c <- get_ctx id ;; root_of_aux (S (x_depth c)) id.

(* first ancestor (or self) that is not a record context : Pointer::setValue *)
Fixpoint nonrec_ancestor_aux (fuel : nat) (id : N) : M N :=
  match fuel with
  | O => crash "context chain too long"
  | S f => c <- get_ctx id ;;
           if x_isrec c then match x_parent c with Some p => nonrec_ancestor_aux f p | None => crash "record context without parent" end
           else ret id
  end.
Definition nonrec_ancestor (id : N) : M N := c <- get_ctx id ;; nonrec_ancestor_aux (S (x_depth c)) id.

(* is [target] on the caller chain starting at [id]?  (PointerDereferencer liveness walk) *)
Fixpoint on_chain_aux (fuel : nat) (id target : N) : M bool :=
  match fuel with
  | O => crash "context chain too long"
  | S f => if N.eqb id target then ret true
           else c <- get_ctx id ;; match x_parent c with Some p => on_chain_aux f p target | None => ret false end
  end.
Definition on_chain (id target : N) : M bool := c <- get_ctx id ;; on_chain_aux (S (x_depth c)) id target.

(* traceback of RuntimeError(token, context) *)
Fixpoint trace_aux (fuel : nat) (id : option N) : M (list (str * Z * Z)) :=
  match fuel with
  | O => ret []
  | S f => match id with
           | None => ret []
           | Some i => c <- get_ctx i ;; rest <- trace_aux f (x_parent c) ;;
                       ret (match x_switch c with Some (l, k) => (x_name c, l, k) :: rest | None => rest end)
           end
  end.

Definition runtime_error_cls {A} (cls : ecls) (t : token) (c : N) : M A :=
  fun s => match (cx <- get_ctx c ;; rest <- trace_aux (S (x_depth cx)) (x_parent cx) ;;
                  ret (mkDiag DRuntime (tline t) (tcol t) cls ((x_name cx, tline t, tcol t) :: rest))) s with
           | (Ok d, s') => (Fail (FErr d), s')
           | (Fail f, s') => (Fail f, s')
           end.
Definition rt_error {A} (t : token) (c : N) : M A := runtime_error_cls EOther t c.
Definition not_defined_error {A} (t : token) (c : N) : M A := runtime_error_cls ENotDefined t c.
Definition array_direct_error {A} (t : token) (c : N) : M A := runtime_error_cls (EArrayDirect c) t c.
Definition pedantic_error {A} (t : token) : M A :=
  failm (FErr (mkDiag DPedantic (tline t) (tcol t) EOther [])).
Definition err_token : token := mkTok TFUNCTION 0 0 [].       (* PSC::errToken *)

(* ---------- name lookup ---------- *)
Definition lookup_var (c : N) (name : str) (global : bool) : M (option N) :=
  cx <- get_ctx c ;;
  match assoc_str name (x_vars cx) with
  | Some id => ret (Some id)
  | None => match global, x_parent cx with
            | true, Some _ => r <- root_of c ;; rc <- get_ctx r ;; ret (assoc_str name (x_vars rc))
            | _, _ => ret None
            end
  end.
Definition lookup_arr (c : N) (name : str) (global : bool) : M (option N) :=
  cx <- get_ctx c ;;
  match assoc_str name (x_arrs cx) with
  | Some id => ret (Some id)
  | None => match global, x_parent cx with
            | true, Some _ => r <- root_of c ;; rc <- get_ctx r ;; ret (assoc_str name (x_arrs rc))
            | _, _ => ret None
            end
  end.

(* get{Enum,Pointer,Composite}Definition: own table, then (record contexts) the declaring context,
   then (global flag) the root *)
Section DefLookup.
  Context {D : Type} (table : ctx -> list (str * D)).
  Fixpoint lookup_def_aux (fuel : nat) (c : N) (name : str) (global : bool) : M (option D) :=
    match fuel with
    | O => crash "context chain too long"
    | S f =>
      cx <- get_ctx c ;;
      match assoc_str name (table cx) with
      | Some d => ret (Some d)
      | None =>
        match x_isrec cx, x_parent cx with
        | true, Some p => lookup_def_aux f p name global
        | _, Some _ => if global then r <- root_of c ;; rc <- get_ctx r ;; ret (assoc_str name (table rc)) else ret None
        | _, None => ret None
        end
      end
    end.
  Definition lookup_def (c : N) (name : str) (global : bool) : M (option D) :=
    cx <- get_ctx c ;; lookup_def_aux (S (x_depth cx)) c name global.
End DefLookup.

Definition lookup_enum_def := lookup_def x_enums.
Definition lookup_ptr_def := lookup_def x_ptrs.
Definition lookup_comp_def := lookup_def x_comps.

(* Context::getType *)
Definition get_type (c : N) (t : token) (global : bool) : M dtype :=
  match tt t with
  | TDATA_TYPE => match psc_type_of_word (tval t) with Some k => ret (dt_prim k) | None => crash "context.cpp getType abort" end
  | TIDENTIFIER =>
    e <- lookup_enum_def c (tval t) global ;;
    match e with Some _ => ret (mkDT KEnum (Some (tval t))) | None =>
    p <- lookup_ptr_def c (tval t) global ;;
    match p with Some _ => ret (mkDT KPtr (Some (tval t))) | None =>
    r <- lookup_comp_def c (tval t) global ;;
    match r with Some _ => ret (mkDT KRec (Some (tval t))) | None => ret dt_none end end end
  | _ => crash "context.cpp getType abort"
  end.

Fixpoint find_index (v : str) (l : list str) (i : Z) : option Z :=
  match l with [] => None | x :: r => if str_eqb v x then Some i else find_index v r (i + 1) end.
Fixpoint enum_element_in (v : str) (defs : list (str * list str)) : option (str * Z) :=
  match defs with
  | [] => None
  | (n, vals) :: r => match find_index v vals 0 with Some i => Some (n, i) | None => enum_element_in v r end
  end.
(* Context::getEnumElement *)
Definition get_enum_element (c : N) (v : str) (global : bool) : M (option (str * Z)) :=
  cx <- get_ctx c ;;
  match enum_element_in v (x_enums cx) with
  | Some e => ret (Some e)
  | None => match global, x_parent cx with
            | true, Some _ => r <- root_of c ;; rc <- get_ctx r ;; ret (enum_element_in v (x_enums rc))
            | _, _ => ret None
            end
  end.
Definition is_identifier_type (c : N) (t : token) (global : bool) : M bool :=
  ty <- get_type c t global ;;
  if negb (dt_is ty KNone) then ret true
  else e <- get_enum_element c (tval t) global ;; ret (match e with Some _ => true | None => false end).

(* ---------- partial downcasts (NodeResult::get<T>) ---------- *)
Definition as_int (r : result) : M Z := match r_val r with Some (PInt z) => ret z | _ => crash "get<Integer> on other payload" end.
Definition as_real (r : result) : M real := match r_val r with Some (PReal z) => ret z | _ => crash "get<Real> on other payload" end.
Definition as_bool (r : result) : M bool := match r_val r with Some (PBool z) => ret z | _ => crash "get<Boolean> on other payload" end.
Definition as_char (r : result) : M ascii := match r_val r with Some (PChar z) => ret z | _ => crash "get<Char> on other payload" end.
Definition as_str (r : result) : M str := match r_val r with Some (PStr z) => ret z | _ => crash "get<String> on other payload" end.
Definition as_payload (r : result) : M payload := match r_val r with Some p => ret p | None => crash "null payload dereferenced" end.
