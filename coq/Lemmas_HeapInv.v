(* Lemmas_HeapInv.v — an instance of the frame theorem over the whole evaluator (every program, fuel and outcome):
   identifiers in use stay below the allocation counter; an array, once created, is never changed (its bounds,
   element type and the list of its element cells are fixed), no array and no context ever disappears, cells keep
   name, type, CONSTANT flag and owner.  Hence the premise of the deep-copy theorems (Lemmas_DeepCopy.hb) holds in
   every state a program can reach from the initial state. *)
From PE2 Require Import Eval Lemmas_Frame Lemmas_Out Lemmas_DeepCopy.
Require Import Lia.
Local Open Scope N_scope.

Definition heap_kept (s s' : st) : Prop :=
  hb s ->
  hb s' /\ s_next s <= s_next s' /\
  (forall id c, nm_get id (s_cells s) = Some c -> exists c', nm_get id (s_cells s') = Some c' /\ same_meta c c') /\
  (forall id a, nm_get id (s_arrs s) = Some a -> nm_get id (s_arrs s') = Some a) /\
  (forall id c, nm_get id (s_ctxs s) = Some c -> exists c', nm_get id (s_ctxs s') = Some c').

Lemma heap_kept_refl s : heap_kept s s.
Proof.
  intros H. split; [exact H|]. split; [lia|]. split; [|split]; intros id x E; eauto.
  exists x. split; [exact E|apply same_meta_refl].
Qed.
Lemma heap_kept_trans a b c : heap_kept a b -> heap_kept b c -> heap_kept a c.
Proof.
  intros H1 H2 Ha. destruct (H1 Ha) as [Hb [L1 [C1 [A1 X1]]]]. destruct (H2 Hb) as [Hc [L2 [C2 [A2 X2]]]].
  split; [exact Hc|]. split; [lia|]. split; [|split].
  - intros id x E. destruct (C1 id x E) as [y [Ey My]]. destruct (C2 id y Ey) as [z [Ez Mz]].
    exists z. split; [exact Ez|eapply same_meta_trans; eassumption].
  - intros id x E. apply A2. apply A1. exact E.
  - intros id x E. destruct (X1 id x E) as [y Ey]. apply (X2 id y Ey).
Qed.
(* an update that leaves the heap and its counter alone *)
Lemma heap_kept_other s s' : s_cells s' = s_cells s -> s_arrs s' = s_arrs s -> s_ctxs s' = s_ctxs s -> s_next s' = s_next s -> heap_kept s s'.
Proof.
  intros Hc Ha Hx Hn Hb. unfold hb in *. rewrite Hc, Ha, Hx, Hn. split; [exact Hb|]. split; [lia|]. split; [|split]; intros id x E; eauto.
  exists x. split; [exact E|apply same_meta_refl].
Qed.

Theorem run_block_keeps_heap ped repl lim fuel bl c s : heap_kept s (snd (run_block ped repl lim fuel bl c s)).
Proof.
  apply (Pr_run_block heap_kept heap_kept_refl heap_kept_trans); try (intros; apply heap_kept_other; reflexivity).
  - (* a new cell *)
    intros c0 s0 Hb. destruct (alloc_cell_spec c0 s0 Hb) as [Hb' [[[E1 [E2 E3]] [_ L]] _]]. unfold alloc_cell in *.
    split; [exact Hb'|]. split; [exact L|]. split; [|split]; intros id x E; eauto.
    exists x. split; [apply E1; exact E|apply same_meta_refl].
  - (* a new payload for an existing cell *)
    intros id v c0 s0 E0 [H1 [H2 H3]]. unfold hb. cbn [s_cells s_arrs s_ctxs s_next set_cells]. split; [split; [|split]|].
    + intros j x E. destruct (N.eq_dec id j) as [<-|Hne]; [apply (H1 id c0 E0)|]. rewrite nm_get_put_other in E by exact Hne. apply (H1 j x E).
    + exact H2.
    + exact H3.
    + split; [lia|]. split; [|split]; intros j x E; eauto.
      destruct (N.eq_dec id j) as [<-|Hne].
      * rewrite nm_get_put_same. eexists. split; [reflexivity|]. assert (x = c0) by congruence. subst x. repeat split.
      * exists x. split; [rewrite nm_get_put_other by exact Hne; exact E|apply same_meta_refl].
  - (* a new array *)
    intros a s0 Hb. destruct (alloc_arr_spec a s0 Hb) as [Hb' [[[E1 [E2 E3]] [_ L]] _]]. unfold alloc_arr in *.
    split; [exact Hb'|]. split; [exact L|]. split; [|split]; intros id x E; eauto.
    exists x. split; [apply E1; exact E|apply same_meta_refl].
  - (* a new context *)
    intros c0 s0 Hb. destruct (alloc_ctx_spec c0 s0 Hb) as [Hb' [[[E1 [E2 E3]] [_ L]] _]]. unfold alloc_ctx in *.
    split; [exact Hb'|]. split; [exact L|]. split; [|split]; intros id x E; eauto.
    exists x. split; [apply E1; exact E|apply same_meta_refl].
  - (* a context that exists gets a new record *)
    intros id c0 c' s0 E0 [H1 [H2 H3]]. unfold hb. cbn [s_cells s_arrs s_ctxs s_next set_ctxs]. split; [split; [|split]|].
    + exact H1.
    + exact H2.
    + intros j x E. destruct (N.eq_dec id j) as [<-|Hne]; [apply (H3 id c0 E0)|]. rewrite nm_get_put_other in E by exact Hne. apply (H3 j x E).
    + split; [lia|]. split; [|split]; intros j x E; eauto.
      * exists x. split; [exact E|apply same_meta_refl].
      * destruct (N.eq_dec id j) as [<-|Hne]; [rewrite nm_get_put_same; eauto|]. exists x. rewrite nm_get_put_other by exact Hne. exact E.
Qed.

(* every state reached by running any block from a state with identifiers below the counter has them below the counter *)
Corollary run_block_keeps_hb ped repl lim fuel bl c s : hb s -> hb (snd (run_block ped repl lim fuel bl c s)).
Proof. intros H. apply (run_block_keeps_heap ped repl lim fuel bl c s H). Qed.

(* an array never changes once created: bounds, element type and the identity of its element cells are fixed *)
Corollary arrays_are_immutable ped repl lim fuel bl c s id a : hb s -> nm_get id (s_arrs s) = Some a ->
  nm_get id (s_arrs (snd (run_block ped repl lim fuel bl c s))) = Some a.
Proof. intros H E. destruct (run_block_keeps_heap ped repl lim fuel bl c s H) as [_ [_ [_ [A _]]]]. apply A. exact E. Qed.
