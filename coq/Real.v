(* Real.v — REAL values of the model: IEEE binary64 as Coq.Floats.SpecFloat.spec_float at
   prec 53 / emax 1024 (no primitive floats, no axioms), plus the text forms the interpreter
   produces and consumes, all by exact integer arithmetic:
     fmt_g P     = printf("%.Pg")          (cout with precision 10; record codec with 17)
     fmt_f6      = printf("%f")            (std::to_string)
     strtod_pfx  = strtod                  (String::toReal, std::stod, istream >> double)  *)
From Coq Require Export Floats.SpecFloat.
From PE2 Require Export Base.
Local Open Scope Z_scope.

Definition real := spec_float.
Definition prec : Z := 53.
Definition emax : Z := 1024.

Definition rzero : real := S754_zero false.
Definition radd := SFadd prec emax.
Definition rsub := SFsub prec emax.
Definition rmul := SFmul prec emax.
Definition rdiv := SFdiv prec emax.
Definition rsqrt := SFsqrt prec emax.
Definition ropp := SFopp.
Definition rcompare : real -> real -> option comparison := SFcompare.

Definition real_of_z (z : Z) : real := binary_normalize prec emax z 0 false.

Definition is_nan (x : real) : bool := match x with S754_nan => true | _ => false end.
Definition is_inf (x : real) : bool := match x with S754_infinity _ => true | _ => false end.
Definition is_rzero (x : real) : bool := match x with S754_zero _ => true | _ => false end.
Definition rsign (x : real) : bool :=
  match x with S754_zero s | S754_infinity s | S754_finite s _ _ => s | S754_nan => false end.

Definition req (a b : real) : bool := match rcompare a b with Some Eq => true | _ => false end.
Definition rlt (a b : real) : bool := match rcompare a b with Some Lt => true | _ => false end.
Definition rle (a b : real) : bool := match rcompare a b with Some Lt | Some Eq => true | _ => false end.
Definition rgt (a b : real) : bool := match rcompare a b with Some Gt => true | _ => false end.
Definition rge (a b : real) : bool := match rcompare a b with Some Gt | Some Eq => true | _ => false end.
Definition rne (a b : real) : bool := negb (req a b).      (* NaN <> x is true, as in C *)

(* exact value of a finite float as a fraction num/den (den a power of two), sign separate *)
Definition frac_of (m : positive) (e : Z) : Z * Z :=
  if 0 <=? e then (Zpos m * 2 ^ e, 1) else (Zpos m, 2 ^ (- e)).

(* floor; floor of +-0, inf, nan is itself *)
Definition rfloor (x : real) : real :=
  match x with
  | S754_finite s m e =>
    let '(n, d) := frac_of m e in
    let q := n / d in
    if s then
      let q' := if n mod d =? 0 then q else q + 1 in
      if q' =? 0 then S754_zero true else binary_normalize prec emax (- q') 0 false
    else if q =? 0 then S754_zero false else binary_normalize prec emax q 0 false
  | _ => x
  end.

(* C conversion (int64_t) x : truncation toward zero; out of range / inf / nan give the
   x86-64 "integer indefinite" value INT64_MIN *)
Definition real_to_int64 (x : real) : Z :=
  match x with
  | S754_finite s m e =>
    let '(n, d) := frac_of m e in
    let q := n / d in
    let v := if s then - q else q in
    if in_int64 v then v else int64_min
  | S754_zero _ => 0
  | _ => int64_min
  end.

(* std::modf(x, &ip) == 0.0 : x is integral (true for infinities, false for NaN) *)
Definition is_integral (x : real) : bool :=
  match x with
  | S754_finite _ m e => let '(n, d) := frac_of m e in n mod d =? 0
  | S754_zero _ | S754_infinity _ => true
  | S754_nan => false
  end.

(* correctly rounded value of (-1)^neg * n / d for n >= 0, d > 0 *)
Definition real_of_ratio (neg : bool) (n d : Z) : real :=
  if n =? 0 then S754_zero neg
  else
    let sh := Z.max 0 (60 - (Z.log2 n - Z.log2 d)) in
    let n' := n * 2 ^ sh in
    let q := n' / d in
    let sticky := if n' mod d =? 0 then 0 else 1 in
    let m := 2 * q + sticky in
    let r := binary_normalize prec emax m (- sh - 1) false in
    if neg then ropp r else r.

(* true when the float equals n/d exactly *)
Definition ratio_exact (x : real) (n d : Z) : bool :=
  match x with
  | S754_finite _ m e => let '(a, b) := frac_of m e in a * d =? n * b
  | S754_zero _ => n =? 0
  | _ => false
  end.

Definition is_subnormal (x : real) : bool :=
  match x with S754_finite _ m e => (e =? 3 - emax - prec) && (Z.log2 (Zpos m) + 1 <? prec) | _ => false end.

(* ---------------- printing ---------------- *)
Definition ge_pow10 (n d k : Z) : bool :=          (* n/d >= 10^k *)
  if 0 <=? k then d * 10 ^ k <=? n else d <=? n * 10 ^ (- k).

Fixpoint adj_up (fuel : nat) (n d k : Z) : Z :=
  match fuel with O => k | S f => if ge_pow10 n d (k + 1) then adj_up f n d (k + 1) else k end.
Fixpoint adj_down (fuel : nat) (n d k : Z) : Z :=
  match fuel with O => k | S f => if ge_pow10 n d k then k else adj_down f n d (k - 1) end.

(* floor(log10(n/d)) for n, d > 0 *)
Definition log10_floor (n d : Z) : Z :=
  let l := Z.log2 n - Z.log2 d in
  let k0 := ((l - 1) * 30103) / 100000 in
  adj_down 8 n d (adj_up 8 n d k0).

Definition div_half_even (n d : Z) : Z :=
  let q := n / d in let r := n mod d in
  if (d <? 2 * r) || ((2 * r =? d) && Z.odd q) then q + 1 else q.

Fixpoint strip_trailing_zeros_rev (r : str) : str :=
  match r with c :: t => if aeqb c "0"%char then strip_trailing_zeros_rev t else r | [] => [] end.
Definition rstrip0 (s : str) : str := rev (strip_trailing_zeros_rev (rev s)).

Definition pad2 (s : str) : str := match s with [c] => "0"%char :: [c] | _ => s end.

Definition fmt_g (P : Z) (x : real) : option str :=
  match x with
  | S754_nan => None
  | S754_infinity s => Some (if s then str_of_string "-inf" else str_of_string "inf")
  | S754_zero s => Some (if s then str_of_string "-0" else str_of_string "0")
  | S754_finite s m e =>
    let '(n, d) := frac_of m e in
    let k := log10_floor n d in
    let sh := k - P + 1 in
    let D0 := if 0 <=? sh then div_half_even n (d * 10 ^ sh) else div_half_even (n * 10 ^ (- sh)) d in
    let '(D, k) := if D0 =? 10 ^ P then (D0 / 10, k + 1) else (D0, k) in
    let ds := nat_digits D in
    let sgn : str := if s then ["-"%char] else [] in
    Some (sgn ++
      (if (k <? -4) || (P <=? k) then
         let mant := match ds with
                     | c :: r => let fr := rstrip0 r in c :: (match fr with [] => [] | _ => "."%char :: fr end)
                     | [] => [] end in
         mant ++ ["e"%char; if k <? 0 then "-"%char else "+"%char] ++ pad2 (nat_digits (Z.abs k))
       else if 0 <=? k then
         let ip := firstn (Z.to_nat (k + 1)) ds in
         let fp := rstrip0 (skipn (Z.to_nat (k + 1)) ds) in
         ip ++ (match fp with [] => [] | _ => "."%char :: fp end)
       else
         let fp := rstrip0 (replicate (Z.to_nat (- k - 1)) "0"%char ++ ds) in
         "0"%char :: (match fp with [] => [] | _ => "."%char :: fp end)))
  end.

Definition lpad0 (n : nat) (s : str) : str :=
  if Nat.ltb (List.length s) n then replicate (n - List.length s) "0"%char ++ s else s.

Definition fmt_f6 (x : real) : option str :=
  match x with
  | S754_nan => None
  | S754_infinity s => Some (if s then str_of_string "-inf" else str_of_string "inf")
  | S754_zero s => Some ((if s then ["-"%char] else []) ++ str_of_string "0.000000")
  | S754_finite s m e =>
    let '(n, d) := frac_of m e in
    let D := div_half_even (n * 1000000) d in
    let ds := lpad0 7 (nat_digits D) in
    let ip := firstn (List.length ds - 6) ds in
    let fp := skipn (List.length ds - 6) ds in
    Some ((if s then ["-"%char] else []) ++ ip ++ "."%char :: fp)
  end.

(* Real::toString : to_string, strip trailing '0's, then a trailing '.' *)
Definition real_to_string (x : real) : option str :=
  match fmt_f6 x with
  | None => None
  | Some s =>
    let t := rstrip0 s in
    Some (match rev t with c :: r => if aeqb c "."%char then rev r else t | [] => t end)
  end.

(* OUTPUT / echo form: %.10g followed by ".0" when the value is integral *)
Definition real_output (x : real) : option str :=
  match fmt_g 10 x with
  | None => None
  | Some s => Some (if is_integral x then s ++ str_of_string ".0" else s)
  end.

(* ---------------- parsing ---------------- *)
Fixpoint take_digits (s : str) (acc : str) : str * str :=
  match s with
  | c :: r => if is_digit c then take_digits r (c :: acc) else (rev acc, s)
  | [] => (rev acc, [])
  end.

Fixpoint skip_space (s : str) : str :=
  match s with c :: r => if is_cspace c then skip_space r else s | [] => [] end.

Definition lower_str (s : str) : str := map to_lower s.

Definition hex_val (c : ascii) : option Z :=
  if is_digit c then Some (digit_val c)
  else let z := zcode (to_lower c) in if (97 <=? z) && (z <=? 102) then Some (z - 87) else None.

Fixpoint take_hex (s : str) (acc : Z) (cnt : Z) : Z * Z * str :=
  match s with
  | c :: r => match hex_val c with Some v => take_hex r (acc * 16 + v) (cnt + 1) | None => (acc, cnt, s) end
  | [] => (acc, cnt, [])
  end.

(* optional exponent part: marker char already checked by caller; returns exponent and rest,
   or None if no digits follow (then the marker is not consumed) *)
Definition take_exponent (s : str) : option (Z * str) :=
  let '(neg, s1) := match s with
                    | c :: r => if aeqb c "-"%char then (true, r) else if aeqb c "+"%char then (false, r) else (false, s)
                    | [] => (false, []) end in
  let '(ds, s2) := take_digits s1 [] in
  match ds with
  | [] => None
  | _ => let ds' := firstn 9 ds in     (* clamp absurd exponents *)
         let v := if Nat.ltb 8 (List.length ds) then 999999999 else digits_to_z ds' in
         Some (if neg then - v else v, s2)
  end.

Record strtod_res := mkSR { sr_val : real; sr_rest : str; sr_erange : bool; sr_conv : bool }.

Definition scale_dec (neg : bool) (mant : Z) (e10 : Z) : real * bool :=
  (* value mant * 10^e10; second component = ERANGE as glibc reports it *)
  if mant =? 0 then (S754_zero neg, false)
  else
    let nd := Z.of_nat (List.length (nat_digits mant)) in
    if 400 <? e10 + nd then (S754_infinity neg, true)
    else if e10 + nd <? -400 then (S754_zero neg, true)
    else
      let '(n, d) := if 0 <=? e10 then (mant * 10 ^ e10, 1) else (mant, 10 ^ (- e10)) in
      let r := real_of_ratio neg n d in
      let er := is_inf r || is_rzero r || (is_subnormal r && negb (ratio_exact r n d)) in
      (r, er).

Definition strtod_pfx (s0 : str) : strtod_res :=
  let s := skip_space s0 in
  let '(neg, s1) := match s with
                    | c :: r => if aeqb c "-"%char then (true, r) else if aeqb c "+"%char then (false, r) else (false, s)
                    | [] => (false, []) end in
  let low := lower_str s1 in
  if starts_with (str_of_string "infinity") low then mkSR (S754_infinity neg) (skipn 8 s1) false true
  else if starts_with (str_of_string "inf") low then mkSR (S754_infinity neg) (skipn 3 s1) false true
  else if starts_with (str_of_string "nan") low then
    (* optional (n-char-sequence) *)
    let r := skipn 3 s1 in
    let r' := match r with
              | c :: t => if aeqb c "("%char then
                            (fix go (fuel : nat) (u : str) : option str :=
                               match fuel with O => None | S f =>
                               match u with
                               | x :: v => if aeqb x ")"%char then Some v
                                           else if is_alnum x || aeqb x "_"%char then go f v else None
                               | [] => None end end) (S (List.length t)) t
                          else None
              | [] => None end in
    mkSR S754_nan (match r' with Some v => v | None => r end) false true
  else
    let is_hex := match low with
                  | z :: x :: r => aeqb z "0"%char && aeqb x "x"%char &&
                                   (match r with
                                    | h :: _ => match hex_val h with Some _ => true | None =>
                                                  aeqb h "."%char && (match r with _ :: h2 :: _ => match hex_val h2 with Some _ => true | None => false end | _ => false end) end
                                    | [] => false end)
                  | _ => false end in
    if is_hex then
      let body := skipn 2 s1 in
      let '(m1, c1, r1) := take_hex body 0 0 in
      let '(m2, c2, r2) := match r1 with
                           | c :: t => if aeqb c "."%char then take_hex t m1 0 else (m1, 0, r1)
                           | [] => (m1, 0, r1) end in
      let '(e2, r3) := match r2 with
                       | c :: t => if aeqb (to_lower c) "p"%char then
                                     match take_exponent t with Some (e, r) => (e, r) | None => (0, r2) end
                                   else (0, r2)
                       | [] => (0, r2) end in
      let ex := e2 - 4 * c2 in
      let v := if m2 =? 0 then S754_zero neg
               else if 5000 <? ex + 4 * (c1 + c2) then S754_infinity neg
               else if ex + 4 * (c1 + c2) <? -5000 then S754_zero neg
               else let r := binary_normalize prec emax m2 ex false in if neg then ropp r else r in
      mkSR v r3 (is_inf v || (is_rzero v && negb (m2 =? 0))) true
    else
      let '(ip, r1) := take_digits s1 [] in
      let '(fp, r2) := match r1 with
                       | c :: t => if aeqb c "."%char then take_digits t [] else ([], r1)
                       | [] => ([], r1) end in
      let had_point := match r1 with c :: _ => aeqb c "."%char | [] => false end in
      match ip, fp with
      | [], [] => mkSR rzero s0 false false            (* no conversion *)
      | _, _ =>
        let '(e10, r3) := match r2 with
                          | c :: t => if aeqb (to_lower c) "e"%char then
                                        match take_exponent t with Some (e, r) => (e, r) | None => (0, r2) end
                                      else (0, r2)
                          | [] => (0, r2) end in
        let mant := digits_to_z (ip ++ fp) in
        let '(v, er) := scale_dec neg mant (e10 - Z.of_nat (List.length fp)) in
        mkSR v (if had_point then r3 else r3) er true
      end.

Fixpoint cstr (s : str) : str :=      (* c_str(): up to the first NUL *)
  match s with c :: r => if aeqb c ch_nul then [] else c :: cstr r | [] => [] end.

(* String::toReal : whole string must convert, else 0.0 *)
Definition string_to_real (s : str) : real :=
  let c := cstr s in
  match c with
  | [] => rzero
  | _ => let r := strtod_pfx c in
         match sr_rest r with [] => if sr_conv r then sr_val r else rzero | _ => rzero end
  end.

(* std::stod on a REAL token (digits with exactly one '.'): None = std::out_of_range *)
Definition stod_literal (s : str) : option real :=
  let r := strtod_pfx s in if sr_erange r then None else Some (sr_val r).

(* strtol(s, &end, 10) with the whole-string rule of String::toInteger *)
Definition string_to_int (s : str) : Z :=
  let c := cstr s in
  match c with
  | [] => 0
  | _ =>
    let s1 := skip_space c in
    let '(neg, s2) := match s1 with
                      | x :: r => if aeqb x "-"%char then (true, r) else if aeqb x "+"%char then (false, r) else (false, s1)
                      | [] => (false, []) end in
    let '(ds, r) := take_digits s2 [] in
    match ds, r with
    | _ :: _, [] =>
      let v := digits_to_z ds in
      let v := if neg then - v else v in
      if v <? int64_min then int64_min else if int64_max <? v then int64_max else v
    | _, _ => 0
    end
  end.
