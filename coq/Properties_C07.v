(* Properties_C07.v — records are values: every copy is deep and independent.
   PARTIAL: proved that copying a record value always allocates a new private context whose identifier
   was unused before (so source and copy share no context, hence no field cell), and that non-record
   values are copied as they are.  That the copy's fields, nested records and array fields equal the
   source's, and that later writes stay on their side, is checked on generated record types (3 nesting
   levels, array fields, arrays of records) through every copy channel against the implementation,
   normal and sanitizer build. *)
From PE2 Require Import Heap Lemmas_Copy.

Theorem C07_copy_allocates_fresh_context : forall f tn c s p s',
  copy_val (S f) (PRec tn c) s = (Ok p, s') -> exists c', p = PRec tn c' /\ c' = s_next s.
Proof. exact copy_record_fresh_ctx. Qed.
Print Assumptions C07_copy_allocates_fresh_context.

Theorem C07_copy_context_is_fresh : forall f c s c' s', copy_ctx f c s = (Ok c', s') -> c' = s_next s.
Proof. exact copy_ctx_fresh. Qed.
Print Assumptions C07_copy_context_is_fresh.

Theorem C07_non_record_values_copied_as_they_are : forall fuel p s, (forall tn c, p <> PRec tn c) -> copy_val fuel p s = (Ok p, s).
Proof. exact copy_val_non_record. Qed.
Print Assumptions C07_non_record_values_copied_as_they_are.
