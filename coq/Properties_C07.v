(* Properties_C07.v — records are values: every copy is deep and independent.
   The copy constructor of record values (Heap.copy_val / copy_ctx, used by BYVAL passing, RETURN, reading a record
   variable and array-element copies) is proved, for every record value however nested, every state whose identifiers
   lie below the allocation counter, and every fuel, to
     - produce a value equal to the source (same field names, types, CONSTANT flags, leaf values, array shapes),
     - leave everything that existed before untouched (the source keeps its value; nothing else of the state changes),
     - put every context, cell and array of the copy under an identifier that did not exist before,
   so that a later write to storage that existed before the copy cannot change the copy, and a later write to storage
   created by the copy or afterwards cannot change the source.
   PARTIAL: the in-place assignment r2 <- r1 (copy_var_data, which writes field by field into the existing record) is
   compared with the implementation on generated record types through every copy channel, not proved. *)
From PE2 Require Import Heap Eval Lemmas_Copy Lemmas_DeepCopy Lemmas_HeapInv Run Lemmas_ConstLogic Lemmas_ConstThm Lemmas_RecStates.
Local Open Scope N_scope.

Theorem C07_copy_allocates_fresh_context : forall f tn c s p s',
  copy_val (S f) (PRec tn c) s = (Ok p, s') -> exists c', p = PRec tn c' /\ c' = s_next s.
Proof. exact copy_record_fresh_ctx. Qed.
Print Assumptions C07_copy_allocates_fresh_context.

Theorem C07_copy_context_is_fresh : forall f c s c' s', copy_ctx f c s = (Ok c', s') -> c' = s_next s.
Proof. exact copy_ctx_fresh. Qed.
Print Assumptions C07_copy_context_is_fresh.

Theorem C07_non_record_values_copied_as_they_are : forall fuel p s, (forall tn c, p <> PRec tn c) -> copy_val fuel p s = (Ok p, s).
Proof. exact copy_val_non_record. Qed.
Print Assumptions C07_non_record_values_copied_as_they_are.

(* the copy equals the source, the source is unchanged, nothing but the heap changes, all storage of the copy is new *)
Theorem C07_copy_is_deep : forall fuel p s p' s', copy_val fuel p s = (Ok p', s') -> hb s ->
  (forall g t, view g s p = Some t -> view g s' p' = Some t /\ view g s' p = Some t) /\
  ext s s' /\ same_rest s s' /\ hb s' /\ (forall g, above (s_next s) g s' p').
Proof. exact copy_is_deep. Qed.
Print Assumptions C07_copy_is_deep.

(* a change to the source (any writes to storage that existed before the copy) never shows in the copy *)
Theorem C07_copy_independent_of_source : forall fuel p s p' s' s2 g, copy_val fuel p s = (Ok p', s') -> hb s ->
  agree_from (s_next s) s' s2 -> view g s2 p' = view g s' p'.
Proof. exact copy_independent_of_source. Qed.
Print Assumptions C07_copy_independent_of_source.

(* a change to the copy (any writes to storage created by the copy or later) never shows in the source *)
Theorem C07_source_independent_of_copy : forall fuel p s p' s' s2 g t, copy_val fuel p s = (Ok p', s') -> hb s ->
  (forall id, id < s_next s -> nm_get id (s_cells s2) = nm_get id (s_cells s') /\ nm_get id (s_arrs s2) = nm_get id (s_arrs s') /\
                               nm_get id (s_ctxs s2) = nm_get id (s_ctxs s')) ->
  view g s p = Some t -> view g s2 p = Some t.
Proof. exact source_independent_of_copy. Qed.
Print Assumptions C07_source_independent_of_copy.

(* the premise on states is met by the initial state of every run *)
Theorem C07_initial_state_ids_below_counter : forall stdin fs rnd, hb (PE2.Run.init_state stdin fs rnd).
Proof. exact hb_init. Qed.
Print Assumptions C07_initial_state_ids_below_counter.

(* ... and is kept by everything the evaluator does: every state a program reaches satisfies the premise of the theorems above *)
Theorem C07_ids_below_counter_is_invariant : forall ped repl lim fuel bl c s, hb s -> hb (snd (run_block ped repl lim fuel bl c s)).
Proof. exact run_block_keeps_hb. Qed.
Print Assumptions C07_ids_below_counter_is_invariant.

(* non-vacuity: a record with a nested record and an array field, built by allocation, meets the premises and is copied *)
Example C07_example_state_ok : hb ex_state.
Proof. exact hb_ex_state. Qed.
Example C07_example_copy :
  match copy_val 8 (PRec (str_of_string "T") 2) ex_state with
  | (Ok (PRec _ c'), s') =>
    N.eqb c' 10 && match view 4 ex_state (PRec (str_of_string "T") 2), view 4 s' (PRec (str_of_string "T") c') with
                   | Some a, Some b => true | _, _ => false end
  | _ => false
  end = true.
Proof. vm_compute. reflexivity. Qed.

(* over the whole evaluator: a variable that holds a record value refers to a record's own private context, and its declared type
   is the record type of that name (heap invariant of the program logic, kept by every block) *)
Theorem C07_record_values_own_a_record_context : forall ped repl lim fuel bl c s id cl tn rc, Inv s ->
  nm_get id (s_cells (snd (run_block ped repl lim fuel bl c s))) = Some cl -> c_val cl = PRec tn rc ->
  rec_ctx (snd (run_block ped repl lim fuel bl c s)) rc /\ dk (c_type cl) = KRec /\ dname (c_type cl) = Some tn.
Proof. exact record_values_own_a_record_context. Qed.
Print Assumptions C07_record_values_own_a_record_context.

(* ---- what r.f denotes, for every state and context (the resolution of r being any that does not touch the state): the variable,
   or the array, named f in the record's own private context -- looked up there and nowhere else (lookup without the global
   fallback) ---- *)
Theorem C07_field_resolves_to_the_records_own_variable : forall ped repl lim fuel t r' m c s id cl tn rc fid,
  ev_resolve (evs_at ped repl lim fuel) r' c s = (Ok (HVar id), s) -> nm_get id (s_cells s) = Some cl ->
  dk (c_type cl) = KRec -> c_val cl = PRec tn rc -> lookup_var rc (tval m) false s = (Ok (Some fid), s) ->
  ev_resolve (evs_at ped repl lim (S fuel)) (RField t r' m) c s = (Ok (HVar fid), s).
Proof. exact field_resolves_to_the_records_own_variable. Qed.
Print Assumptions C07_field_resolves_to_the_records_own_variable.

Theorem C07_field_resolves_to_the_records_own_array : forall ped repl lim fuel t r' m c s id cl tn rc aid,
  ev_resolve (evs_at ped repl lim fuel) r' c s = (Ok (HVar id), s) -> nm_get id (s_cells s) = Some cl ->
  dk (c_type cl) = KRec -> c_val cl = PRec tn rc -> lookup_var rc (tval m) false s = (Ok None, s) -> lookup_arr rc (tval m) false s = (Ok (Some aid), s) ->
  ev_resolve (evs_at ped repl lim (S fuel)) (RField t r' m) c s = (Ok (HArr aid), s).
Proof. exact field_resolves_to_the_records_own_array. Qed.
Print Assumptions C07_field_resolves_to_the_records_own_array.

(* access to a field the record does not have is a runtime error; the whole state is as it was *)
Theorem C07_undeclared_field_is_an_error : forall ped repl lim fuel t r' m c s id cl tn rc,
  ev_resolve (evs_at ped repl lim fuel) r' c s = (Ok (HVar id), s) -> nm_get id (s_cells s) = Some cl ->
  dk (c_type cl) = KRec -> c_val cl = PRec tn rc -> lookup_var rc (tval m) false s = (Ok None, s) -> lookup_arr rc (tval m) false s = (Ok None, s) ->
  exists f, ev_resolve (evs_at ped repl lim (S fuel)) (RField t r' m) c s = (Fail f, s).
Proof. exact undeclared_field_is_an_error. Qed.
Print Assumptions C07_undeclared_field_is_an_error.

Theorem C07_field_of_a_non_record_is_an_error : forall ped repl lim fuel t r' m c s id cl,
  ev_resolve (evs_at ped repl lim fuel) r' c s = (Ok (HVar id), s) -> nm_get id (s_cells s) = Some cl -> dk (c_type cl) <> KRec ->
  exists f, ev_resolve (evs_at ped repl lim (S fuel)) (RField t r' m) c s = (Fail f, s).
Proof. exact field_of_a_non_record_is_an_error. Qed.
Print Assumptions C07_field_of_a_non_record_is_an_error.
