(* Extract.v — extraction of the executable model to OCaml.
   Directives used: ExtrOcamlBasic (bool, option, unit, list, prod, sumbool, comparison ->
   OCaml's own types) and ExtrOcamlString (ascii -> char, string -> char list).
   No Extract Constant, no other Extract Inductive: Z, positive, N and nat stay the extracted
   inductive types. *)
From Coq Require Import ExtrOcamlBasic ExtrOcamlString.
From PE2 Require Import Run.

Definition lex_tokens (pedantic : bool) (input : str) := lex pedantic input.
Definition parse_ok (pedantic : bool) (input : str) : Z :=
  match lex pedantic input with
  | inr _ => 1
  | inl toks => match parse_program pedantic toks with POk _ _ => 0 | PFail _ _ _ => 2 | PFuel => 3 end
  end%Z.

Extraction Language OCaml.
Extraction "pe2model.ml" run_file run_repl lex_tokens parse_ok mkLim
  fmt_g fmt_f6 real_to_string real_output string_to_real string_to_int real_of_z
  linear enum_arith setdate day_index date_key bi_left bi_right bi_mid dump load load_records store_records.
