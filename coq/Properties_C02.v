(* Properties_C02.v — expressions evaluate to the documented value and type. *)
From PE2 Require Import Parser Eval Lemmas_Expr Run Lemmas_OpStates.
Local Open Scope Z_scope.

(* + - * on INTEGER operands are exact 64-bit integer arithmetic (never routed through REAL) *)
Theorem C02_int_ops_exact : forall t c s a b, (tt t = TPLUS \/ tt t = TMINUS \/ tt t = TSTAR) ->
  eval_arith t c (rint a) (rint b) s = (Ok (rint (arith_int (tt t) a b)), s).
Proof. exact int_ops_exact. Qed.
Print Assumptions C02_int_ops_exact.

Theorem C02_int_exact_in_range : forall op a b, (op = TPLUS \/ op = TMINUS \/ op = TSTAR) ->
  int64_min <= exact_result op a b <= int64_max -> arith_int op a b = exact_result op a b.
Proof. exact arith_exact_in_range. Qed.
Print Assumptions C02_int_exact_in_range.

(* DIV and MOD of INTEGER operands stay INTEGER and satisfy the division law *)
Theorem C02_int_divmod_integer : forall t c s a b, (tt t = TDIV \/ tt t = TMOD) -> b <> 0 ->
  eval_arith t c (rint a) (rint b) s = (Ok (rint (arith_int (tt t) a b)), s).
Proof. exact int_divmod. Qed.
Print Assumptions C02_int_divmod_integer.

Theorem C02_divmod_law : forall a b, b <> 0 -> ~ (a = int64_min /\ b = -1) -> int64_min <= a <= int64_max ->
  a = arith_int TDIV a b * b + arith_int TMOD a b /\ Z.abs (arith_int TMOD a b) < Z.abs b.
Proof. exact divmod_law. Qed.
Print Assumptions C02_divmod_law.

Theorem C02_div_result_in_range : forall a b, b <> 0 -> int64_min <= a <= int64_max -> int64_min <= arith_int TDIV a b <= int64_max.
Proof. exact div_in_range. Qed.
Print Assumptions C02_div_result_in_range.

(* '/' always yields REAL; mixed operands promote to REAL; DIV of REALs yields INTEGER *)
Theorem C02_slash_is_real : forall t c s a b, tt t = TSLASH -> b <> 0 ->
  eval_arith t c (rint a) (rint b) s = (Ok (rreal (rdiv (real_of_z a) (real_of_z b))), s).
Proof. exact slash_is_real. Qed.
Print Assumptions C02_slash_is_real.

Theorem C02_mixed_promotes_to_real : forall t c s a x, (tt t = TPLUS \/ tt t = TMINUS \/ tt t = TSTAR) ->
  exists y, eval_arith t c (rint a) (rreal x) s = (Ok (rreal y), s) /\
            eval_arith t c (rreal x) (rint a) s =
            (Ok (rreal (match tt t with TPLUS => radd x (real_of_z a) | TMINUS => rsub x (real_of_z a) | _ => rmul x (real_of_z a) end)), s).
Proof. exact mixed_promotes_to_real. Qed.
Print Assumptions C02_mixed_promotes_to_real.

Theorem C02_div_of_reals_is_integer : forall t c s x y, tt t = TDIV -> is_rzero y = false ->
  eval_arith t c (rreal x) (rreal y) s = (Ok (rint (real_to_int64 (rfloor (rdiv x y)))), s).
Proof. exact div_of_reals_is_integer. Qed.
Print Assumptions C02_div_of_reals_is_integer.

(* zero divisors and operands of an unaccepted type never produce a value *)
Theorem C02_zero_divisor_int : forall t c s a, (tt t = TSLASH \/ tt t = TDIV \/ tt t = TMOD) ->
  ~ yields_value (eval_arith t c (rint a) (rint 0) s).
Proof. exact zero_divisor_int. Qed.
Print Assumptions C02_zero_divisor_int.

Theorem C02_zero_divisor_real : forall t c s x y, (tt t = TSLASH \/ tt t = TDIV \/ tt t = TMOD) -> is_rzero y = true ->
  ~ yields_value (eval_arith t c (rreal x) (rreal y) s).
Proof. exact zero_divisor_real. Qed.
Print Assumptions C02_zero_divisor_real.

Theorem C02_operand_rejection : forall t c s l r,
  (is_numeric (r_type l) && is_numeric (r_type r)) = false ->
  dt_is (r_type l) KEnum = false -> dt_is (r_type r) KEnum = false ->
  ~ yields_value (eval_arith t c l r s).
Proof. exact operand_rejection. Qed.
Print Assumptions C02_operand_rejection.

(* the precedence ladder: for every ordered pair of binary operators (15 x 15, with and without
   --pedantic) `1 o1 2 o2 3` parses as (1 o1 2) o2 3 iff level o1 >= level o2, levels
   {* / DIV MOD} > {+ -} > {&} > {comparisons} > {AND OR}; exhaustive over the finite operator set *)
Theorem C02_precedence_pairs : forall o1 o2 ped, In o1 binops -> In o2 binops -> parse_pair ped o1 o2 = Some (expected o1 o2).
Proof. exact precedence_pairs. Qed.
Print Assumptions C02_precedence_pairs.

Theorem C02_unary_binding :
  (match parse_eval false 200 (mkPst unary_tokens1 []) with POk (NArith _ (NNeg _ (NInt _)) (NInt _)) _ => true | _ => false end) = true /\
  (match parse_eval false 200 (mkPst unary_tokens2 []) with POk (NLogic _ (NNot _ (NCmp _ (NInt _) (NInt _))) (NInt _)) _ => true | _ => false end) = true.
Proof. exact unary_binding. Qed.
Print Assumptions C02_unary_binding.

(* how the evaluator combines operands, for every pair of operand expressions, state and context: the left operand is evaluated,
   then the right one in the state the left one left, then the operator is applied to the two results -- each operand exactly once *)
Theorem C02_arithmetic_evaluates_left_then_right : forall ped repl lim fuel t l r c,
  ev_eval (evs_at ped repl lim (S fuel)) (NArith t l r) c =
    (lr <- ev_eval (evs_at ped repl lim fuel) l c ;; rr <- ev_eval (evs_at ped repl lim fuel) r c ;; eval_arith t c lr rr).
Proof. exact arithmetic_evaluates_left_then_right. Qed.
Print Assumptions C02_arithmetic_evaluates_left_then_right.

Theorem C02_comparison_evaluates_left_then_right : forall ped repl lim fuel t l r c,
  ev_eval (evs_at ped repl lim (S fuel)) (NCmp t l r) c =
    (lr <- ev_eval (evs_at ped repl lim fuel) l c ;; rr <- ev_eval (evs_at ped repl lim fuel) r c ;; eval_cmp t c lr rr).
Proof. exact comparison_evaluates_left_then_right. Qed.
Print Assumptions C02_comparison_evaluates_left_then_right.

(* AND whose left operand is BOOLEAN FALSE yields FALSE in the state the left operand left: the right operand is not evaluated *)
Theorem C02_and_with_a_false_left_operand_skips_the_right_one : forall ped repl lim fuel t l r c s s1 lr,
  tt t = TAND -> ev_eval (evs_at ped repl lim fuel) l c s = (Ok lr, s1) -> dk (r_type lr) = KBool -> r_val lr = Some (PBool false) ->
  ev_eval (evs_at ped repl lim (S fuel)) (NLogic t l r) c s = (Ok (res_of KBool (PBool false)), s1).
Proof. exact and_with_a_false_left_operand_skips_the_right_one. Qed.
Print Assumptions C02_and_with_a_false_left_operand_skips_the_right_one.
