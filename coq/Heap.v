(* Heap.v — copying and in-place assignment of values (Variable::set, Context copy constructor,
   Context::copyVariableData, Array::copyData) and the abstraction of a cell to a value tree. *)
From PE2 Require Export Values Codec Arrays.
Local Open Scope Z_scope.

Inductive holder := HVar (id : N) | HArr (id : N).

Definition blank_ctx_like (cx : ctx) : ctx :=
  mkCtx (x_parent cx) (x_name cx) [] [] [] [] [] (x_isfun cx) (x_isrec cx) (x_rettype cx) None None (x_depth cx).

Fixpoint zipM {A B} (f : A -> B -> M unit) (l1 : list A) (l2 : list B) : M unit :=
  match l1, l2 with
  | [], _ => ret Datatypes.tt
  | a :: r1, b :: r2 => f a b ;;; zipM f r1 r2
  | _ :: _, [] => crash "vector index out of range"
  end.

(* Copy constructors: Composite(const Composite&) -> Context(const Context&) *)
Fixpoint copy_val (fuel : nat) (p : payload) : M payload :=
  match p with
  | PRec tn c => match fuel with
                 | O => failm FFuel
                 | S f => c' <- copy_ctx f c ;; ret (PRec tn c')
                 end
  | _ => ret p
  end
with copy_ctx (fuel : nat) (c : N) : M N :=
  match fuel with
  | O => failm FFuel
  | S f =>
    cx <- get_ctx c ;;
    id <- fresh ;;
    put_ctx id (blank_ctx_like cx) ;;;
    vars' <- mapM (fun nv : str * N =>
                     cl <- get_cell (snd nv) ;;
                     v' <- copy_val f (c_val cl) ;;
                     nid <- fresh ;;
                     put_cell nid (mkCell (c_name cl) (c_type cl) (c_const cl) id v') ;;;
                     ret (fst nv, nid)) (x_vars cx) ;;
    arrs' <- mapM (fun na : str * N =>
                     a <- get_arr (snd na) ;;
                     elems' <- mapM (fun eid : N =>
                                       cl <- get_cell eid ;;
                                       v' <- copy_val f (c_val cl) ;;
                                       nid <- fresh ;;
                                       put_cell nid (mkCell (c_name cl) (c_type cl) false id v') ;;;
                                       ret nid) (a_elems a) ;;
                     naid <- fresh ;;
                     put_arr naid (mkArr (a_name a) (a_type a) (a_dims a) elems') ;;;
                     ret (fst na, naid)) (x_arrs cx) ;;
    upd_ctx id (fun k => ctx_with_arrs arrs' (ctx_with_vars vars' k)) ;;;
    ret id
  end.

(* Context::hasSameLayout / Array::hasSameLayout / Composite::hasSameLayout: one type name can have two definitions
   (a TYPE in a procedure hiding a global one); records are assigned only between contexts with the same fields of the
   same types in the same order, all the way down *)
Fixpoint all2M {A B} (f : A -> B -> M bool) (l1 : list A) (l2 : list B) : M bool :=
  match l1, l2 with
  | a :: r1, b :: r2 => ok <- f a b ;; if ok then all2M f r1 r2 else ret false
  | _, _ => ret true
  end.
Definition rec_pair_layout (sl : N -> N -> M bool) (e1 e2 : N) : M bool :=
  c1 <- get_cell e1 ;; c2 <- get_cell e2 ;;
  match c_val c1, c_val c2 with
  | PRec _ x, PRec _ y => sl x y
  | _, _ => crash "get<Composite> on other payload"
  end.
Definition arr_layout (sl : N -> N -> M bool) (a1 a2 : arr) : M bool :=
  if negb (dt_eq (a_type a1) (a_type a2)) then ret false
  else if negb (dt_is (a_type a1) KRec) then ret true
  else all2M (rec_pair_layout sl) (a_elems a1) (a_elems a2).
Fixpoint same_layout (fuel : nat) (dc sc : N) : M bool :=
  match fuel with
  | O => failm FFuel
  | S f =>
    dx <- get_ctx dc ;; sx <- get_ctx sc ;;
    if negb (Nat.eqb (List.length (x_vars dx)) (List.length (x_vars sx)))
       || negb (Nat.eqb (List.length (x_arrs dx)) (List.length (x_arrs sx))) then ret false else
    ok <- all2M (fun (dv sv : str * N) =>
                   d <- get_cell (snd dv) ;; s <- get_cell (snd sv) ;;
                   if negb (dt_eq (c_type d) (c_type s)) then ret false
                   else if dt_is (c_type d) KRec then
                     match c_val d, c_val s with
                     | PRec _ x, PRec _ y => same_layout f x y
                     | _, _ => crash "get<Composite> on other payload"
                     end
                   else ret true) (x_vars dx) (x_vars sx) ;;
    if negb ok then ret false else
    all2M (fun (da sa : str * N) => a1 <- get_arr (snd da) ;; a2 <- get_arr (snd sa) ;; arr_layout (same_layout f) a1 a2)
          (x_arrs dx) (x_arrs sx)
  end.
Definition arrays_same_layout (fuel : nat) (did sid : N) : M bool :=
  a1 <- get_arr did ;; a2 <- get_arr sid ;; arr_layout (same_layout fuel) a1 a2.

(* Composite::operator= : same type name (abort otherwise), same definition (runtime error raised without a source
   position, in the record's own context), then Context::copyVariableData *)
Definition composite_assign (cvd : N -> N -> M unit) (fuel : nat) (tn0 : str) (dc : N) (tn : str) (sc : N) : M unit :=
  if str_eqb tn0 tn then
    ok <- same_layout fuel dc sc ;;
    if ok then cvd dc sc else rt_error err_token dc
  else crash "userType.cpp Composite::operator= abort".

(* Variable::set(data, copy = true) and what it reaches *)
Fixpoint set_copy (fuel : nat) (dst : N) (src : payload) : M unit :=
  match fuel with
  | O => failm FFuel
  | S f =>
    d <- get_cell dst ;;
    match c_val d, src with
    | PRec tn dc, PRec tn' sc => composite_assign (copy_var_data f) f tn dc tn' sc
    | _, _ =>
      if dk_eqb (dk (c_type d)) (payload_kind src)
      then v' <- copy_val f src ;; set_cell_val dst v'
      else crash "Variable::set: payload reinterpreted as another type"
    end
  end
with copy_var_data (fuel : nat) (dc sc : N) : M unit :=
  match fuel with
  | O => failm FFuel
  | S f =>
    dx <- get_ctx dc ;; sx <- get_ctx sc ;;
    zipM (fun (dv sv : str * N) => s <- get_cell (snd sv) ;; set_copy f (snd dv) (c_val s)) (x_vars dx) (x_vars sx) ;;;
    zipM (fun (da sa : str * N) =>
            a1 <- get_arr (snd da) ;; a2 <- get_arr (snd sa) ;;
            (* Array::copyData: i < data.size() && i < other.data.size() *)
            (fix go (l1 l2 : list N) : M unit :=
               match l1, l2 with
               | e1 :: r1, e2 :: r2 => s <- get_cell e2 ;; set_copy f e1 (c_val s) ;;; go r1 r2
               | _, _ => ret Datatypes.tt
               end) (a_elems a1) (a_elems a2)) (x_arrs dx) (x_arrs sx)
  end.

(* Array::copyData between two arrays *)
Definition copy_array_data (fuel : nat) (dst src : N) : M unit :=
  if N.eqb dst src then ret Datatypes.tt else
  a1 <- get_arr dst ;; a2 <- get_arr src ;;
  (fix go (l1 l2 : list N) : M unit :=
     match l1, l2 with
     | e1 :: r1, e2 :: r2 => s <- get_cell e2 ;; set_copy fuel e1 (c_val s) ;;; go r1 r2
     | _, _ => ret Datatypes.tt
     end) (a_elems a1) (a_elems a2).

(* `var->get<T>() = valueRes->get<T>()` : the per-type switch on the TARGET's type *)
Definition assign_val (fuel : nat) (dst : N) (v : result) : M unit :=
  d <- get_cell dst ;;
  match dk (c_type d), r_val v with
  | KNone, _ => crash "assignment switch: NONE abort"
  | _, None => crash "null payload dereferenced"
  | KInt, Some (PInt _) | KReal, Some (PReal _) | KBool, Some (PBool _) | KChar, Some (PChar _)
  | KStr, Some (PStr _) | KDate, Some (PDate _ _ _) => match r_val v with Some p => set_cell_val dst p | None => ret Datatypes.tt end
  | KEnum, Some (PEnum tn i) =>
    match c_val d with
    | PEnum tn0 _ => if str_eqb tn0 tn then set_cell_val dst (PEnum tn0 i) else crash "userType.cpp Enum::operator= abort"
    | _ => crash "cell payload disagrees with its type"
    end
  | KPtr, Some (PPtr tn t o) =>
    match c_val d with
    | PPtr tn0 _ _ => if str_eqb tn0 tn then set_cell_val dst (PPtr tn0 t o) else crash "userType.cpp Pointer::operator= abort"
    | _ => crash "cell payload disagrees with its type"
    end
  | KRec, Some (PRec tn sc) =>
    match c_val d with
    | PRec tn0 dc => composite_assign (copy_var_data fuel) fuel tn0 dc tn sc
    | _ => crash "cell payload disagrees with its type"
    end
  | _, Some _ => crash "get<T> on other payload"
  end.

(* ---------- abstraction: the value tree stored under a cell ---------- *)
Fixpoint abs_val (fuel : nat) (c : N) (p : payload) : M vtree :=
  match p with
  | PInt z => ret (VInt z) | PReal r => ret (VReal r) | PBool b => ret (VBool b) | PChar ch => ret (VChar ch)
  | PStr s => ret (VStr s) | PDate d m y => ret (VDate d m y)
  | PEnum tn i =>
    d <- lookup_enum_def c tn true ;;
    ret (VEnum tn (match d with Some vals => Z.of_nat (List.length vals) | None => 0 end) i)
  | PPtr _ _ _ => ret VPtr
  | PRec tn rc =>
    match fuel with
    | O => failm FFuel
    | S f =>
      cx <- get_ctx rc ;;
      fs <- mapM (fun nv : str * N => cl <- get_cell (snd nv) ;; abs_val f c (c_val cl)) (x_vars cx) ;;
      ars <- mapM (fun na : str * N => a <- get_arr (snd na) ;;
                                       mapM (fun e : N => cl <- get_cell e ;; abs_val f c (c_val cl)) (a_elems a)) (x_arrs cx) ;;
      ret (VRec tn fs ars)
    end
  end.

(* store a loaded tree back into the existing structure (in place, as Value::load does) *)
Fixpoint store_tree (fuel : nat) (id : N) (t : vtree) : M unit :=
  match fuel with
  | O => failm FFuel
  | S f =>
    cl <- get_cell id ;;
    match t, c_val cl with
    | VInt z, PInt _ => set_cell_val id (PInt z)
    | VReal r, PReal _ => set_cell_val id (PReal r)
    | VBool b, PBool _ => set_cell_val id (PBool b)
    | VChar ch, PChar _ => set_cell_val id (PChar ch)
    | VStr s, PStr _ => set_cell_val id (PStr s)
    | VDate d m y, PDate _ _ _ => set_cell_val id (PDate d m y)
    | VEnum tn _ i, PEnum tn0 _ => if str_eqb tn tn0 then set_cell_val id (PEnum tn0 i) else crash "loaded value of another class than the object read into"
    | VPtr, _ => ret Datatypes.tt
    | VRec _ fs ars, PRec _ rc =>
      cx <- get_ctx rc ;;
      zipM (fun (nv : str * N) (t' : vtree) => store_tree f (snd nv) t') (x_vars cx) fs ;;;
      zipM (fun (na : str * N) (ts : list vtree) =>
              a <- get_arr (snd na) ;; zipM (fun (e : N) (t' : vtree) => store_tree f e t') (a_elems a) ts) (x_arrs cx) ars
    | _, _ => crash "loaded value of another class than the object read into"      (* Value::load reads into the object that is there *)
    end
  end.
