(* Eval.v — the tree-walking evaluator: one case per Node class of src/nodes, with the checks
   in the order the C++ performs them.  Recursion is on fuel; FFuel is a distinct failure. *)
From PE2 Require Export Heap Control Files Dates Enums Builtins.
Local Open Scope Z_scope.

Section Eval.
Variable pedantic : bool.
Variable repl : bool.
Variable lim : limits.

Notation tick := (Control.tick lim).

Definition alloc_cells (n : Z) (c : N) : M unit :=
  k <- gets s_cellcount ;;
  if (0 <? max_cells lim) && ((max_cells lim <? n) || (max_cells lim <? k + n)) then budget_error err_token c
  else if 0 <? max_cells lim then modify (set_cellcount (k + n)) else ret Datatypes.tt.

Definition check_strlen (n : Z) (t : token) (c : N) : M unit :=
  if (0 <? max_strlen lim) && (max_strlen lim <? n) then budget_error t c else ret Datatypes.tt.

(* ---------------- small pure helpers ---------------- *)
Definition is_numeric (t : dtype) : bool := dt_is t KInt || dt_is t KReal.

(* NodeResult::implicitCast *)
Definition implicit_cast (target : dtype) (r : result) : M result :=
  if dt_is target KReal && dt_is (r_type r) KInt then
    z <- as_int r ;; ret (res_of KReal (PReal (real_of_z z)))
  else if dt_is target KChar && dt_is (r_type r) KStr then
    s <- as_str r ;; match s with [c] => ret (res_of KChar (PChar c)) | _ => ret r end
  else if dt_is target KStr && dt_is (r_type r) KChar then
    c <- as_char r ;; ret (res_of KStr (PStr [c]))
  else ret r.

(* numeric operand as a double *)
Definition num_as_real (r : result) : M real :=
  if dt_is (r_type r) KReal then as_real r else z <- as_int r ;; ret (real_of_z z).

Definition date_to_str (d m y : Z) : str := z_to_str d ++ "/"%char :: z_to_str m ++ "/"%char :: z_to_str y.

(* Primitive::toString; None for a NaN real (text depends on the sign bit) *)
Definition prim_to_string (p : payload) : M str :=
  match p with
  | PInt z => ret (z_to_str z)
  | PReal r => match real_to_string r with Some s => ret s | None => unsupported "NaN text" end
  | PBool b => ret (str_of_string (if b then "TRUE" else "FALSE"))
  | PChar c => ret [c]
  | PStr s => ret s
  | PDate d m y => ret (date_to_str d m y)
  | _ => crash "static_cast<Primitive*> on a custom value"
  end.

Definition real_to_char (r : real) : ascii :=       (* (char) double via 32-bit truncation *)
  match r with
  | S754_finite _ _ _ => let v := real_to_int64 r in
                         if (-2147483648 <=? v) && (v <=? 2147483647) then ascii_of_z v else ch_nul
  | _ => ch_nul
  end.

Definition cast_prim (t : token) (c : N) (p : payload) (target : dkind) : M payload :=
  match target, p with
  | KInt, PInt z => ret (PInt z)
  | KInt, PReal r => ret (PInt (real_to_int64 r))
  | KInt, PBool b => ret (PInt (if b then 1 else 0))
  | KInt, PChar ch => ret (PInt (schar_of_ascii ch))
  | KInt, PStr s => ret (PInt (string_to_int s))
  | KInt, PDate d m y => ret (PInt (date_key d m y))
  | KReal, PInt z => ret (PReal (real_of_z z))
  | KReal, PReal r => ret (PReal r)
  | KReal, PBool b => ret (PReal (real_of_z (if b then 1 else 0)))
  | KReal, PChar ch => ret (PReal (real_of_z (schar_of_ascii ch)))
  | KReal, PStr s => ret (PReal (string_to_real s))
  | KBool, PInt z => ret (PBool (negb (z =? 0)))
  | KBool, PReal r => ret (PBool (negb (is_rzero r)))
  | KBool, PBool b => ret (PBool b)
  | KBool, PChar ch => ret (PBool (negb (aeqb ch ch_nul)))
  | KBool, PStr s => ret (PBool (match s with [] => false | _ => true end))
  | KChar, PInt z => ret (PChar (ascii_of_z z))
  | KChar, PReal r => ret (PChar (real_to_char r))
  | KChar, PBool b => ret (PChar (ascii_of_z (if b then 1 else 0)))
  | KChar, PChar ch => ret (PChar ch)
  | KChar, PStr _ => ret (PChar ch_nul)
  | KStr, _ => s <- prim_to_string p ;; ret (PStr s)
  | (KReal | KBool | KChar), PDate _ _ _ => crash "date.cpp Date::toReal/toBoolean/toChar abort"
  | (KDate | KEnum | KPtr | KRec), _ => rt_error t c
  | KNone, _ => crash "cast.cpp NONE abort"
  | _, _ => crash "static_cast<Primitive*> on a custom value"
  end.

Definition arith_int (op : ttype) (a b : Z) : Z :=
  match op with
  | TPLUS => wrap64 (a + b)
  | TMINUS => wrap64 (a - b)
  | TSTAR => wrap64 (a * b)
  | TDIV => if b =? -1 then wrap64 (- a) else Z.quot a b
  | TMOD => if b =? -1 then 0 else Z.rem a b
  | _ => 0
  end.

Definition mod_real (x y : real) : real := let z := rdiv x y in rmul (rsub z (rfloor z)) y.

(* ArithmeticOperationNode::evaluate after both operands have been evaluated *)
Definition eval_arith (t : token) (c : N) (lr0 rr0 : result) : M result :=
    let swap := dt_is (r_type lr0) KInt && dt_is (r_type rr0) KEnum in
    let lr := if swap then rr0 else lr0 in
    let rr := if swap then lr0 else rr0 in
    if dt_is (r_type lr) KEnum && dt_is (r_type rr) KInt && (tt_eqb (tt t) TPLUS || tt_eqb (tt t) TMINUS) then
      p <- as_payload lr ;; k <- as_int rr ;;
      match p with
      | PEnum tn idx =>
        d <- lookup_enum_def c tn true ;;
        match d with
        | None => crash "userType.cpp Enum::getDefinition null"
        | Some vals =>
          let n := Z.of_nat (List.length vals) in
          if n =? 0 then crash "enum arithmetic: remainder by zero" else
          let '(a, b) := if swap then (k, idx) else (idx, k) in
          ret (mkRes (mkDT KEnum (Some tn)) (Some (PEnum tn (enum_arith (tt_eqb (tt t) TPLUS) a b n))))
        end
      | _ => crash "get<Enum> on other payload"
      end
    else if negb (is_numeric (r_type lr)) || negb (is_numeric (r_type rr)) then rt_error t c
    else if dt_is (r_type lr) KInt && dt_is (r_type rr) KInt then
      a <- as_int lr ;; b <- as_int rr ;;
      match tt t with
      | TSLASH => if b =? 0 then rt_error t c else ret (res_of KReal (PReal (rdiv (real_of_z a) (real_of_z b))))
      | TMOD | TDIV => if b =? 0 then rt_error t c else ret (res_of KInt (PInt (arith_int (tt t) a b)))
      | TPLUS | TMINUS | TSTAR => ret (res_of KInt (PInt (arith_int (tt t) a b)))
      | _ => crash "arithmetic.cpp operator abort"
      end
    else
      a <- num_as_real lr ;; b <- num_as_real rr ;;
      match tt t with
      | TPLUS => ret (res_of KReal (PReal (radd a b)))
      | TMINUS => ret (res_of KReal (PReal (rsub a b)))
      | TSTAR => ret (res_of KReal (PReal (rmul a b)))
      | TSLASH => if is_rzero b then rt_error t c else ret (res_of KReal (PReal (rdiv a b)))
      | TMOD => if is_rzero b then rt_error t c else ret (res_of KReal (PReal (mod_real a b)))
      | TDIV => if is_rzero b then rt_error t c else ret (res_of KInt (PInt (real_to_int64 (rfloor (rdiv a b)))))
      | _ => crash "arithmetic.cpp operator abort"
      end.

(* ComparisonNode::evaluate after both operands have been evaluated *)
Definition eval_cmp (t : token) (c : N) (lr0 rr0 : result) : M result :=
    '(lr, rr) <-
      (if dt_is (r_type lr0) KChar && dt_is (r_type rr0) KChar then
         a <- as_char lr0 ;; b <- as_char rr0 ;;
         ret (res_of KInt (PInt (schar_of_ascii a)), res_of KInt (PInt (schar_of_ascii b)))
       else if dt_is (r_type lr0) KDate && dt_is (r_type rr0) KDate then
         a <- as_payload lr0 ;; b <- as_payload rr0 ;;
         match a, b with
         | PDate d1 m1 y1, PDate d2 m2 y2 => ret (res_of KInt (PInt (date_key d1 m1 y1)), res_of KInt (PInt (date_key d2 m2 y2)))
         | _, _ => crash "get<Date> on other payload"
         end
       else ret (lr0, rr0)) ;;
    if negb (is_numeric (r_type lr)) || negb (is_numeric (r_type rr)) then
      let eq := tt_eqb (tt t) TEQUALS in
      if negb eq && negb (tt_eqb (tt t) TNOT_EQUALS) then rt_error t c
      else if negb (dt_eq (r_type lr) (r_type rr)) then ret (res_of KBool (PBool (negb eq)))
      else
        let fin (ceq : bool) := ret (res_of KBool (PBool (if eq then ceq else negb ceq))) in
        match dk (r_type lr) with
        | KBool => a <- as_bool lr ;; b <- as_bool rr ;; fin (Bool.eqb a b)
        | KStr => a <- as_str lr ;; b <- as_str rr ;; fin (str_eqb a b)
        | KEnum => a <- as_payload lr ;; b <- as_payload rr ;;
                   match a, b with PEnum _ i, PEnum _ j => fin (i =? j) | _, _ => crash "get<Enum> on other payload" end
        | _ => rt_error t c
        end
    else if dt_is (r_type lr) KInt && dt_is (r_type rr) KInt then
      a <- as_int lr ;; b <- as_int rr ;;
      match tt t with
      | TEQUALS => ret (res_of KBool (PBool (a =? b)))
      | TNOT_EQUALS => ret (res_of KBool (PBool (negb (a =? b))))
      | TGREATER => ret (res_of KBool (PBool (b <? a)))
      | TLESSER => ret (res_of KBool (PBool (a <? b)))
      | TGREATER_EQUAL => ret (res_of KBool (PBool (b <=? a)))
      | TLESSER_EQUAL => ret (res_of KBool (PBool (a <=? b)))
      | _ => crash "comparison.cpp operator abort"
      end
    else
      a <- num_as_real lr ;; b <- num_as_real rr ;;
      match tt t with
      | TEQUALS => ret (res_of KBool (PBool (req a b)))
      | TNOT_EQUALS => ret (res_of KBool (PBool (rne a b)))
      | TGREATER => ret (res_of KBool (PBool (rgt a b)))
      | TLESSER => ret (res_of KBool (PBool (rlt a b)))
      | TGREATER_EQUAL => ret (res_of KBool (PBool (rge a b)))
      | TLESSER_EQUAL => ret (res_of KBool (PBool (rle a b)))
      | _ => crash "comparison.cpp operator abort"
      end.

(* ---------------- standard input ---------------- *)
(* std::getline(std::cin, line) : the line, and whether the stream hit end-of-file while reading *)
Definition read_line : M (str * bool) :=
  inp <- gets s_in ;;
  let fix go (s : str) (acc : str) : str * str * bool :=
      match s with
      | [] => (rev acc, [], true)
      | c :: r => if aeqb c ch_nl then (rev acc, r, false) else go r (c :: acc)
      end in
  let '(l, r, eof) := go inp [] in
  modify (set_in r) ;;; ret (l, eof).

(* ---------------- REPL echo / OUTPUT forms ---------------- *)
Definition enum_name (c : N) (tn : str) (idx : Z) : M str :=
  d <- lookup_enum_def c tn true ;;
  match d with
  | None => crash "userType.cpp Enum::getDefinition null"
  | Some vals => match nth_z vals idx with Some v => ret v | None => crash "enum value index out of range" end
  end.

Definition output_item (c : N) (t : token) (r : result) : M unit :=
  match dk (r_type r) with
  | KInt => z <- as_int r ;; emit (z_to_str z)
  | KReal => x <- as_real r ;; match real_output x with Some s => emit s | None => unsupported "NaN text" end
  | KBool => b <- as_bool r ;; emit (str_of_string (if b then "TRUE" else "FALSE"))
  | KChar => ch <- as_char r ;; emit [ch]
  | KStr => s <- as_str r ;; emit s
  | KDate => p <- as_payload r ;; match p with PDate d m y => emit (date_to_str d m y) | _ => crash "get<Date> on other payload" end
  | KEnum => p <- as_payload r ;; match p with PEnum tn i => s <- enum_name c tn i ;; emit s | _ => crash "get<Enum> on other payload" end
  | KPtr => p <- as_payload r ;; match p with PPtr tn _ _ => emit (tn ++ str_of_string " object") | _ => crash "get<Pointer> on other payload" end
  | KRec => p <- as_payload r ;; match p with PRec tn _ => emit (tn ++ str_of_string " object") | _ => crash "get<Composite> on other payload" end
  | KNone => rt_error t c
  end.

Definition echo_result (c : N) (r : result) : M unit :=
  match dk (r_type r) with
  | KNone => ret Datatypes.tt
  | KInt => z <- as_int r ;; emit (z_to_str z ++ [ch_nl])
  | KReal => x <- as_real r ;; match real_output x with Some s => emit (s ++ [ch_nl]) | None => unsupported "NaN text" end
  | KBool => b <- as_bool r ;; emit (str_of_string (if b then "TRUE" else "FALSE") ++ [ch_nl])
  | KChar => ch <- as_char r ;; emit (ch_quote :: ch :: ch_quote :: [ch_nl])
  | KStr => s <- as_str r ;; emit (ch_dquote :: s ++ ch_dquote :: [ch_nl])
  | KDate => p <- as_payload r ;; match p with PDate d m y => emit (date_to_str d m y ++ [ch_nl]) | _ => crash "get<Date> on other payload" end
  | KEnum => p <- as_payload r ;;
             match p with PEnum tn i => s <- enum_name c tn i ;; emit (tn ++ str_of_string ": " ++ s ++ [ch_nl]) | _ => crash "get<Enum> on other payload" end
  | KPtr => p <- as_payload r ;;
            match p with
            | PPtr tn tgt owner =>
              valid <- on_chain c owner ;;
              (if valid then
                 match tgt with
                 | None => emit (tn ++ str_of_string ": null" ++ [ch_nl])
                 | Some id => cl <- get_cell id ;; emit (tn ++ str_of_string ": " ++ c_name cl ++ [ch_nl])
                 end
               else emit (tn ++ str_of_string ": {DELETED}" ++ [ch_nl]))
            | _ => crash "get<Pointer> on other payload" end
  | KRec => p <- as_payload r ;; match p with PRec tn _ => emit (tn ++ str_of_string " object" ++ [ch_nl]) | _ => crash "get<Composite> on other payload" end
  end.

(* ---------------- the default payload of a type (except records, which run their init block) ---------------- *)
Definition default_prim (ty : dtype) : option payload :=
  match dk ty, dname ty with
  | KInt, _ => Some (PInt 0)
  | KReal, _ => Some (PReal rzero)
  | KBool, _ => Some (PBool false)
  | KChar, _ => Some (PChar ch_nul)
  | KStr, _ => Some (PStr [])
  | KDate, _ => Some (PDate 0 0 0)
  | KEnum, Some n => Some (PEnum n 0)
  | KPtr, Some n => Some (PPtr n None 0)
  | _, _ => None
  end.

Definition add_var (c : N) (name : str) (id : N) : M unit :=
  upd_ctx c (fun k => ctx_with_vars (x_vars k ++ [(name, id)]) k).
Definition add_arr (c : N) (name : str) (id : N) : M unit :=
  upd_ctx c (fun k => ctx_with_arrs (x_arrs k ++ [(name, id)]) k).

Definition name_is (n : str) (s : string) : bool := str_eqb n (str_of_string s).

Definition builtin_names : list string :=
  ["LENGTH"; "RIGHT"; "MID"; "LEFT"; "TO_UPPER"; "TO_LOWER"; "NUM_TO_STR"; "STR_TO_NUM"; "IS_NUM"; "EOF";
   "LCASE"; "UCASE"; "ASC"; "CHR"; "DAY"; "MONTH"; "YEAR"; "DAYINDEX"; "SETDATE"; "TODAY";
   "TIME"; "HOURS"; "MINUTES"; "SECONDS"; "RAND"; "INT";
   "POW"; "EXP"; "SIN"; "COS"; "TAN"; "ASIN"; "ACOS"; "ATAN"; "ATAN2"; "SQRT"; "LOG"; "LN"]%string.

(* parameter kinds and return kind of a built-in *)
Definition builtin_sig (n : str) : option (list dkind * dkind) :=
  if name_is n "LENGTH" then Some ([KStr], KInt)
  else if name_is n "RIGHT" || name_is n "LEFT" then Some ([KStr; KInt], KStr)
  else if name_is n "MID" then Some ([KStr; KInt; KInt], KStr)
  else if name_is n "TO_UPPER" || name_is n "TO_LOWER" then Some ([KStr], KStr)
  else if name_is n "NUM_TO_STR" then Some ([KReal], KStr)
  else if name_is n "STR_TO_NUM" then Some ([KStr], KReal)
  else if name_is n "IS_NUM" || name_is n "EOF" then Some ([KStr], KBool)
  else if name_is n "LCASE" || name_is n "UCASE" then Some ([KChar], KChar)
  else if name_is n "ASC" then Some ([KChar], KInt)
  else if name_is n "CHR" then Some ([KInt], KChar)
  else if name_is n "DAY" || name_is n "MONTH" || name_is n "YEAR" || name_is n "DAYINDEX" then Some ([KDate], KInt)
  else if name_is n "SETDATE" then Some ([KInt; KInt; KInt], KDate)
  else if name_is n "TODAY" then Some ([], KDate)
  else if name_is n "TIME" || name_is n "HOURS" || name_is n "MINUTES" || name_is n "SECONDS" then Some ([], KInt)
  else if name_is n "RAND" then Some ([KInt], KReal)
  else if name_is n "INT" then Some ([KReal], KInt)
  else if name_is n "POW" || name_is n "ATAN2" then Some ([KReal; KReal], KReal)
  else if name_is n "EXP" || name_is n "SIN" || name_is n "COS" || name_is n "TAN" || name_is n "ASIN" || name_is n "ACOS" || name_is n "ATAN"
          || name_is n "SQRT" || name_is n "LOG" || name_is n "LN" then Some ([KReal], KReal)
  else None.

Definition next_rand : M Z :=
  r <- gets s_rand ;;
  match r with [] => ret 0 | x :: t => modify (set_rand t) ;;; ret x end.

(* body of a built-in; fc = the function's own context (errors are raised there with errToken) *)
Definition run_builtin (n : str) (fc : N) (args : list payload) : M result :=
  let err {A} : M A := rt_error err_token fc in
  match args with
  | [PStr s] =>
    if name_is n "LENGTH" then ret (res_of KInt (PInt (slen s)))
    else if name_is n "TO_UPPER" then ret (res_of KStr (PStr (bi_to_upper s)))
    else if name_is n "TO_LOWER" then ret (res_of KStr (PStr (bi_to_lower s)))
    else if name_is n "STR_TO_NUM" then ret (res_of KReal (PReal (string_to_real s)))
    else if name_is n "IS_NUM" then ret (res_of KBool (PBool (bi_is_num s)))
    else if name_is n "EOF" then
      fl <- gets s_files ;;
      match find_file s fl with
      | None => err
      | Some f => match of_mode f with
                  | FRead => ret (res_of KBool (PBool (match of_rest f with [] => true | _ => false end)))
                  | _ => err
                  end
      end
    else crash "builtin: argument mismatch"
  | [PStr s; PInt x] =>
    if name_is n "RIGHT" then match bi_right s x with Some v => ret (res_of KStr (PStr v)) | None => err end
    else if name_is n "LEFT" then match bi_left s x with Some v => ret (res_of KStr (PStr v)) | None => err end
    else crash "builtin: argument mismatch"
  | [PStr s; PInt x; PInt y] =>
    if name_is n "MID" then match bi_mid s x y with Some v => ret (res_of KStr (PStr v)) | None => err end
    else crash "builtin: argument mismatch"
  | [PReal x] =>
    if name_is n "NUM_TO_STR" then match real_to_string x with Some s => ret (res_of KStr (PStr s)) | None => unsupported "NaN text" end
    else if name_is n "INT" then ret (res_of KInt (PInt (bi_int x)))
    else if name_is n "SQRT" then ret (res_of KReal (PReal (rsqrt x)))
    else unsupported "libm function"
  | [PReal _; PReal _] => unsupported "libm function"
  | [PChar ch] =>
    if name_is n "LCASE" then ret (res_of KChar (PChar (to_lower ch)))
    else if name_is n "UCASE" then ret (res_of KChar (PChar (to_upper ch)))
    else if name_is n "ASC" then ret (res_of KInt (PInt (bi_asc ch)))
    else crash "builtin: argument mismatch"
  | [PInt x] =>
    if name_is n "CHR" then ret (res_of KChar (PChar (bi_chr x)))
    else if name_is n "RAND" then r1 <- next_rand ;; r2 <- next_rand ;; ret (res_of KReal (PReal (bi_rand x r1 r2)))
    else crash "builtin: argument mismatch"
  | [PDate d m y] =>
    if name_is n "DAY" then ret (res_of KInt (PInt d))
    else if name_is n "MONTH" then ret (res_of KInt (PInt m))
    else if name_is n "YEAR" then ret (res_of KInt (PInt y))
    else if name_is n "DAYINDEX" then (if ymd_ok d m y then ret (res_of KInt (PInt (day_index d m y))) else unsupported "weekday of an invalid date")
    else crash "builtin: argument mismatch"
  | [PInt d; PInt m; PInt y] =>
    if name_is n "SETDATE" then match setdate d m y with Some _ => ret (res_of KDate (PDate d m y)) | None => err end
    else crash "builtin: argument mismatch"
  | [] => unsupported "clock"
  | _ => crash "builtin: argument mismatch"
  end.

Fixpoint builtin_args (t : token) (c : N) (ks : list dkind) (vs : list result) : M (list payload) :=
  match ks, vs with
  | k :: kr, v :: vr =>
    v' <- implicit_cast (dt_prim k) v ;;
    if negb (dt_is (r_type v') k) then rt_error t c else
    p <- as_payload v' ;; rest <- builtin_args t c kr vr ;; ret (p :: rest)
  | _, _ => ret []
  end.

(* ---------------- the evaluator ---------------- *)
Definition hfuel : nat := 64.        (* nesting depth of record values: heap traversals *)

(* the store sequence of AssignNode once value and target are known: constant test, implicit
   conversion, type test, then the store itself *)
Definition store_value (t : token) (c : N) (id : N) (v : result) : M result :=
  cl <- get_cell id ;;
  if c_const cl then rt_error t c else
  v' <- implicit_cast (c_type cl) v ;;
  if negb (dt_eq (c_type cl) (r_type v')) then rt_error t c
  else
    ok <- (match c_val cl, r_val v' with
           | PRec _ dc, Some (PRec _ sc) => if dt_is (c_type cl) KRec then same_layout hfuel dc sc else ret true
           | _, _ => ret true
           end) ;;
    if negb ok then rt_error t c else
    assign_val hfuel id v' ;;; ret res_none.


Definition expect_holder_var (t : token) (c : N) (h : holder) : M N :=
  match h with HVar id => ret id | HArr _ => array_direct_error t c end.

(* the ten mutually recursive evaluation functions at one fuel level, as a record: each body below is
   an ordinary (non-recursive) definition over the functions of the level beneath it *)
Record evs := mkEvs {
  ev_fuel : nat;                       (* the level: bounds the iterations of a loop at this level *)
  ev_eval : node -> N -> M result;
  ev_resolve : resolver -> N -> M holder;
  ev_case_equals : result -> node -> N -> M bool;
  ev_case_range : result -> node -> node -> N -> M bool;
  ev_run_block : block -> N -> M unit;
  ev_new_var : str -> dtype -> bool -> N -> M N;
  ev_new_array : str -> dtype -> list dim -> N -> M N;
  ev_bind_args : token -> list (str * dtype * bool) -> list node -> list result -> N -> N -> M unit;
  ev_call_procedure : token -> str -> list node -> N -> M result;
  ev_call_function : token -> list node -> N -> M result }.

Definition eval_body (self : evs) (n : node) (c : N) : M result :=
  match n with
  | NInt t => ret (res_of KInt (PInt (digits_to_z (tval t))))
  | NReal t => match stod_literal (tval t) with
               | Some r => ret (res_of KReal (PReal r))
               | None => crash "RealNode: stod out_of_range"
               end
  | NBool t => match tt t with
               | TTRUE => ret (res_of KBool (PBool true))
               | TFALSE => ret (res_of KBool (PBool false))
               | _ => crash "comparison.cpp BooleanNode abort"
               end
  | NChar t => match tval t with ch :: _ => ret (res_of KChar (PChar ch)) | [] => ret (res_of KChar (PChar ch_nul)) end
  | NStr t => ret (res_of KStr (PStr (tval t)))
  | NDate t =>
    let parts := (fix split (s : str) (cur : str) (acc : list str) : list str :=
                    match s with
                    | [] => rev (rev cur :: acc)
                    | ch :: r => if aeqb ch "/"%char then split r [] (rev cur :: acc) else split r (ch :: cur) acc
                    end) (tval t) [] [] in
    match parts with
    | [ds; ms; ys] =>
      if forallb is_digit (ds ++ ms ++ ys) && negb (match ds with [] => true | _ => false end)
         && negb (match ms with [] => true | _ => false end) && negb (match ys with [] => true | _ => false end)
      then
        let '(d, m, y) :=
            let d := digits_to_z ds in let m := digits_to_z ms in let y := digits_to_z ys in
            if (two64 <=? d) || (two64 <=? m) || (two64 <=? y) then (0, 0, 0) else date_literal_components d m y in
        if ymd_ok d m y then ret (res_of KDate (PDate d m y)) else rt_error t c
      else crash "arithmetic.cpp makeDate: stoul invalid_argument"
    | _ => crash "arithmetic.cpp makeDate: stoul invalid_argument"
    end
  | NNeg t e =>
    r <- ev_eval self e c ;;
    if dt_is (r_type r) KInt then z <- as_int r ;; ret (res_of KInt (PInt (wrap64 (z * -1))))
    else if dt_is (r_type r) KReal then x <- as_real r ;; ret (res_of KReal (PReal (rmul x (real_of_z (-1)))))
    else rt_error t c
  | NArith t l r =>
    lr0 <- ev_eval self l c ;; rr0 <- ev_eval self r c ;; eval_arith t c lr0 rr0
  | NCmp t l r =>
    lr0 <- ev_eval self l c ;; rr0 <- ev_eval self r c ;; eval_cmp t c lr0 rr0
  | NLogic t l r =>
    lr <- ev_eval self l c ;;
    let is_and := tt_eqb (tt t) TAND in
    lfalse <- (if is_and && dt_is (r_type lr) KBool then b <- as_bool lr ;; ret (negb b) else ret false) ;;
    if lfalse then ret (res_of KBool (PBool false))
    else
      rr <- ev_eval self r c ;;
      if negb (dt_is (r_type lr) KBool) || negb (dt_is (r_type rr) KBool) then rt_error t c
      else a <- as_bool lr ;; b <- as_bool rr ;;
           match tt t with
           | TAND => ret (res_of KBool (PBool (a && b)))
           | TOR => ret (res_of KBool (PBool (a || b)))
           | _ => crash "logic.cpp operator abort"
           end
  | NNot t e =>
    r <- ev_eval self e c ;;
    if negb (dt_is (r_type r) KBool) then rt_error t c
    else b <- as_bool r ;; ret (res_of KBool (PBool (negb b)))
  | NCat t l r =>
    lr <- ev_eval self l c ;; rr <- ev_eval self r c ;;
    if dt_is (r_type lr) KNone || dt_is (r_type rr) KNone then rt_error t c else
    a <- as_payload lr ;; b <- as_payload rr ;;
    if negb (is_primitive a) || negb (is_primitive b) then rt_error t c else
    sa <- prim_to_string a ;; sb <- prim_to_string b ;;
    check_strlen (slen sa + slen sb) t c ;;;
    ret (res_of KStr (PStr (sa ++ sb)))
  | NCast t e target =>
    v <- ev_eval self e c ;;
    if dt_is (r_type v) KNone then rt_error t c else
    p <- as_payload v ;;
    if negb (is_primitive p) then rt_error t c
    else if dt_is (r_type v) target then ret v
    else if dt_is (r_type v) KDate && negb (dk_eqb target KInt) && negb (dk_eqb target KStr) then rt_error t c
    else p' <- cast_prim t c p target ;; ret (res_of target p')
  | NAccess t r =>
    h <- catch_cls (x <- ev_resolve self r c ;; ret (inl x)) is_not_defined
                   (fun fl => en <- get_enum_element c (tval t) true ;;
                              match en with Some ti => ret (inr ti) | None => failm fl end) ;;
    match h with
    | inr (tn, i) => ret (mkRes (mkDT KEnum (Some tn)) (Some (PEnum tn i)))
    | inl (HArr _) => array_direct_error t c
    | inl (HVar id) =>
      cl <- get_cell id ;;
      if dt_is (c_type cl) KNone then crash "variable.cpp AccessNode NONE abort" else
      v <- copy_val hfuel (c_val cl) ;;
      ret (mkRes (c_type cl) (Some v))
    end
  | NAssign t e r =>
    (* 1. the value; an ArrayDirectAccessError raised in this context while evaluating an AccessNode
          turns the statement into an array assignment (any other node: the error propagates) *)
    vr <- (if (match e with NAccess _ _ => true | _ => false end)
           then catch_cls (x <- ev_eval self e c ;; ret (Some x)) (is_array_direct c) (fun _ => ret None)
           else (x <- ev_eval self e c ;; ret (Some x))) ;;
    match vr with
    | None =>
      match e with
      | NAccess ta ra =>
        src <- ev_resolve self ra c ;;
        match src with
        | HVar _ => crash "static_cast<Array*> on a variable"
        | HArr sid =>
          dst <- ev_resolve self r c ;;
          match dst with
          | HVar _ => array_direct_error ta c
          | HArr did =>
            a1 <- get_arr did ;; a2 <- get_arr sid ;;
            if negb (dt_eq (a_type a1) (a_type a2)) then rt_error t c
            else if negb (dims_eqb (a_dims a1) (a_dims a2)) then rt_error t c
            else ok <- arr_layout (same_layout hfuel) a1 a2 ;;
                 if negb ok then rt_error t c else
                 copy_array_data hfuel did sid ;;; ret res_none
          end
        end
      | _ => crash "unreachable: handler only fires for an AccessNode"
      end
    | Some v =>
      if dt_is (r_type v) KNone then rt_error t c else
      id <- (match r with
             | RSimple tk =>
               catch_cls (h <- ev_resolve self r c ;; expect_holder_var t c h) is_not_defined
                         (fun fl => ist <- is_identifier_type c tk true ;;
                                    if ist then failm fl
                                    else ped_guard pedantic t ;;;
                                         nid <- ev_new_var self (tval tk) (r_type v) false c ;;
                                         add_var c (tval tk) nid ;;; ret nid)
             | _ => h <- ev_resolve self r c ;; expect_holder_var t c h
             end) ;;
      store_value t c id v
    end
  | NPtrAssign t pr vr =>
    ph <- ev_resolve self pr c ;;
    pid <- expect_holder_var t c ph ;;
    vh <- ev_resolve self vr c ;;
    match vh with
    | HArr _ => rt_error t c
    | HVar vid =>
      pc <- get_cell pid ;; vc <- get_cell vid ;;
      if negb (dt_is (c_type pc) KPtr) then rt_error t c else
      match c_val pc with
      | PPtr tn _ _ =>
        d <- lookup_ptr_def c tn true ;;
        match d with
        | None => crash "userType.cpp Pointer::getDefinition null"
        | Some target_ty =>
          if negb (dt_eq target_ty (c_type vc)) then rt_error t c
          else owner <- nonrec_ancestor (c_owner vc) ;;
               set_cell_val pid (PPtr tn (Some vid) owner) ;;; ret res_none
        end
      | _ => crash "cell payload disagrees with its type"
      end
    end
  | NFnCall t args => ev_call_function self t args c
  | NCall t name args => ev_call_procedure self t name args c
  | NDeclare t ids ty =>
    iterM (fun id : token =>
             ex <- lookup_var c (tval id) false ;;
             match ex with
             | Some _ => rt_error t c
             | None =>
               ist <- is_identifier_type c id true ;;
               if ist then rt_error t c else
               dty <- get_type c ty true ;;
               if dt_is dty KNone then not_defined_error t c else
               nid <- ev_new_var self (tval id) dty false c ;;
               add_var c (tval id) nid
             end) ids ;;; ret res_none
  | NConst t v id =>
    r <- ev_eval self v c ;;
    ex <- lookup_var c (tval id) false ;;
    match ex with
    | Some _ => rt_error t c
    | None =>
      if dt_is (r_type r) KNone then crash "variable.cpp Variable NONE abort" else
      p <- as_payload r ;;
      nid <- fresh ;;
      put_cell nid (mkCell (tval id) (r_type r) true c p) ;;;
      add_var c (tval id) nid ;;; ret res_none
    end
  | NArrDeclare t ids ty bounds =>
    if Nat.eqb (List.length bounds) 0 || negb (Nat.even (List.length bounds)) then crash "array.cpp ArrayDeclareNode abort" else
    iterM (fun id : token => ex <- lookup_arr c (tval id) false ;;
                             match ex with Some _ => rt_error t c | None => ret Datatypes.tt end) ids ;;;
    dims <- eval_bounds (fun x => ev_eval self x c) c bounds 1 ;;
    iterM (fun id : token =>
             dty <- get_type c ty true ;;
             if dt_is dty KNone then not_defined_error t c else
             aid <- ev_new_array self (tval id) dty dims c ;;
             add_arr c (tval id) aid) ids ;;; ret res_none
  | NEnumDef t name vals =>
    ist <- is_identifier_type c name true ;;
    if ist then rt_error t c
    else upd_ctx c (fun k => ctx_with_enums (x_enums k ++ [(tval name, vals)]) k) ;;; ret res_none
  | NPtrDef t name ty =>
    pty <- get_type c ty true ;;
    if dt_is pty KNone then not_defined_error t c else
    ist <- is_identifier_type c name true ;;
    if ist then rt_error t c
    else upd_ctx c (fun k => ctx_with_ptrs (x_ptrs k ++ [(tval name, pty)]) k) ;;; ret res_none
  | NCompDef t name body =>
    ist <- is_identifier_type c name true ;;
    if ist then rt_error t c
    else upd_ctx c (fun k => ctx_with_comps (x_comps k ++ [(tval name, body)]) k) ;;; ret res_none
  | NIf t comps =>
    if_chain t c (map (if_comp (fun x => ev_eval self x c) (fun b => ev_run_block self b c)) comps)
  | NCase t sel cases =>
    v <- ev_eval self sel c ;;
    case_chain (map (fun cc : casecomp =>
                       match cc with
                       | COther b => (ret true, ev_run_block self b c)
                       | CEq b e => (ev_case_equals self v e c, ev_run_block self b c)
                       | CRange b lo hi => (ev_case_range self v lo hi c, ev_run_block self b c)
                       end) cases)
  | NWhile t cond body => while_loop lim (ev_fuel self) t c (ev_eval self cond c) (ev_run_block self body c)
  | NRepeat t cond body => repeat_loop lim (ev_fuel self) t c (ev_eval self cond c) (ev_run_block self body c)
  | NFor t id start stop step body =>
    ex <- lookup_var c (tval id) true ;;
    it <- match ex with
          | Some i => ret i
          | None => nid <- ev_new_var self (tval id) (dt_prim KInt) false c ;; add_var c (tval id) nid ;;; ret nid
          end ;;
    icell <- get_cell it ;;
    if c_const icell then rt_error t c else
    if negb (dt_is (c_type icell) KInt) then rt_error t c else
    sr <- ev_eval self start c ;;
    if negb (dt_is (r_type sr) KInt) then rt_error t c else
    er <- ev_eval self stop c ;;
    if negb (dt_is (r_type er) KInt) then rt_error t c else
    stepv <- match step with
             | Some se => r <- ev_eval self se c ;;
                          if negb (dt_is (r_type r) KInt) then rt_error t c else as_int r
             | None => ret 1
             end ;;
    sv <- as_int sr ;; ev <- as_int er ;;
    set_cell_val it (PInt sv) ;;;
    for_loop lim (ev_fuel self) t c it stepv ev (ev_run_block self body c)
  | NBreak t => failm (FBreak t)
  | NContinue t => failm (FContinue t)
  | NProc t name params body =>
    ps <- gets s_procs ;;
    match assoc_str name ps with
    | Some _ => rt_error t c
    | None =>
      pl <- mapM (fun p : str * token * bool =>
                    let '(nm, tyt, br) := p in
                    ty <- get_type c tyt true ;;
                    if dt_is ty KNone then not_defined_error tyt c else ret (nm, ty, br)) params ;;
      modify (fun s => set_procs (s_procs s ++ [(name, mkPdef pl body)]) s) ;;; ret res_none
    end
  | NFunc t name params body rett =>
    fs <- gets s_funcs ;;
    match builtin_sig name, assoc_str name fs with
    | Some _, _ | _, Some _ => rt_error t c
    | None, None =>
      rty <- get_type c rett true ;;
      if dt_is rty KNone then not_defined_error rett c else
      pl <- mapM (fun p : str * token * bool =>
                    let '(nm, tyt, br) := p in
                    ty <- get_type c tyt true ;;
                    if dt_is ty KNone then not_defined_error tyt c else ret (nm, ty, br)) params ;;
      modify (fun s => set_funcs (s_funcs s ++ [(name, mkFdef pl body rty t)]) s) ;;; ret res_none
    end
  | NReturn t e =>
    cx <- get_ctx c ;;
    if negb (x_isfun cx) then rt_error t c else
    r <- ev_eval self e c ;;
    upd_ctx c (ctx_with_retval (Some r)) ;;;
    r' <- implicit_cast (x_rettype cx) r ;;
    upd_ctx c (ctx_with_retval (Some r')) ;;;
    if negb (dt_eq (r_type r') (x_rettype cx)) then rt_error t c else failm FReturn
  | NOutput t es =>
    iterM (fun e : node => r <- ev_eval self e c ;; output_item c (node_token e) r) es ;;;
    emit [ch_nl] ;;; ret res_none
  | NInput t r =>
    id <- (match r with
           | RSimple tk =>
             catch_cls (h <- ev_resolve self r c ;; expect_holder_var t c h) is_not_defined
                       (fun fl => ist <- is_identifier_type c tk true ;;
                                  if ist then failm fl
                                  else ped_guard pedantic tk ;;;
                                       nid <- ev_new_var self (tval tk) (dt_prim KStr) false c ;;
                                       add_var c (tval tk) nid ;;; ret nid)
           | _ => h <- ev_resolve self r c ;; expect_holder_var t c h
           end) ;;
    cl <- get_cell id ;;
    if c_const cl then rt_error t c else
    '(line, _) <- read_line ;;
    match dk (c_type cl) with
    | KInt => set_cell_val id (PInt (string_to_int line)) ;;; ret res_none
    | KReal => set_cell_val id (PReal (string_to_real line)) ;;; ret res_none
    | KBool => set_cell_val id (PBool (str_eqb line (str_of_string "TRUE"))) ;;; ret res_none
    | KChar => set_cell_val id (PChar (match line with ch :: _ => ch | [] => ch_nul end)) ;;; ret res_none
    | KStr => set_cell_val id (PStr line) ;;; ret res_none
    | KDate | KEnum | KPtr | KRec => rt_error t c
    | KNone => crash "io.cpp InputNode NONE abort"
    end
  | NOpenFile t fn mode =>
    fr <- ev_eval self fn c ;;
    if negb (dt_is (r_type fr) KStr) then rt_error t c else
    name <- as_str fr ;;
    fl <- gets s_files ;;
    match find_file name fl with
    | Some _ => rt_error t c
    | None => ok <- create_file name mode ;; if ok then ret res_none else rt_error t c
    end
  | NReadFile t fn id =>
    fr <- ev_eval self fn c ;;
    if negb (dt_is (r_type fr) KStr) then rt_error t c else
    name <- as_str fr ;;
    fl <- gets s_files ;;
    match find_file name fl with
    | None => rt_error t c
    | Some fh =>
      match of_mode fh with
      | FRead =>
        ex <- lookup_var c (tval id) true ;;
        vid <- match ex with
               | Some i => cl <- get_cell i ;;
                           if negb (dt_is (c_type cl) KStr) then rt_error t c
                           else if c_const cl then rt_error t c else ret i
               | None => nid <- ev_new_var self (tval id) (dt_prim KStr) false c ;; add_var c (tval id) nid ;;; ret nid
               end ;;
        let '(line, fh') := file_read_line fh in
        update_file fh' ;;; set_cell_val vid (PStr line) ;;; ret res_none
      | _ => rt_error t c
      end
    end
  | NWriteFile t fn d =>
    fr <- ev_eval self fn c ;;
    if negb (dt_is (r_type fr) KStr) then rt_error t c else
    name <- as_str fr ;;
    fl <- gets s_files ;;
    match find_file name fl with
    | None => rt_error t c
    | Some fh =>
      match of_mode fh with
      | FRead | FRandom => rt_error t c
      | _ =>
        dr <- ev_eval self d c ;;
        match dk (r_type dr) with
        | KNone | KEnum | KPtr | KRec => rt_error t c
        | _ => p <- as_payload dr ;; s <- prim_to_string p ;;
               (* the value may have been computed by a function that closed or reopened the file: looked up again *)
               fl2 <- gets s_files ;;
               match find_file name fl2 with
               | None => rt_error t c
               | Some fh2 =>
                 match of_mode fh2 with
                 | FRead | FRandom => rt_error t c
                 | _ => modify (fun st0 => set_fs (fs_set name (match fs_get name (s_fs st0) with Some old => old | None => [] end ++ s ++ [ch_nl]) (s_fs st0)) st0) ;;;
                        ret res_none
                 end
               end
        end
      end
    end
  | NCloseFile t fn =>
    fr <- ev_eval self fn c ;;
    if negb (dt_is (r_type fr) KStr) then rt_error t c else
    name <- as_str fr ;;
    fl <- gets s_files ;;
    match find_file name fl with
    | None => rt_error t c
    | Some fh => close_file_effect fh ;;; modify (fun s => set_files (remove_file name (s_files s)) s) ;;; ret res_none
    end
  | NSeek t fn a =>
    ar <- ev_eval self a c ;;
    if negb (dt_is (r_type ar) KInt) then rt_error t c else
    addr <- as_int ar ;;
    if addr <? 1 then rt_error t c else
    fr <- ev_eval self fn c ;;
    if negb (dt_is (r_type fr) KStr) then rt_error t c else
    name <- as_str fr ;;
    fl <- gets s_files ;;
    match find_file name fl with
    | None => rt_error t c
    | Some fh =>
      match of_mode fh with
      | FRandom =>
        match rf_seek fh addr with
        | None => rt_error t c
        | Some fh' => update_file fh' ;;; ret res_none
        end
      | _ => rt_error t c
      end
    end
  | NGetRecord t fn id =>
    fr <- ev_eval self fn c ;;
    if negb (dt_is (r_type fr) KStr) then rt_error t c else
    name <- as_str fr ;;
    fl <- gets s_files ;;
    match find_file name fl with
    | None => rt_error t c
    | Some fh =>
      match of_mode fh with
      | FRandom =>
        vo <- lookup_var c (tval id) true ;; ao <- lookup_arr c (tval id) true ;;
        match vo, ao with
        | None, None => not_defined_error id c
        | Some vid, _ =>
          cl <- get_cell vid ;;
          if dt_is (c_type cl) KPtr then rt_error t c else
          (match ao with Some aid => a <- get_arr aid ;; if dt_is (a_type a) KPtr then rt_error t c else ret Datatypes.tt | None => ret Datatypes.tt end) ;;;
          if c_const cl then rt_error t c else
          match rf_get fh with
          | None => rt_error t c
          | Some rec =>
            old <- abs_val hfuel c (c_val cl) ;;
            let '(new, _, ok) := load old rec in
            store_tree hfuel vid new ;;;
            if ok then ret res_none else rt_error t c
          end
        | None, Some aid =>
          a <- get_arr aid ;;
          if dt_is (a_type a) KPtr then rt_error t c else
          match rf_get fh with
          | None => rt_error t c
          | Some rec =>
            olds <- mapM (fun e : N => cl <- get_cell e ;; abs_val hfuel c (c_val cl)) (a_elems a) ;;
            let '(news, _, ok) := load_array olds rec in
            zipM (fun (e : N) (tr : vtree) => store_tree hfuel e tr) (a_elems a) news ;;;
            if ok then ret res_none else rt_error t c
          end
        end
      | _ => rt_error t c
      end
    end
  | NPutRecord t fn id =>
    fr <- ev_eval self fn c ;;
    if negb (dt_is (r_type fr) KStr) then rt_error t c else
    name <- as_str fr ;;
    fl <- gets s_files ;;
    match find_file name fl with
    | None => rt_error t c
    | Some fh =>
      match of_mode fh with
      | FRandom =>
        vo <- lookup_var c (tval id) true ;; ao <- lookup_arr c (tval id) true ;;
        txt <- match vo, ao with
               | None, None => not_defined_error id c
               | Some vid, _ =>
                 cl <- get_cell vid ;;
                 if dt_is (c_type cl) KPtr then rt_error t c else
                 (match ao with Some aid => a <- get_arr aid ;; if dt_is (a_type a) KPtr then rt_error t c else ret Datatypes.tt | None => ret Datatypes.tt end) ;;;
                 tr <- abs_val hfuel c (c_val cl) ;;
                 match dump tr with Some s => ret s | None => unsupported "NaN text" end
               | None, Some aid =>
                 a <- get_arr aid ;;
                 if dt_is (a_type a) KPtr then rt_error t c else
                 trs <- mapM (fun e : N => cl <- get_cell e ;; abs_val hfuel c (c_val cl)) (a_elems a) ;;
                 match dump_array trs with Some s => ret s | None => unsupported "NaN text" end
               end ;;
        update_file (rf_put fh txt) ;;; ret res_none
      | _ => rt_error t c
      end
    end
  end.

Definition resolve_body (self : evs) (r : resolver) (c : N) : M holder :=
  match r with
  | RSimple t =>
    v <- lookup_var c (tval t) true ;;
    match v with
    | Some id => ret (HVar id)
    | None => a <- lookup_arr c (tval t) true ;;
              match a with Some id => ret (HArr id) | None => not_defined_error t c end
    end
  | RDeref t r' =>
    h <- ev_resolve self r' c ;;
    match h with
    | HArr _ => rt_error t c
    | HVar id =>
      cl <- get_cell id ;;
      if negb (dt_is (c_type cl) KPtr) then rt_error t c else
      match c_val cl with
      | PPtr _ tgt owner =>
        live <- on_chain c owner ;;
        if negb live then rt_error t c else
        match tgt with None => rt_error t c | Some tid => ret (HVar tid) end
      | _ => crash "cell payload disagrees with its type"
      end
    end
  | RField t r' m =>
    h <- ev_resolve self r' c ;;
    match h with
    | HArr _ => rt_error t c
    | HVar id =>
      cl <- get_cell id ;;
      if negb (dt_is (c_type cl) KRec) then rt_error t c else
      match c_val cl with
      | PRec _ rc =>
        v <- lookup_var rc (tval m) false ;;
        match v with
        | Some fid => ret (HVar fid)
        | None => a <- lookup_arr rc (tval m) false ;;
                  match a with Some aid => ret (HArr aid) | None => rt_error t c end
        end
      | _ => crash "cell payload disagrees with its type"
      end
    end
  | RIndex t r' idx =>
    h <- ev_resolve self r' c ;;
    match h with
    | HVar _ => rt_error t c
    | HArr aid =>
      a <- get_arr aid ;;
      if negb (Nat.eqb (List.length idx) (List.length (a_dims a))) then rt_error t c else
      is <- eval_indices (fun x => ev_eval self x c) c idx (a_dims a) ;;
      match nth_z (a_elems a) (linear is (a_dims a)) with
      | Some eid => ret (HVar eid)
      | None => crash "array.cpp getElement: index outside the element vector"
      end
    end
  end.

Definition case_equals_body (self : evs) (v : result) (e : node) (c : N) : M bool :=
    r <- ev_eval self e c ;;
    if dt_is (r_type v) KReal && dt_is (r_type r) KInt then a <- as_real v ;; b <- as_int r ;; ret (req a (real_of_z b))
    else if dt_is (r_type v) KInt && dt_is (r_type r) KReal then a <- as_int v ;; b <- as_real r ;; ret (req (real_of_z a) b)
    else if negb (dt_eq (r_type v) (r_type r)) then ret false
    else
      match dk (r_type v) with
      | KInt => a <- as_int v ;; b <- as_int r ;; ret (a =? b)
      | KReal => a <- as_real v ;; b <- as_real r ;; ret (req a b)
      | KBool => a <- as_bool v ;; b <- as_bool r ;; ret (Bool.eqb a b)
      | KChar => a <- as_char v ;; b <- as_char r ;; ret (aeqb a b)
      | KStr => a <- as_str v ;; b <- as_str r ;; ret (str_eqb a b)
      | KDate => a <- as_payload v ;; b <- as_payload r ;;
                 match a, b with PDate d1 m1 y1, PDate d2 m2 y2 => ret ((d1 =? d2) && (m1 =? m2) && (y1 =? y2))
                            | _, _ => crash "get<Date> on other payload" end
      | KEnum => a <- as_payload v ;; b <- as_payload r ;;
                 match a, b with PEnum _ i, PEnum _ j => ret (i =? j) | _, _ => crash "get<Enum> on other payload" end
      | KPtr => a <- as_payload v ;; b <- as_payload r ;;
                match a, b with
                | PPtr _ t1 _, PPtr _ t2 _ => ret (match t1, t2 with
                                                  | Some x, Some y => N.eqb x y | None, None => true | _, _ => false end)
                | _, _ => crash "get<Pointer> on other payload" end
      | KRec => ret false
      | KNone => crash "case.cpp EqualsCaseComponent abort"
      end
  .

Definition case_range_body (self : evs) (v : result) (lo hi : node) (c : N) : M bool :=
    if negb (is_numeric (r_type v)) then ret false else
    tv <- num_as_real v ;;
    lr <- ev_eval self lo c ;;
    if negb (is_numeric (r_type lr)) then rt_error (node_token lo) c else
    lv <- num_as_real lr ;;
    hr <- ev_eval self hi c ;;
    if negb (is_numeric (r_type hr)) then rt_error (node_token hi) c else
    hv <- num_as_real hr ;;
    ret (rle lv tv && rle tv hv)
  .

(* Block::run : _run or _runREPL *)
Definition run_block_body (self : evs) (b : block) (c : N) : M unit :=
    iterM (fun n : node =>
             tick (node_token n) c ;;;
             r <- ev_eval self n c ;;
             if repl then echo_result c r else ret Datatypes.tt) b
  .

(* new Variable(name, type, isConstant, ctx) with default initial data *)
Definition new_var_body (self : evs) (name : str) (ty : dtype) (cst : bool) (owner : N) : M N :=
    match default_prim ty with
    | Some p => id <- fresh ;; put_cell id (mkCell name ty cst owner p) ;;; ret id
    | None =>
      match dk ty, dname ty with
      | KRec, Some tn =>
        (* new Composite(name, ctx): private context, then run the type's init block in it *)
        rc <- new_ctx (Some owner) tn false true dt_none ;;
        d <- lookup_comp_def rc tn true ;;
        match d with
        | None => crash "userType.cpp Composite::getDefinition null"
        | Some body =>
          ev_run_block self body rc ;;;
          id <- fresh ;; put_cell id (mkCell name ty cst owner (PRec tn rc)) ;;; ret id
        end
      | KNone, _ => crash "variable.cpp Variable NONE abort"
      | _, _ => crash "variable.cpp: user type without a name"
      end
    end
  .

(* Array(name, type, dims) + init(ctx) *)
Definition new_array_body (self : evs) (name : str) (ty : dtype) (dims : list dim) (owner : N) : M N :=
    let n := total_size dims in
    alloc_cells n owner ;;;
    elems <- repeatM (Z.to_nat n) (ev_new_var self name ty false owner) ;;
    aid <- fresh ;;
    put_arr aid (mkArr name ty dims elems) ;;; ret aid
  .

(* binding of arguments to parameters, shared by CallNode and FunctionCallNode *)
Definition bind_args_body (self : evs) (t : token) (params : list (str * dtype * bool)) (args : list node)
               (vals : list result) (c fc : N) : M unit :=
    match params, args, vals with
    | [], _, _ => ret Datatypes.tt
    | (pn, pty, byref) :: pr, a :: ar, v :: vr =>
      v' <- (if byref then ret v else implicit_cast pty v) ;;
      if negb (dt_eq pty (r_type v')) then rt_error t c else
      (if byref then
         match a with
         | NAccess _ rs =>
           h <- ev_resolve self rs c ;;
           id <- expect_holder_var t c h ;;
           add_var fc pn id
         | _ => rt_error t c
         end
       else
         id <- ev_new_var self pn (r_type v') false fc ;;
         ncl <- get_cell id ;;
         ok <- (match c_val ncl, r_val v' with
                | PRec _ dc, Some (PRec _ sc) => if dt_is (c_type ncl) KRec then same_layout hfuel dc sc else ret true
                | _, _ => ret true
                end) ;;
         if negb ok then rt_error t c else
         assign_val hfuel id v' ;;;
         add_var fc pn id) ;;;
      ev_bind_args self t pr ar vr c fc
    | _, _, _ => crash "call: argument vectors of different length"
    end
  .

Definition call_procedure_body (self : evs) (t : token) (name : str) (args : list node) (c : N) : M result :=
    ps <- gets s_procs ;;
    match assoc_str name ps with
    | None => not_defined_error t c
    | Some pd =>
      vals <- mapM (fun a : node => ev_eval self a c) args ;;
      if negb (Nat.eqb (List.length args) (List.length (pd_params pd))) then rt_error t c else
      pc <- new_ctx (Some c) name false false dt_none ;;
      ev_bind_args self t (pd_params pd) args vals c pc ;;;
      upd_ctx c (ctx_with_switch (Some (tline t, tcol t))) ;;;
      d <- gets s_depth ;;
      (if (0 <? max_depth lim) && (max_depth lim <? d + 1) then budget_error t c else ret Datatypes.tt) ;;;
      modify (set_depth (d + 1)) ;;;
      call_body d pc false (ev_run_block self (pd_body pd) pc) ;;;
      upd_ctx c (ctx_with_switch None) ;;; ret res_none
    end
  .

Definition call_function_body (self : evs) (t : token) (args : list node) (c : N) : M result :=
    let name := tval t in
    fs <- gets s_funcs ;;
    match builtin_sig name, assoc_str name fs with
    | None, None => not_defined_error t c
    | Some (pkinds, rk), _ =>
      vals <- mapM (fun a : node => ev_eval self a c) args ;;
      if negb (Nat.eqb (List.length args) (List.length pkinds)) then rt_error t c else
      fc <- new_ctx (Some c) name true false (dt_prim rk) ;;
      ps <- builtin_args t c pkinds vals ;;
      upd_ctx c (ctx_with_switch (Some (tline t, tcol t))) ;;;
      d <- gets s_depth ;;
      (if (0 <? max_depth lim) && (max_depth lim <? d + 1) then budget_error t c else ret Datatypes.tt) ;;;
      r <- run_builtin name fc ps ;;
      upd_ctx c (ctx_with_switch None) ;;; ret r
    | None, Some fd =>
      vals <- mapM (fun a : node => ev_eval self a c) args ;;
      if negb (Nat.eqb (List.length args) (List.length (fd_params fd))) then rt_error t c else
      fc <- new_ctx (Some c) name true false (fd_ret fd) ;;
      ev_bind_args self t (fd_params fd) args vals c fc ;;;
      upd_ctx c (ctx_with_switch (Some (tline t, tcol t))) ;;;
      d <- gets s_depth ;;
      (if (0 <? max_depth lim) && (max_depth lim <? d + 1) then budget_error t c else ret Datatypes.tt) ;;;
      modify (set_depth (d + 1)) ;;;
      call_body d fc true (ev_run_block self (fd_body fd) fc) ;;;
      fx <- get_ctx fc ;;
      match x_retval fx with
      | None => rt_error (fd_tok fd) fc
      | Some r => upd_ctx c (ctx_with_switch None) ;;; ret r
      end
    end
  .

(* tying the knot on fuel *)
Definition evs_zero : evs :=
  mkEvs O (fun _ _ => failm FFuel) (fun _ _ => failm FFuel) (fun _ _ _ => failm FFuel) (fun _ _ _ _ => failm FFuel)
        (fun _ _ => failm FFuel) (fun _ _ _ _ => failm FFuel) (fun _ _ _ _ => failm FFuel) (fun _ _ _ _ _ _ => failm FFuel)
        (fun _ _ _ _ => failm FFuel) (fun _ _ _ => failm FFuel).
Definition evs_step (self : evs) : evs :=
  mkEvs (S (ev_fuel self)) (eval_body self) (resolve_body self) (case_equals_body self) (case_range_body self) (run_block_body self)
        (new_var_body self) (new_array_body self) (bind_args_body self) (call_procedure_body self) (call_function_body self).
Fixpoint evs_at (fuel : nat) : evs :=
  match fuel with O => evs_zero | S f => evs_step (evs_at f) end.

Definition eval (fuel : nat) := ev_eval (evs_at fuel).
Definition resolve (fuel : nat) := ev_resolve (evs_at fuel).
Definition run_block (fuel : nat) := ev_run_block (evs_at fuel).
Definition call_function (fuel : nat) := ev_call_function (evs_at fuel).
Definition call_procedure (fuel : nat) := ev_call_procedure (evs_at fuel).

End Eval.
