
val xorb : bool -> bool -> bool

val negb : bool -> bool

type nat =
| O
| S of nat

type ('a, 'b) sum =
| Inl of 'a
| Inr of 'b

val fst : ('a1 * 'a2) -> 'a1

val snd : ('a1 * 'a2) -> 'a2

val length : 'a1 list -> nat

val app : 'a1 list -> 'a1 list -> 'a1 list

type comparison =
| Eq
| Lt
| Gt

val compOpp : comparison -> comparison

val add : nat -> nat -> nat

val mul : nat -> nat -> nat

val sub : nat -> nat -> nat

val eqb : bool -> bool -> bool

type positive =
| XI of positive
| XO of positive
| XH

type n =
| N0
| Npos of positive

type z =
| Z0
| Zpos of positive
| Zneg of positive

module Nat :
 sig
  val eqb : nat -> nat -> bool

  val leb : nat -> nat -> bool

  val ltb : nat -> nat -> bool

  val even : nat -> bool
 end

module Pos :
 sig
  type mask =
  | IsNul
  | IsPos of positive
  | IsNeg
 end

module Coq_Pos :
 sig
  val succ : positive -> positive

  val add : positive -> positive -> positive

  val add_carry : positive -> positive -> positive

  val pred_double : positive -> positive

  type mask = Pos.mask =
  | IsNul
  | IsPos of positive
  | IsNeg

  val succ_double_mask : mask -> mask

  val double_mask : mask -> mask

  val double_pred_mask : positive -> mask

  val sub_mask : positive -> positive -> mask

  val sub_mask_carry : positive -> positive -> mask

  val mul : positive -> positive -> positive

  val iter : ('a1 -> 'a1) -> 'a1 -> positive -> 'a1

  val div2 : positive -> positive

  val div2_up : positive -> positive

  val size : positive -> positive

  val compare_cont : comparison -> positive -> positive -> comparison

  val compare : positive -> positive -> comparison

  val eqb : positive -> positive -> bool

  val leb : positive -> positive -> bool

  val sqrtrem_step :
    (positive -> positive) -> (positive -> positive) -> (positive * mask) ->
    positive * mask

  val sqrtrem : positive -> positive * mask

  val iter_op : ('a1 -> 'a1 -> 'a1) -> positive -> 'a1 -> 'a1

  val to_nat : positive -> nat

  val of_succ_nat : nat -> positive
 end

module N :
 sig
  val succ_double : n -> n

  val double : n -> n

  val succ : n -> n

  val succ_pos : n -> positive

  val add : n -> n -> n

  val sub : n -> n -> n

  val mul : n -> n -> n

  val compare : n -> n -> comparison

  val eqb : n -> n -> bool

  val leb : n -> n -> bool

  val pos_div_eucl : positive -> n -> n * n

  val of_nat : nat -> n
 end

val zero : char

val one : char

val shift : bool -> char -> char

val ascii_of_pos : positive -> char

val ascii_of_N : n -> char

val ascii_of_nat : nat -> char

val n_of_digits : bool list -> n

val n_of_ascii : char -> n

val hd : 'a1 -> 'a1 list -> 'a1

val tl : 'a1 list -> 'a1 list

val nth : nat -> 'a1 list -> 'a1 -> 'a1

val nth_error : 'a1 list -> nat -> 'a1 option

val rev : 'a1 list -> 'a1 list

val concat : 'a1 list list -> 'a1 list

val map : ('a1 -> 'a2) -> 'a1 list -> 'a2 list

val fold_left : ('a1 -> 'a2 -> 'a1) -> 'a2 list -> 'a1 -> 'a1

val existsb : ('a1 -> bool) -> 'a1 list -> bool

val forallb : ('a1 -> bool) -> 'a1 list -> bool

val filter : ('a1 -> bool) -> 'a1 list -> 'a1 list

val combine : 'a1 list -> 'a2 list -> ('a1 * 'a2) list

val firstn : nat -> 'a1 list -> 'a1 list

val skipn : nat -> 'a1 list -> 'a1 list

module Z :
 sig
  val double : z -> z

  val succ_double : z -> z

  val pred_double : z -> z

  val pos_sub : positive -> positive -> z

  val add : z -> z -> z

  val opp : z -> z

  val sub : z -> z -> z

  val mul : z -> z -> z

  val pow_pos : z -> positive -> z

  val pow : z -> z -> z

  val compare : z -> z -> comparison

  val leb : z -> z -> bool

  val ltb : z -> z -> bool

  val eqb : z -> z -> bool

  val max : z -> z -> z

  val min : z -> z -> z

  val abs : z -> z

  val to_nat : z -> nat

  val to_N : z -> n

  val of_nat : nat -> z

  val of_N : n -> z

  val pos_div_eucl : positive -> z -> z * z

  val div_eucl : z -> z -> z * z

  val div : z -> z -> z

  val modulo : z -> z -> z

  val quotrem : z -> z -> z * z

  val quot : z -> z -> z

  val rem : z -> z -> z

  val even : z -> bool

  val odd : z -> bool

  val div2 : z -> z

  val log2 : z -> z

  val sqrtrem : z -> z * z

  val shiftl : z -> z -> z
 end

val zeq_bool : z -> z -> bool

val eqb0 : char list -> char list -> bool

val shift_pos : positive -> positive -> positive

val zcode : char -> z

val ascii_of_z : z -> char

val schar_of_ascii : char -> z

val is_digit : char -> bool

val is_upper : char -> bool

val is_lower : char -> bool

val is_alpha : char -> bool

val is_alnum : char -> bool

val is_cspace : char -> bool

val to_upper : char -> char

val to_lower : char -> char

val digit_val : char -> z

val ch_nl : char

val ch_tab : char

val ch_cr : char

val ch_nul : char

val ch_quote : char

val ch_dquote : char

val ch_bslash : char

val ch_hash : char

val ch_space : char

val aeqb : char -> char -> bool

type str = char list

val str_of_string : char list -> str

val str_eqb : str -> str -> bool

val starts_with : str -> str -> bool

val pos_digits_aux : nat -> z -> str -> str

val nat_digits : z -> str

val z_to_str : z -> str

val digits_to_z_aux : str -> z -> z

val digits_to_z : str -> z

val two63 : z

val two64 : z

val int64_min : z

val int64_max : z

val in_int64 : z -> bool

val wrap64 : z -> z

val assoc_str : str -> (str * 'a1) list -> 'a1 option

val nth_z : 'a1 list -> z -> 'a1 option

val replicate : nat -> 'a1 -> 'a1 list

type ttype =
| TINTEGER
| TREAL
| TCHAR
| TSTRING
| TDATE
| TRPAREN
| TLPAREN
| TPLUS
| TMINUS
| TSTAR
| TSLASH
| TDIV
| TMOD
| TAMPERSAND
| TASSIGNMENT
| TCOLON
| TCOMMA
| TEQUALS
| TNOT_EQUALS
| TGREATER
| TLESSER
| TGREATER_EQUAL
| TLESSER_EQUAL
| TAND
| TOR
| TNOT
| TTRUE
| TFALSE
| TDECLARE
| TCONSTANT
| TIDENTIFIER
| TDATA_TYPE
| TARRAY
| TLSQRBRACKET
| TRSQRBRACKET
| TTYPE
| TENDTYPE
| TCARET
| TPERIOD
| TIF
| TTHEN
| TELSE
| TENDIF
| TCASE
| TOF
| TOTHERWISE
| TENDCASE
| TWHILE
| TDO
| TENDWHILE
| TREPEAT
| TUNTIL
| TFOR
| TTO
| TSTEP
| TNEXT
| TBREAK
| TCONTINUE
| TPROCEDURE
| TBYREF
| TBYVAL
| TENDPROCEDURE
| TCALL
| TFUNCTION
| TENDFUNCTION
| TRETURNS
| TRETURN
| TOUTPUT
| TINPUT
| TOPENFILE
| TREADFILE
| TWRITEFILE
| TCLOSEFILE
| TREAD
| TWRITE
| TAPPEND
| TRANDOM
| TSEEK
| TGETRECORD
| TPUTRECORD
| TLINE_END
| TEXPRESSION_END

val ttype_eq_dec : ttype -> ttype -> bool

val tt_eqb : ttype -> ttype -> bool

type token = { tt : ttype; tline : z; tcol : z; tval : str }

type lexkind =
| LexSyntax
| LexPedantic

type lexerr = { le_kind : lexkind; le_line : z; le_col : z }

type lst = { rest : str; stale : char; line : z; col : z; prevc : char option }

val curc : lst -> char

val at_end : lst -> bool

val advance : lst -> lst

val advance_n : nat -> lst -> lst

val remove_cr : str -> str

val init_lst : str -> lst

val get_next_char : lst -> nat -> char

val keywords : (char list * ttype) list

val data_type_words : char list list

val lookup_kw : str -> (char list * ttype) list -> ttype option

val is_data_type_word : str -> bool

type lres =
| LOk of lst * token list
| LErr of lexerr

val word_loop : nat -> lst -> str -> lst * str

val make_word : bool -> lst -> token list -> lres

val number_loop : nat -> lst -> bool -> str -> (lst * bool) * str

val count_digits_from : str -> nat

val digits_loop : nat -> lst -> str -> lst * str

val make_number : lst -> token list -> lres

val esc_seq : char -> char option

val make_char : lst -> token list -> lres

val string_loop : nat -> lst -> str -> (lst * str, lexerr) sum

val make_string : lst -> token list -> lres

val io_keyword : ttype -> bool

val skip_comment : nat -> lst -> lst

val simple_tok : char -> ttype option

val lex_step : bool -> lst -> token list -> lres

val lex_loop : nat -> bool -> lst -> token list -> lres

val lex : bool -> str -> (token list, lexerr) sum

type dkind =
| KNone
| KInt
| KReal
| KBool
| KChar
| KStr
| KDate
| KEnum
| KPtr
| KRec

val dkind_eq_dec : dkind -> dkind -> bool

val dk_eqb : dkind -> dkind -> bool

val psc_type_of_word : str -> dkind option

type fmode =
| FRead
| FWrite
| FAppend
| FRandom

type node =
| NInt of token
| NReal of token
| NBool of token
| NChar of token
| NStr of token
| NDate of token
| NNeg of token * node
| NArith of token * node * node
| NCmp of token * node * node
| NLogic of token * node * node
| NNot of token * node
| NCat of token * node * node
| NCast of token * node * dkind
| NAccess of token * resolver
| NAssign of token * node * resolver
| NPtrAssign of token * resolver * resolver
| NFnCall of token * node list
| NDeclare of token * token list * token
| NConst of token * node * token
| NArrDeclare of token * token list * token * node list
| NEnumDef of token * token * str list
| NPtrDef of token * token * token
| NCompDef of token * token * node list
| NIf of token * (node option * node list) list
| NCase of token * node * casecomp list
| NWhile of token * node * node list
| NRepeat of token * node * node list
| NFor of token * token * node * node * node option * node list
| NBreak of token
| NContinue of token
| NProc of token * str * ((str * token) * bool) list * node list
| NFunc of token * str * ((str * token) * bool) list * node list * token
| NCall of token * str * node list
| NReturn of token * node
| NOutput of token * node list
| NInput of token * resolver
| NOpenFile of token * node * fmode
| NReadFile of token * node * token
| NWriteFile of token * node * node
| NCloseFile of token * node
| NSeek of token * node * node
| NGetRecord of token * node * token
| NPutRecord of token * node * token
and resolver =
| RSimple of token
| RField of token * resolver * token
| RDeref of token * resolver
| RIndex of token * resolver * node list
and casecomp =
| CEq of node list * node
| CRange of node list * node * node
| COther of node list

type block = node list

val node_token : node -> token

type spec_float =
| S754_zero of bool
| S754_infinity of bool
| S754_nan
| S754_finite of bool * positive * z

val emin : z -> z -> z

val fexp : z -> z -> z -> z

val digits2_pos : positive -> positive

val zdigits2 : z -> z

val iter_pos : ('a1 -> 'a1) -> positive -> 'a1 -> 'a1

type location =
| Loc_Exact
| Loc_Inexact of comparison

type shr_record = { shr_m : z; shr_r : bool; shr_s : bool }

val shr_1 : shr_record -> shr_record

val loc_of_shr_record : shr_record -> location

val shr_record_of_loc : z -> location -> shr_record

val shr : shr_record -> z -> z -> shr_record * z

val shr_fexp : z -> z -> z -> z -> location -> shr_record * z

val round_nearest_even : z -> location -> z

val binary_round_aux : z -> z -> bool -> z -> z -> location -> spec_float

val shl_align : positive -> z -> z -> positive * z

val binary_round : z -> z -> bool -> positive -> z -> spec_float

val binary_normalize : z -> z -> z -> z -> bool -> spec_float

val sFopp : spec_float -> spec_float

val sFcompare : spec_float -> spec_float -> comparison option

val sFmul : z -> z -> spec_float -> spec_float -> spec_float

val cond_Zopp : bool -> z -> z

val sFadd : z -> z -> spec_float -> spec_float -> spec_float

val sFsub : z -> z -> spec_float -> spec_float -> spec_float

val new_location_even : z -> z -> location

val new_location_odd : z -> z -> location

val new_location : z -> z -> location

val sFdiv_core_binary : z -> z -> z -> z -> z -> z -> (z * z) * location

val sFdiv : z -> z -> spec_float -> spec_float -> spec_float

val sFsqrt_core_binary : z -> z -> z -> z -> (z * z) * location

val sFsqrt : z -> z -> spec_float -> spec_float

type real = spec_float

val prec : z

val emax : z

val rzero : real

val radd : spec_float -> spec_float -> spec_float

val rsub : spec_float -> spec_float -> spec_float

val rmul : spec_float -> spec_float -> spec_float

val rdiv : spec_float -> spec_float -> spec_float

val rsqrt : spec_float -> spec_float

val ropp : spec_float -> spec_float

val rcompare : real -> real -> comparison option

val real_of_z : z -> real

val is_inf : real -> bool

val is_rzero : real -> bool

val req : real -> real -> bool

val rlt : real -> real -> bool

val rle : real -> real -> bool

val rgt : real -> real -> bool

val rge : real -> real -> bool

val rne : real -> real -> bool

val frac_of : positive -> z -> z * z

val rfloor : real -> real

val real_to_int64 : real -> z

val is_integral : real -> bool

val real_of_ratio : bool -> z -> z -> real

val ratio_exact : real -> z -> z -> bool

val is_subnormal : real -> bool

val ge_pow10 : z -> z -> z -> bool

val adj_up : nat -> z -> z -> z -> z

val adj_down : nat -> z -> z -> z -> z

val log10_floor : z -> z -> z

val div_half_even : z -> z -> z

val strip_trailing_zeros_rev : str -> str

val rstrip0 : str -> str

val pad2 : str -> str

val fmt_g : z -> real -> str option

val lpad0 : nat -> str -> str

val fmt_f6 : real -> str option

val real_to_string : real -> str option

val real_output : real -> str option

val take_digits : str -> str -> str * str

val skip_space : str -> str

val lower_str : str -> str

val hex_val : char -> z option

val take_hex : str -> z -> z -> (z * z) * str

val take_exponent : str -> (z * str) option

type strtod_res = { sr_val : real; sr_rest : str; sr_erange : bool;
                    sr_conv : bool }

val scale_dec : bool -> z -> z -> real * bool

val strtod_pfx : str -> strtod_res

val cstr : str -> str

val string_to_real : str -> real

val stod_literal : str -> real option

val string_to_int : str -> z

type pst = { p_toks : token list; p_warns : (z * z) list }

type 'a pres =
| POk of 'a * pst
| PFail of lexkind * token * pst
| PFuel

type 'a p = pst -> 'a pres

val eof_tok : token

val cur : pst -> token

val adv : pst -> pst

val next_is : pst -> nat -> ttype -> bool

val is_t : pst -> ttype -> bool

val pbind : 'a1 p -> ('a1 -> 'a2 p) -> 'a2 p

val pret : 'a1 -> 'a1 p

val perr : 'a1 p

val pped : token -> 'a1 p

val padv : unit p

val pcur : token p

val pfuel : 'a1 p

val expect : ttype -> unit p

val skip_line_ends : nat -> unit p

val skip_nl : unit p

val binloop :
  nat -> (ttype -> bool) -> node p -> (token -> node -> node -> node) -> node
  -> node p

val op_eq : ttype -> bool

val op_logic : ttype -> bool

val op_cmp : ttype -> bool

val op_cat : ttype -> bool

val op_add : ttype -> bool

val op_mul : ttype -> bool

val int_literal_ok : token -> bool

val real_literal_ok : token -> bool

val is_type_tok : pst -> bool

val block_terminator : ttype -> bool

val colon_on_line : token list -> bool

type btype =
| BMain
| BCase
| BOther

type pacc = { pa_names : str list; pa_types : token list;
              pa_pass : bool list; pa_byref : bool; pa_tc : nat; pa_pc : 
              nat }

val literal_node : pst -> node pres option

type prs = { pr_fuel : nat; pr_parse_eval : node p;
             pr_parse_logical : node p; pr_parse_comparison : node p;
             pr_parse_strexpr : node p; pr_parse_arith : node p;
             pr_parse_term : node p; pr_parse_factor : node p;
             pr_parse_atom : node p; pr_parse_moddiv : node p;
             pr_parse_cast : node p;
             pr_parse_args : (node list -> node list p);
             pr_parse_arglist : node list p; pr_parse_fncall : node p;
             pr_parse_indices : (node list -> node list p);
             pr_parse_resolver_tail : (resolver -> resolver p);
             pr_parse_resolver : resolver p;
             pr_parse_ids : (token list -> token list p);
             pr_parse_bounds : (node list -> node list p);
             pr_parse_declare : node p; pr_parse_const : node p;
             pr_parse_enum_vals : (str list -> str list p);
             pr_parse_comp_body : (node list -> node list p);
             pr_parse_type : node p;
             pr_parse_if_tail : ((node option * node list) list -> (node
                                option * node list) list p);
             pr_parse_if : node p;
             pr_parse_case_clauses : (casecomp list -> casecomp list p);
             pr_parse_case : node p; pr_parse_while : node p;
             pr_parse_repeat : node p; pr_parse_for : node p;
             pr_parse_params : (pacc -> pacc p);
             pr_parse_paramlist : ((str * token) * bool) list p;
             pr_parse_procedure : node p; pr_parse_function : node p;
             pr_parse_call : node p;
             pr_parse_output_tail : (node list -> node list p);
             pr_parse_statement : node p;
             pr_parse_block_loop : (btype -> node list -> node list p);
             pr_parse_block : (btype -> node list p) }

val parse_eval_body : prs -> node p

val parse_logical_body : prs -> node p

val parse_comparison_body : prs -> node p

val parse_strexpr_body : prs -> node p

val parse_arith_body : prs -> node p

val parse_term_body : prs -> node p

val parse_factor_body : prs -> node p

val parse_atom_body : prs -> node p

val parse_moddiv_body : prs -> node p

val parse_cast_body : bool -> prs -> node p

val parse_args_body : prs -> node list -> node list p

val parse_arglist_body : prs -> node list p

val parse_fncall_body : prs -> node p

val parse_indices_body : prs -> node list -> node list p

val parse_resolver_tail_body : prs -> resolver -> resolver p

val parse_resolver_body : prs -> resolver p

val parse_ids_body : prs -> token list -> token list p

val parse_bounds_body : prs -> node list -> node list p

val parse_declare_body : prs -> node p

val parse_const_body : prs -> node p

val parse_enum_vals_body : prs -> str list -> str list p

val parse_comp_body_body : prs -> node list -> node list p

val parse_type_body : prs -> node p

val parse_if_tail_body :
  bool -> prs -> (node option * node list) list -> (node option * node list)
  list p

val parse_if_body : prs -> node p

val parse_case_clauses_body : prs -> casecomp list -> casecomp list p

val parse_case_body : prs -> node p

val parse_while_body : prs -> node p

val parse_repeat_body : prs -> node p

val parse_for_body : prs -> node p

val parse_params_body : prs -> pacc -> pacc p

val parse_paramlist_body : prs -> ((str * token) * bool) list p

val parse_procedure_body : prs -> node p

val parse_function_body : prs -> node p

val parse_call_body : prs -> node p

val parse_output_tail_body : prs -> node list -> node list p

val parse_statement_body : prs -> node p

val parse_block_loop_body : prs -> btype -> node list -> node list p

val parse_block_body : prs -> btype -> node list p

val prs_zero : prs

val prs_step : bool -> prs -> prs

val prs_at : bool -> nat -> prs

val parse_block : bool -> nat -> btype -> node list p

val parse_fuel : token list -> nat

val parse_program : bool -> token list -> block pres

module PositiveMap :
 sig
  type key = positive

  type 'a tree =
  | Leaf
  | Node of 'a tree * 'a option * 'a tree

  type 'a t = 'a tree

  val empty : 'a1 t

  val find : key -> 'a1 t -> 'a1 option

  val add : key -> 'a1 -> 'a1 t -> 'a1 t
 end

type 'a nmap = 'a PositiveMap.t

val nm_empty : 'a1 nmap

val nm_get : n -> 'a1 nmap -> 'a1 option

val nm_put : n -> 'a1 -> 'a1 nmap -> 'a1 nmap

type dtype = { dk : dkind; dname : str option }

val dt_none : dtype

val dt_prim : dkind -> dtype

val dt_eq : dtype -> dtype -> bool

val dt_is : dtype -> dkind -> bool

type payload =
| PInt of z
| PReal of real
| PBool of bool
| PChar of char
| PStr of str
| PDate of z * z * z
| PEnum of str * z
| PPtr of str * n option * n
| PRec of str * n

val payload_kind : payload -> dkind

val is_primitive : payload -> bool

type result = { r_type : dtype; r_val : payload option }

val res_none : result

val res_of : dkind -> payload -> result

type cell = { c_name : str; c_type : dtype; c_const : bool; c_owner : 
              n; c_val : payload }

type arr = { a_name : str; a_type : dtype; a_dims : (z * z) list;
             a_elems : n list }

type ctx = { x_parent : n option; x_name : str; x_vars : (str * n) list;
             x_arrs : (str * n) list; x_enums : (str * str list) list;
             x_ptrs : (str * dtype) list; x_comps : (str * block) list;
             x_isfun : bool; x_isrec : bool; x_rettype : dtype;
             x_retval : result option; x_switch : (z * z) option;
             x_depth : nat }

type pdef = { pd_params : ((str * dtype) * bool) list; pd_body : block }

type fdef = { fd_params : ((str * dtype) * bool) list; fd_body : block;
              fd_ret : dtype; fd_tok : token }

type ofile = { of_name : str; of_mode : fmode; of_rest : str;
               of_recs : str list; of_ptr : z; of_modified : bool }

type dkindg =
| DSyntax
| DRuntime
| DPedantic

type ecls =
| ENotDefined
| EArrayDirect of n
| EOther
| EBudget

type diag = { d_kind : dkindg; d_line : z; d_col : z; d_cls : ecls;
              d_trace : ((str * z) * z) list }

type st = { s_next : n; s_cells : cell nmap; s_arrs : arr nmap;
            s_ctxs : ctx nmap; s_procs : (str * pdef) list;
            s_funcs : (str * fdef) list; s_out : str list; s_in : str;
            s_fs : (str * str) list; s_files : ofile list; s_steps : 
            z; s_cellcount : z; s_depth : z; s_rand : z list }

type limits = { max_steps : z; max_depth : z; max_cells : z; max_strlen : z }

type fail =
| FErr of diag
| FCrash of char list
| FFuel
| FBreak of token
| FContinue of token
| FReturn
| FUnsupported of char list

type 'a outcome =
| Ok of 'a
| Fail of fail

type 'a m = st -> 'a outcome * st

val ret : 'a1 -> 'a1 m

val bind : 'a1 m -> ('a1 -> 'a2 m) -> 'a2 m

val failm : fail -> 'a1 m

val crash : char list -> 'a1 m

val unsupported : char list -> 'a1 m

val gets : (st -> 'a1) -> 'a1 m

val modify : (st -> st) -> unit m

val catch : 'a1 m -> (fail -> 'a1 m option) -> 'a1 m

val mapM : ('a1 -> 'a2 m) -> 'a1 list -> 'a2 list m

val iterM : ('a1 -> unit m) -> 'a1 list -> unit m

val set_next : n -> st -> st

val set_cells : cell nmap -> st -> st

val set_arrs : arr nmap -> st -> st

val set_ctxs : ctx nmap -> st -> st

val set_procs : (str * pdef) list -> st -> st

val set_funcs : (str * fdef) list -> st -> st

val set_out : str list -> st -> st

val set_in : str -> st -> st

val set_fs : (str * str) list -> st -> st

val set_files : ofile list -> st -> st

val set_steps : z -> st -> st

val set_cellcount : z -> st -> st

val set_depth : z -> st -> st

val set_rand : z list -> st -> st

val fresh : n m

val get_cell : n -> cell m

val put_cell : n -> cell -> unit m

val get_arr : n -> arr m

val put_arr : n -> arr -> unit m

val get_ctx : n -> ctx m

val put_ctx : n -> ctx -> unit m

val upd_ctx : n -> (ctx -> ctx) -> unit m

val set_cell_val : n -> payload -> unit m

val ctx_with_vars : (str * n) list -> ctx -> ctx

val ctx_with_arrs : (str * n) list -> ctx -> ctx

val ctx_with_enums : (str * str list) list -> ctx -> ctx

val ctx_with_ptrs : (str * dtype) list -> ctx -> ctx

val ctx_with_comps : (str * block) list -> ctx -> ctx

val ctx_with_retval : result option -> ctx -> ctx

val ctx_with_switch : (z * z) option -> ctx -> ctx

val new_ctx : n option -> str -> bool -> bool -> dtype -> n m

val emit : str -> unit m

val out_string : st -> str

val root_of_aux : nat -> n -> n m

val root_of : n -> n m

val nonrec_ancestor_aux : nat -> n -> n m

val nonrec_ancestor : n -> n m

val on_chain_aux : nat -> n -> n -> bool m

val on_chain : n -> n -> bool m

val trace_aux : nat -> n option -> ((str * z) * z) list m

val runtime_error_cls : ecls -> token -> n -> 'a1 m

val rt_error : token -> n -> 'a1 m

val not_defined_error : token -> n -> 'a1 m

val array_direct_error : token -> n -> 'a1 m

val pedantic_error : token -> 'a1 m

val err_token : token

val lookup_var : n -> str -> bool -> n option m

val lookup_arr : n -> str -> bool -> n option m

val lookup_def_aux :
  (ctx -> (str * 'a1) list) -> nat -> n -> str -> bool -> 'a1 option m

val lookup_def : (ctx -> (str * 'a1) list) -> n -> str -> bool -> 'a1 option m

val lookup_enum_def : n -> str -> bool -> str list option m

val lookup_ptr_def : n -> str -> bool -> dtype option m

val lookup_comp_def : n -> str -> bool -> block option m

val get_type : n -> token -> bool -> dtype m

val find_index : str -> str list -> z -> z option

val enum_element_in : str -> (str * str list) list -> (str * z) option

val get_enum_element : n -> str -> bool -> (str * z) option m

val is_identifier_type : n -> token -> bool -> bool m

val as_int : result -> z m

val as_real : result -> real m

val as_bool : result -> bool m

val as_char : result -> char m

val as_str : result -> str m

val as_payload : result -> payload m

type vtree =
| VInt of z
| VReal of real
| VBool of bool
| VChar of char
| VStr of str
| VDate of z * z * z
| VEnum of str * z * z
| VPtr
| VRec of str * vtree list * vtree list list

val sp : str

val join_sp : str list -> str

val mark_newlines : str -> str

val slen' : str -> z

val dump : vtree -> str option

val dump_list : vtree list -> str list option

val dump_array : vtree list -> str option

val take_word : str -> str -> str * str

val rd_word : str -> (str * str) option

val rd_integer : z -> z -> str -> (z * str) option

val rd_long : str -> (z * str) option

val rd_size : str -> (z * str) option

val rd_uint : str -> (z * str) option

val rd_int : str -> (z * str) option

val rd_double : str -> (real * str) option

val expect_tag : char list -> str -> str option

val read_marked : nat -> bool -> char -> str -> str -> (str * str) option

val narrow_u8 : z -> z

val narrow_i16 : z -> z

val load : vtree -> str -> (vtree * str) * bool

val load_list : vtree list -> str -> (vtree list * str) * bool

val load_array : vtree list -> str -> (vtree list * str) * bool

val split_lines_aux : str -> str -> str list

val split_lines : str -> str list

val merge_records : str list -> str list -> str list

val drop_empty_front : str list -> str list

val load_records : str -> str list

val store_records : str list -> str

type dim = z * z

val dim_size : dim -> z

val valid_index : dim -> z -> bool

val total_size : dim list -> z

val linear_aux : z list -> dim list -> z -> z -> z

val linear : z list -> dim list -> z

val dims_eqb : dim list -> dim list -> bool

val max_elements : z

type holder =
| HVar of n
| HArr of n

val blank_ctx_like : ctx -> ctx

val zipM : ('a1 -> 'a2 -> unit m) -> 'a1 list -> 'a2 list -> unit m

val copy_val : nat -> payload -> payload m

val copy_ctx : nat -> n -> n m

val all2M : ('a1 -> 'a2 -> bool m) -> 'a1 list -> 'a2 list -> bool m

val rec_pair_layout : (n -> n -> bool m) -> n -> n -> bool m

val arr_layout : (n -> n -> bool m) -> arr -> arr -> bool m

val same_layout : nat -> n -> n -> bool m

val composite_assign :
  (n -> n -> unit m) -> nat -> str -> n -> str -> n -> unit m

val set_copy : nat -> n -> payload -> unit m

val copy_var_data : nat -> n -> n -> unit m

val copy_array_data : nat -> n -> n -> unit m

val assign_val : nat -> n -> result -> unit m

val abs_val : nat -> n -> payload -> vtree m

val store_tree : nat -> n -> vtree -> unit m

val budget_error : token -> n -> 'a1 m

val for_continues : z -> z -> z -> bool

val run_body : unit m -> bool m

val call_body : z -> n -> bool -> unit m -> unit m

val is_not_defined : ecls -> bool

val is_array_direct : n -> ecls -> bool

val catch_cls : 'a1 m -> (ecls -> bool) -> (fail -> 'a1 m) -> 'a1 m

val ped_guard : bool -> token -> unit m

val eval_bounds : (node -> result m) -> n -> node list -> z -> dim list m

val eval_indices :
  (node -> result m) -> n -> node list -> dim list -> z list m

val repeatM : nat -> 'a1 m -> 'a1 list m

val if_comp :
  (node -> result m) -> (node list -> unit m) -> (node option * node list) ->
  result m option * unit m

val tick : limits -> token -> n -> unit m

val cond_bool : token -> n -> result m -> bool m

val if_chain : token -> n -> (result m option * unit m) list -> result m

val case_chain : (bool m * unit m) list -> result m

val while_loop : limits -> nat -> token -> n -> result m -> unit m -> result m

val repeat_loop :
  limits -> nat -> token -> n -> result m -> unit m -> result m

val for_loop :
  limits -> nat -> token -> n -> n -> z -> z -> unit m -> result m

val os_name_ok : str -> bool

val fs_set : str -> str -> (str * str) list -> (str * str) list

val fs_get : str -> (str * str) list -> str option

val find_file : str -> ofile list -> ofile option

val replace_file : ofile -> ofile list -> ofile list

val remove_file : str -> ofile list -> ofile list

val close_file_effect : ofile -> unit m

val create_file : str -> fmode -> bool m

val update_file : ofile -> unit m

val file_read_line : ofile -> str * ofile

val set_nth_str : str list -> z -> str -> str list

val rf_seek : ofile -> z -> ofile option

val rf_put : ofile -> str -> ofile

val rf_get : ofile -> str option

val is_leap : z -> bool

val days_in_month : z -> z -> z

val ymd_ok : z -> z -> z -> bool

val date_literal_components : z -> z -> z -> (z * z) * z

val setdate_in_range : z -> z -> z -> bool

val setdate : z -> z -> z -> ((z * z) * z) option

val date_key : z -> z -> z -> z

val days_from_civil : z -> z -> z -> z

val day_index : z -> z -> z -> z

val enum_arith : bool -> z -> z -> z -> z

val slen : str -> z

val bi_left : str -> z -> str option

val bi_right : str -> z -> str option

val bi_mid : str -> z -> z -> str option

val bi_to_upper : str -> str

val bi_to_lower : str -> str

val bi_asc : char -> z

val bi_chr : z -> char

val is_num_aux : str -> bool -> bool

val bi_is_num : str -> bool

val bi_int : real -> z

val rand_max : z

val bi_rand : z -> z -> z -> real

val alloc_cells : limits -> z -> n -> unit m

val check_strlen : limits -> z -> token -> n -> unit m

val is_numeric : dtype -> bool

val implicit_cast : dtype -> result -> result m

val num_as_real : result -> real m

val date_to_str : z -> z -> z -> str

val prim_to_string : payload -> str m

val real_to_char : real -> char

val cast_prim : token -> n -> payload -> dkind -> payload m

val arith_int : ttype -> z -> z -> z

val mod_real : real -> real -> real

val eval_arith : token -> n -> result -> result -> result m

val eval_cmp : token -> n -> result -> result -> result m

val read_line : (str * bool) m

val enum_name : n -> str -> z -> str m

val output_item : n -> token -> result -> unit m

val echo_result : n -> result -> unit m

val default_prim : dtype -> payload option

val add_var : n -> str -> n -> unit m

val add_arr : n -> str -> n -> unit m

val name_is : str -> char list -> bool

val builtin_sig : str -> (dkind list * dkind) option

val next_rand : z m

val run_builtin : str -> n -> payload list -> result m

val builtin_args : token -> n -> dkind list -> result list -> payload list m

val hfuel : nat

val store_value : token -> n -> n -> result -> result m

val expect_holder_var : token -> n -> holder -> n m

type evs = { ev_fuel : nat; ev_eval : (node -> n -> result m);
             ev_resolve : (resolver -> n -> holder m);
             ev_case_equals : (result -> node -> n -> bool m);
             ev_case_range : (result -> node -> node -> n -> bool m);
             ev_run_block : (block -> n -> unit m);
             ev_new_var : (str -> dtype -> bool -> n -> n m);
             ev_new_array : (str -> dtype -> dim list -> n -> n m);
             ev_bind_args : (token -> ((str * dtype) * bool) list -> node
                            list -> result list -> n -> n -> unit m);
             ev_call_procedure : (token -> str -> node list -> n -> result m);
             ev_call_function : (token -> node list -> n -> result m) }

val eval_body : bool -> limits -> evs -> node -> n -> result m

val resolve_body : evs -> resolver -> n -> holder m

val case_equals_body : evs -> result -> node -> n -> bool m

val case_range_body : evs -> result -> node -> node -> n -> bool m

val run_block_body : bool -> limits -> evs -> block -> n -> unit m

val new_var_body : evs -> str -> dtype -> bool -> n -> n m

val new_array_body : limits -> evs -> str -> dtype -> dim list -> n -> n m

val bind_args_body :
  evs -> token -> ((str * dtype) * bool) list -> node list -> result list ->
  n -> n -> unit m

val call_procedure_body :
  limits -> evs -> token -> str -> node list -> n -> result m

val call_function_body : limits -> evs -> token -> node list -> n -> result m

val evs_zero : evs

val evs_step : bool -> bool -> limits -> evs -> evs

val evs_at : bool -> bool -> limits -> nat -> evs

val run_block : bool -> bool -> limits -> nat -> block -> n -> unit m

type status =
| SDone
| SCrash of char list
| SFuel
| SUnsupported of char list

type observation = { ob_out : str; ob_diags : diag list; ob_exit : z;
                     ob_fs : (str * str) list; ob_status : status;
                     ob_misc : str list }

val root_id : n

val global_ctx : ctx

val init_state : str -> (str * str) list -> z list -> st

val warning_text : (z * z) -> str

val emit_warnings : (z * z) list -> st -> st

val diag_of_lex : lexerr -> diag

val diag_of_parse : lexkind -> token -> diag

val close_all_files : unit m

type entry_res =
| EOk
| EDiag of diag
| EAbort of status

val run_main :
  bool -> limits -> nat -> bool -> block -> n -> st -> entry_res * st

val run_source :
  bool -> limits -> nat -> bool -> str -> n -> st -> entry_res * st

val run_file_text : bool -> limits -> nat -> str -> st -> entry_res * st

val finish : entry_res -> st -> diag list -> str list -> observation

val run_file :
  bool -> limits -> nat -> str -> str -> (str * str) list -> z list ->
  observation

val repl_header : str

val repl_help : str

val multiline_keywords : char list list

val first_keyword : str -> char list list -> char list option

val put : str -> st -> st

val get_line : str -> st -> (str * bool) * st

val read_continuation : nat -> str -> st -> str option * st

val strip_trailing_blanks_keep_first : str -> str

val exit_msg : bool -> str

val repl_loop :
  bool -> limits -> nat -> nat -> st -> diag list -> str list -> observation

val run_repl :
  bool -> limits -> nat -> str -> (str * str) list -> z list -> observation

val lex_tokens : bool -> str -> (token list, lexerr) sum

val parse_ok : bool -> str -> z
