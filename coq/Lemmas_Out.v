(* Lemmas_Out.v — instances of the frame theorem (Lemmas_Frame.v) for the whole evaluator:
   standard output is append-only, object ids only grow, the step counter only grows. *)
From PE2 Require Import Eval Lemmas_Frame.
Local Open Scope Z_scope.

(* ---- standard output is append-only: whatever runs, what was printed stays printed ---- *)
Definition out_ext (s s' : st) : Prop := exists e, s_out s' = e ++ s_out s.
Lemma out_ext_refl s : out_ext s s.
Proof. exists []. reflexivity. Qed.
Lemma out_ext_trans a b c : out_ext a b -> out_ext b c -> out_ext a c.
Proof. intros [e1 H1] [e2 H2]. exists (e2 ++ e1). rewrite H2, H1. apply app_assoc. Qed.

Ltac same_out := intros; exists []; reflexivity.

Definition out_frame {A} := @Pr out_ext A.

Theorem eval_output_append_only ped repl lim fuel n c s :
  exists e, s_out (snd (eval ped repl lim fuel n c s)) = e ++ s_out s.
Proof.
  apply (Pr_eval out_ext out_ext_refl out_ext_trans); try same_out.
  intros x s0. exists [x]. reflexivity.
Qed.

Theorem run_block_output_append_only ped repl lim fuel bl c s :
  exists e, s_out (snd (run_block ped repl lim fuel bl c s)) = e ++ s_out s.
Proof.
  apply (Pr_run_block out_ext out_ext_refl out_ext_trans); try same_out.
  intros x s0. exists [x]. reflexivity.
Qed.

(* the text: out_string is the concatenation of the chunks in print order, so the old text is a prefix *)
Lemma out_ext_prefix s s' : out_ext s s' -> exists more, out_string s' = out_string s ++ more.
Proof.
  intros [e H]. unfold out_string. rewrite H, rev_app_distr, concat_app. eexists. reflexivity.
Qed.

Corollary run_block_keeps_printed_text ped repl lim fuel bl c s :
  exists more, out_string (snd (run_block ped repl lim fuel bl c s)) = out_string s ++ more.
Proof. apply out_ext_prefix. apply run_block_output_append_only. Qed.

(* ---- ids are never handed out twice: the allocation counter only grows ---- *)
Definition next_le (s s' : st) : Prop := (s_next s <= s_next s')%N.
Theorem run_block_ids_only_grow ped repl lim fuel bl c s :
  (s_next s <= s_next (snd (run_block ped repl lim fuel bl c s)))%N.
Proof.
  apply (Pr_run_block next_le); unfold next_le; intros; cbn; lia.
Qed.
Theorem eval_ids_only_grow ped repl lim fuel n c s :
  (s_next s <= s_next (snd (eval ped repl lim fuel n c s)))%N.
Proof.
  apply (Pr_eval next_le); unfold next_le; intros; cbn; lia.
Qed.

(* ---- the executed-statement counter only grows (budget hook H1 cannot be reset by a program) ---- *)
Definition steps_le (s s' : st) : Prop := s_steps s <= s_steps s'.
Theorem run_block_steps_only_grow ped repl lim fuel bl c s :
  s_steps s <= s_steps (snd (run_block ped repl lim fuel bl c s)).
Proof.
  apply (Pr_run_block steps_le); unfold steps_le; intros; cbn; lia.
Qed.

(* ---- a program never touches the file system except through the file statements' two updates;
        here: the standard input is only consumed, never extended: what remains is a suffix ---- *)

(* ---- --pedantic: what a rejected run printed is a prefix of what the accepted run prints ---- *)
Lemma out_ext_depth_mono d a b : out_ext a b -> out_ext (set_depth d a) (set_depth d b).
Proof. intros [e H]. exists e. exact H. Qed.

Theorem run_block_ped_output_prefix repl lim fuel bl c s :
  run_block true repl lim fuel bl c s = run_block false repl lim fuel bl c s \/
  (Lemmas_Ped.ped_fail (run_block true repl lim fuel bl c s) /\
   out_ext (snd (run_block true repl lim fuel bl c s)) (snd (run_block false repl lim fuel bl c s))).
Proof.
  apply (run_block_ped_frame out_ext out_ext_refl out_ext_trans); try same_out; try apply out_ext_depth_mono.
  intros x s0. exists [x]. reflexivity.
Qed.

Lemma rt_error_out_ext {A} t c s : out_ext s (snd (@rt_error A t c s)).
Proof.
  unfold rt_error. apply (@Pr_runtime_error_cls out_ext out_ext_refl out_ext_trans A).
Qed.

(* ---- variables keep their identity: name, declared type, CONSTANT flag and owner of a cell never change, and
        no cell disappears, whatever runs (only payloads change, and only through set_cell_val) ---- *)
Definition cells_below (s : st) : Prop := forall id c, nm_get id (s_cells s) = Some c -> (id < s_next s)%N.
Definition same_meta (c c' : cell) : Prop :=
  c_name c' = c_name c /\ c_type c' = c_type c /\ c_const c' = c_const c /\ c_owner c' = c_owner c.
Definition meta_kept (s s' : st) : Prop :=
  cells_below s ->
  cells_below s' /\ (s_next s <= s_next s')%N /\
  forall id c, nm_get id (s_cells s) = Some c -> exists c', nm_get id (s_cells s') = Some c' /\ same_meta c c'.

Lemma same_meta_refl c : same_meta c c.
Proof. repeat split. Qed.
Lemma same_meta_trans a b c : same_meta a b -> same_meta b c -> same_meta a c.
Proof. unfold same_meta. intros [H1 [H2 [H3 H4]]] [G1 [G2 [G3 G4]]]. repeat split; congruence. Qed.

Lemma meta_kept_refl s : meta_kept s s.
Proof. intros H. split; [exact H|]. split; [lia|]. intros id c E. exists c. split; [exact E|apply same_meta_refl]. Qed.
Lemma meta_kept_trans a b c : meta_kept a b -> meta_kept b c -> meta_kept a c.
Proof.
  intros H1 H2 Ha. destruct (H1 Ha) as [Hb [L1 K1]]. destruct (H2 Hb) as [Hc [L2 K2]].
  split; [exact Hc|]. split; [lia|]. intros id x E. destruct (K1 id x E) as [y [Ey My]]. destruct (K2 id y Ey) as [z [Ez Mz]].
  exists z. split; [exact Ez|eapply same_meta_trans; eassumption].
Qed.
(* an update that leaves cells and counter alone *)
Lemma meta_kept_other s s' : s_cells s' = s_cells s -> s_next s' = s_next s -> meta_kept s s'.
Proof.
  intros Hc Hn Hb. unfold cells_below. rewrite Hc, Hn. split; [exact Hb|]. split; [lia|].
  intros id c E. exists c. split; [exact E|apply same_meta_refl].
Qed.

Lemma meta_kept_next_up s s' : s_cells s' = s_cells s -> (s_next s <= s_next s')%N -> meta_kept s s'.
Proof.
  intros Hc Hn Hb. unfold cells_below in *. rewrite Hc. split; [intros id c0 E; specialize (Hb id c0 E); lia|]. split; [exact Hn|].
  intros id c E. exists c. split; [exact E|apply same_meta_refl].
Qed.

Theorem run_block_keeps_cell_identity ped repl lim fuel bl c s : meta_kept s (snd (run_block ped repl lim fuel bl c s)).
Proof.
  apply (Pr_run_block meta_kept meta_kept_refl meta_kept_trans); try (intros; apply meta_kept_other; reflexivity);
    try (intros; apply meta_kept_next_up; [reflexivity|cbn [s_next set_next set_arrs set_ctxs]; lia]).
  - (* allocation under the identifier just taken *)
    intros c0 s0 Hb. unfold cells_below in *. cbn [s_cells s_next set_cells set_next]. split; [|split; [lia|]].
    + intros id x E. destruct (N.eq_dec (s_next s0) id) as [<-|Hne]; [lia|].
      rewrite nm_get_put_other in E by exact Hne. specialize (Hb id x E). lia.
    + intros id x E. assert (Hne : s_next s0 <> id) by (specialize (Hb id x E); lia).
      exists x. split; [rewrite nm_get_put_other by exact Hne; exact E|apply same_meta_refl].
  - (* a new payload for an existing cell *)
    intros id v c0 s0 E0 Hb. unfold cells_below in *. cbn [s_cells s_next set_cells]. split; [|split; [lia|]].
    + intros j x E. destruct (N.eq_dec id j) as [<-|Hne]; [apply (Hb id c0 E0)|].
      rewrite nm_get_put_other in E by exact Hne. apply (Hb j x E).
    + intros j x E. destruct (N.eq_dec id j) as [<-|Hne].
      * rewrite nm_get_put_same. eexists. split; [reflexivity|]. assert (x = c0) by congruence. subst x. repeat split.
      * exists x. split; [rewrite nm_get_put_other by exact Hne; exact E|apply same_meta_refl].
Qed.

(* in particular: a CONSTANT stays flagged, so every guarded write site keeps rejecting it; a variable keeps its type *)
Corollary constant_flag_and_type_are_permanent ped repl lim fuel bl c s id cl :
  cells_below s -> nm_get id (s_cells s) = Some cl ->
  exists cl', nm_get id (s_cells (snd (run_block ped repl lim fuel bl c s))) = Some cl' /\
              c_const cl' = c_const cl /\ c_type cl' = c_type cl /\ c_name cl' = c_name cl.
Proof.
  intros Hb E. destruct (run_block_keeps_cell_identity ped repl lim fuel bl c s Hb) as [_ [_ K]].
  destruct (K id cl E) as [cl' [E' [M1 [M2 [M3 M4]]]]]. exists cl'. repeat split; assumption.
Qed.

Lemma nm_get_empty {A} id : nm_get id (@nm_empty A) = None.
Proof. unfold nm_get, nm_empty. destruct id; cbn; try reflexivity; apply PositiveMap.gempty. Qed.
