(* Lemmas_Out.v — instances of the frame theorem (Lemmas_Frame.v) for the whole evaluator:
   standard output is append-only, object ids only grow, the step counter only grows. *)
From PE2 Require Import Eval Lemmas_Frame.
Local Open Scope Z_scope.

(* ---- standard output is append-only: whatever runs, what was printed stays printed ---- *)
Definition out_ext (s s' : st) : Prop := exists e, s_out s' = e ++ s_out s.
Lemma out_ext_refl s : out_ext s s.
Proof. exists []. reflexivity. Qed.
Lemma out_ext_trans a b c : out_ext a b -> out_ext b c -> out_ext a c.
Proof. intros [e1 H1] [e2 H2]. exists (e2 ++ e1). rewrite H2, H1. apply app_assoc. Qed.

Ltac same_out := intros; exists []; reflexivity.

Definition out_frame {A} := @Pr out_ext A.

Theorem eval_output_append_only ped repl lim fuel n c s :
  exists e, s_out (snd (eval ped repl lim fuel n c s)) = e ++ s_out s.
Proof.
  apply (Pr_eval out_ext out_ext_refl out_ext_trans); try same_out.
  intros x s0. exists [x]. reflexivity.
Qed.

Theorem run_block_output_append_only ped repl lim fuel bl c s :
  exists e, s_out (snd (run_block ped repl lim fuel bl c s)) = e ++ s_out s.
Proof.
  apply (Pr_run_block out_ext out_ext_refl out_ext_trans); try same_out.
  intros x s0. exists [x]. reflexivity.
Qed.

(* the text: out_string is the concatenation of the chunks in print order, so the old text is a prefix *)
Lemma out_ext_prefix s s' : out_ext s s' -> exists more, out_string s' = out_string s ++ more.
Proof.
  intros [e H]. unfold out_string. rewrite H, rev_app_distr, concat_app. eexists. reflexivity.
Qed.

Corollary run_block_keeps_printed_text ped repl lim fuel bl c s :
  exists more, out_string (snd (run_block ped repl lim fuel bl c s)) = out_string s ++ more.
Proof. apply out_ext_prefix. apply run_block_output_append_only. Qed.

(* ---- ids are never handed out twice: the allocation counter only grows ---- *)
Definition next_le (s s' : st) : Prop := (s_next s <= s_next s')%N.
Theorem run_block_ids_only_grow ped repl lim fuel bl c s :
  (s_next s <= s_next (snd (run_block ped repl lim fuel bl c s)))%N.
Proof.
  apply (Pr_run_block next_le); unfold next_le; intros; cbn; lia.
Qed.
Theorem eval_ids_only_grow ped repl lim fuel n c s :
  (s_next s <= s_next (snd (eval ped repl lim fuel n c s)))%N.
Proof.
  apply (Pr_eval next_le); unfold next_le; intros; cbn; lia.
Qed.

(* ---- the executed-statement counter only grows (budget hook H1 cannot be reset by a program) ---- *)
Definition steps_le (s s' : st) : Prop := s_steps s <= s_steps s'.
Theorem run_block_steps_only_grow ped repl lim fuel bl c s :
  s_steps s <= s_steps (snd (run_block ped repl lim fuel bl c s)).
Proof.
  apply (Pr_run_block steps_le); unfold steps_le; intros; cbn; lia.
Qed.

(* ---- a program never touches the file system except through the file statements' two updates;
        here: the standard input is only consumed, never extended: what remains is a suffix ---- *)

(* ---- --pedantic: what a rejected run printed is a prefix of what the accepted run prints ---- *)
Lemma out_ext_depth_mono d a b : out_ext a b -> out_ext (set_depth d a) (set_depth d b).
Proof. intros [e H]. exists e. exact H. Qed.

Theorem run_block_ped_output_prefix repl lim fuel bl c s :
  run_block true repl lim fuel bl c s = run_block false repl lim fuel bl c s \/
  (Lemmas_Ped.ped_fail (run_block true repl lim fuel bl c s) /\
   out_ext (snd (run_block true repl lim fuel bl c s)) (snd (run_block false repl lim fuel bl c s))).
Proof.
  apply (run_block_ped_frame out_ext out_ext_refl out_ext_trans); try same_out; try apply out_ext_depth_mono.
  intros x s0. exists [x]. reflexivity.
Qed.

Lemma rt_error_out_ext {A} t c s : out_ext s (snd (@rt_error A t c s)).
Proof.
  unfold rt_error. apply (@Pr_runtime_error_cls out_ext out_ext_refl out_ext_trans A).
Qed.
