(* Lemmas_Store.v — the implicit conversions applied at every store channel (NodeResult::implicitCast). *)
From PE2 Require Import Eval.
Local Open Scope Z_scope.

Definition well_tagged (r : result) : Prop :=
  match r_val r with Some p => payload_kind p = dk (r_type r) | None => dk (r_type r) = KNone end.

(* the three documented conversions, as a predicate on the source value and the target kind *)
Definition convertible (k : dkind) (r : result) : Prop :=
  dk (r_type r) = k \/
  (k = KReal /\ dk (r_type r) = KInt) \/
  (k = KChar /\ dk (r_type r) = KStr /\ exists ch, r_val r = Some (PStr [ch])) \/
  (k = KStr /\ dk (r_type r) = KChar).

Lemma dt_is_true a k : dt_is a k = true <-> dk a = k.
Proof. unfold dt_is. apply dk_eqb_eq. Qed.
Lemma dt_is_false a k : dt_is a k = false <-> dk a <> k.
Proof. unfold dt_is. destruct (dk_eqb (dk a) k) eqn:E; split; intros; try discriminate; try reflexivity.
  - apply dk_eqb_eq in E. contradiction.
  - intro Hc. apply dk_eqb_eq in Hc. congruence. Qed.

Ltac solve_iff :=
  split;
  [ intros H; try discriminate H; unfold convertible; cbn; eauto 10
  | unfold convertible; cbn; intros H; decompose [or and ex] H; clear H; try discriminate; try congruence; auto;
    try match goal with E : Some _ = Some _ |- _ => inversion E end ].

Lemma implicit_cast_total target r s : well_tagged r ->
  exists r', implicit_cast target r s = (Ok r', s) /\ well_tagged r' /\
             (dk (r_type r') = dk target <-> convertible (dk target) r).
Proof.
  intros W. unfold well_tagged in W.
  destruct r as [[k nm] [p|]]; cbn [r_type r_val dk] in W; subst k; destruct target as [tk tn].
  - destruct p; destruct tk; unfold implicit_cast, well_tagged; cbn;
      try (destruct s0 as [|ch [|ch2 rest]]; cbn);
      (eexists; split; [reflexivity|]; split; [reflexivity|]; cbn; solve_iff).
  - destruct tk; unfold implicit_cast, well_tagged; cbn;
      (eexists; split; [reflexivity|]; split; [reflexivity|]; cbn; solve_iff).
Qed.

(* the value produced by each conversion *)
Lemma cast_int_to_real nm z s :
  implicit_cast (dt_prim KReal) (mkRes (mkDT KInt nm) (Some (PInt z))) s = (Ok (res_of KReal (PReal (real_of_z z))), s).
Proof. reflexivity. Qed.
Lemma cast_string1_to_char nm ch s :
  implicit_cast (dt_prim KChar) (mkRes (mkDT KStr nm) (Some (PStr [ch]))) s = (Ok (res_of KChar (PChar ch)), s).
Proof. reflexivity. Qed.
Lemma cast_char_to_string nm ch s :
  implicit_cast (dt_prim KStr) (mkRes (mkDT KChar nm) (Some (PChar ch))) s = (Ok (res_of KStr (PStr [ch])), s).
Proof. reflexivity. Qed.
Lemma cast_real_to_int_is_identity nm x s :
  implicit_cast (dt_prim KInt) (mkRes (mkDT KReal nm) (Some (PReal x))) s = (Ok (mkRes (mkDT KReal nm) (Some (PReal x))), s).
Proof. reflexivity. Qed.

(* ---------------- a rejected store leaves the state untouched ---------------- *)
Lemma get_ctx_pure c s o s' : get_ctx c s = (o, s') -> s' = s.
Proof. unfold get_ctx. destruct (nm_get c (s_ctxs s)); intros H; inversion H; reflexivity. Qed.
Lemma get_cell_pure c s o s' : get_cell c s = (o, s') -> s' = s.
Proof. unfold get_cell. destruct (nm_get c (s_cells s)); intros H; inversion H; reflexivity. Qed.

Lemma trace_aux_pure : forall n o s r s', trace_aux n o s = (r, s') -> s' = s.
Proof.
  induction n as [|n IH]; intros o s r s' H; cbn in H; [inversion H; reflexivity|].
  destruct o as [i|]; [|inversion H; reflexivity]. unfold bind in H.
  destruct (get_ctx i s) as [[ci|f] s1] eqn:E1; pose proof (get_ctx_pure _ _ _ _ E1); subst s1; [|inversion H; reflexivity].
  destruct (trace_aux n (x_parent ci) s) as [[rest|f] s2] eqn:E2; pose proof (IH _ _ _ _ E2); subst s2; inversion H; reflexivity.
Qed.

Lemma runtime_error_pure {A} cls tk c s (o : outcome A) s' : runtime_error_cls cls tk c s = (o, s') -> s' = s /\ exists f, o = Fail f.
Proof.
  unfold runtime_error_cls. unfold bind.
  destruct (get_ctx c s) as [[cx|f] s1] eqn:E1; pose proof (get_ctx_pure _ _ _ _ E1); subst s1.
  - destruct (trace_aux (S (x_depth cx)) (x_parent cx) s) as [[rest|f] s2] eqn:E2; pose proof (trace_aux_pure _ _ _ _ _ E2); subst s2;
      cbn; intros H; inversion H; subst; split; eauto.
  - intros H; inversion H; subst; split; eauto.
Qed.

Lemma implicit_cast_pure target r s o s' : implicit_cast target r s = (o, s') -> s' = s.
Proof.
  unfold implicit_cast.
  destruct (dt_is target KReal && dt_is (r_type r) KInt).
  { unfold bind, as_int. destruct (r_val r) as [[]|]; intros H; inversion H; reflexivity. }
  destruct (dt_is target KChar && dt_is (r_type r) KStr).
  { unfold bind, as_str. destruct (r_val r) as [[]|]; try (intros H; inversion H; reflexivity).
    destruct s0 as [|ch [|]]; intros H; inversion H; reflexivity. }
  destruct (dt_is target KStr && dt_is (r_type r) KChar).
  { unfold bind, as_char. destruct (r_val r) as [[]|]; intros H; inversion H; reflexivity. }
  intros H; inversion H; reflexivity.
Qed.

(* the store is reached only after the constant test and the type test: when the value is not
   convertible to the target's type, or the target is a constant, nothing is written *)
Lemma rejected_store_no_effect t c id v s cl :
  get_cell id s = (Ok cl, s) -> well_tagged v ->
  (c_const cl = true \/ ~ convertible (dk (c_type cl)) v) ->
  exists f, store_value t c id v s = (Fail f, s).
Proof.
  intros Hc W Hrej. unfold store_value. unfold bind at 1. rewrite Hc.
  destruct (c_const cl) eqn:Ek.
  - destruct (rt_error t c s) as [o s'] eqn:E. destruct (runtime_error_pure _ _ _ _ _ _ E) as [-> [f ->]]. eauto.
  - destruct Hrej as [Hrej|Hrej]; [discriminate|].
    destruct (implicit_cast_total (c_type cl) v s W) as [r' [E1 [W' Hiff]]].
    unfold bind. rewrite E1.
    assert (Hne : dt_eq (c_type cl) (r_type r') = false).
    { destruct (dt_eq (c_type cl) (r_type r')) eqn:E; [|reflexivity]. exfalso. apply Hrej. apply Hiff.
      unfold dt_eq in E. destruct (dname (c_type cl)), (dname (r_type r')); try (apply andb_true_iff in E; destruct E as [E _]); apply dk_eqb_eq in E; congruence. }
    rewrite Hne. cbn [negb].
    destruct (rt_error t c s) as [o s'] eqn:E. destruct (runtime_error_pure _ _ _ _ _ _ E) as [-> [f ->]]. eauto.
Qed.
