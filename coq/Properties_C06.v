(* Properties_C06.v — arrays are bounds-checked total maps with independent elements.
   Only statements, `exact`, and Print Assumptions. *)
From PE2 Require Import Arrays Lemmas_Arrays Eval Lemmas_DeepCopy Lemmas_HeapInv Run Lemmas_ConstLogic Lemmas_ConstThm Lemmas_ArrStates.
Local Open Scope Z_scope.

(* an in-bounds index tuple addresses a cell inside the element vector *)
Theorem C06_linear_in_range : forall idxs ds, all_valid idxs ds = true -> 0 <= linear idxs ds < total_size ds.
Proof. exact linear_in_range. Qed.
Print Assumptions C06_linear_in_range.

(* two different in-bounds tuples never address the same cell (any number of dimensions) *)
Theorem C06_linear_injective : forall idxs idxs' ds,
  all_valid idxs ds = true -> all_valid idxs' ds = true -> linear idxs ds = linear idxs' ds -> idxs = idxs'.
Proof. exact linear_injective. Qed.
Print Assumptions C06_linear_injective.

(* a write changes exactly the addressed element; a read returns the last value written *)
Theorem C06_get_set_same : forall (A : Type) (cells : list A) idxs ds v,
  all_valid idxs ds = true -> Z.of_nat (List.length cells) = total_size ds ->
  nth_z (set_nth cells (linear idxs ds) v) (linear idxs ds) = Some v.
Proof. intros A cells idxs ds v H L. apply nth_z_set_same. rewrite L. apply linear_in_range; exact H. Qed.
Print Assumptions C06_get_set_same.

Theorem C06_get_set_other : forall (A : Type) (cells : list A) idxs idxs' ds v,
  all_valid idxs ds = true -> all_valid idxs' ds = true -> idxs <> idxs' ->
  nth_z (set_nth cells (linear idxs ds) v) (linear idxs' ds) = nth_z cells (linear idxs' ds).
Proof.
  intros A cells idxs idxs' ds v H H' N. apply nth_z_set_other. intro E. apply N.
  exact (linear_injective _ _ _ H H' E).
Qed.
Print Assumptions C06_get_set_other.

(* whole-array assignment is only defined between arrays of identical bounds *)
Theorem C06_assign_requires_same_bounds : forall a b, dims_eqb a b = true <-> a = b.
Proof. exact dims_eqb_eq. Qed.
Print Assumptions C06_assign_requires_same_bounds.

(* over the whole evaluator: an array, once declared, never changes -- its bounds, its element type and the identity of its
   element cells are fixed whatever the program does afterwards (only the payloads of the element cells change), and it never
   disappears; so an index tuple denotes the same element cell for the lifetime of the array *)
Theorem C06_array_structure_is_fixed : forall ped repl lim fuel bl c s id a, hb s -> nm_get id (s_arrs s) = Some a ->
  nm_get id (s_arrs (snd (run_block ped repl lim fuel bl c s))) = Some a.
Proof. exact arrays_are_immutable. Qed.
Print Assumptions C06_array_structure_is_fixed.

(* non-vacuity: a 3-dimensional shape with negative bounds and an in-bounds tuple *)
Example C06_shape_example :
  all_valid [-3; 0; 4] [(-3, -1); (0, 0); (2, 4)] = true /\ linear [-3; 0; 4] [(-3, -1); (0, 0); (2, 4)] = 6.
Proof. vm_compute. split; reflexivity. Qed.

(* over the whole evaluator: the elements of every array are variables in their own right -- they exist, are not constants, and
   have the array's element type (heap invariant of the program logic, kept by every block) *)
Theorem C06_elements_are_variables_of_the_element_type : forall ped repl lim fuel bl c s a ar e, Inv s ->
  nm_get a (s_arrs (snd (run_block ped repl lim fuel bl c s))) = Some ar -> In e (a_elems ar) ->
  exists cl, nm_get e (s_cells (snd (run_block ped repl lim fuel bl c s))) = Some cl /\ c_const cl = false /\ c_type cl = a_type ar.
Proof. exact array_elements_are_variables_of_the_element_type. Qed.
Print Assumptions C06_elements_are_variables_of_the_element_type.

(* ---- what an indexed name denotes, for every state and context; the index expressions are any that evaluate without touching the
   state (`evaluates ev s e r`: ev e s = (Ok r, s)); `index_ok d r i`: r is an INTEGER result holding i, and i lies within d ---- *)
(* in bounds: a[i1,...,in] resolves to exactly the element cell the linearisation of the tuple selects -- so a write changes that
   element and a read returns what was last written to the same tuple (C06_linear_injective: different tuples, different cells) *)
Theorem C06_element_resolves_to_the_selected_cell : forall ped repl lim fuel t r' idx c s aid a rsl is eid,
  ev_resolve (evs_at ped repl lim fuel) r' c s = (Ok (HArr aid), s) -> nm_get aid (s_arrs s) = Some a ->
  List.length idx = List.length (a_dims a) -> Forall2 (evaluates (fun x => ev_eval (evs_at ped repl lim fuel) x c) s) idx rsl ->
  Forall2 (fun dr i => index_ok (fst dr) (snd dr) i) (combine (a_dims a) rsl) is ->
  nth_z (a_elems a) (linear is (a_dims a)) = Some eid ->
  ev_resolve (evs_at ped repl lim (S fuel)) (RIndex t r' idx) c s = (Ok (HVar eid), s).
Proof. exact element_resolves_to_the_selected_cell. Qed.
Print Assumptions C06_element_resolves_to_the_selected_cell.

(* an index that is not an INTEGER or lies outside its bounds is a runtime error; the whole state is as it was: no element is
   read or written.  (`int_tagged`: an INTEGER result holds an integer, which C05_results_have_their_type guarantees.) *)
Theorem C06_bad_index_is_an_error_without_effect : forall ped repl lim fuel t r' idx c s aid a rsl,
  ev_resolve (evs_at ped repl lim fuel) r' c s = (Ok (HArr aid), s) -> nm_get aid (s_arrs s) = Some a ->
  List.length idx = List.length (a_dims a) -> Forall2 (evaluates (fun x => ev_eval (evs_at ped repl lim fuel) x c) s) idx rsl -> Forall int_tagged rsl ->
  ~ (exists is, Forall2 (fun dr i => index_ok (fst dr) (snd dr) i) (combine (a_dims a) rsl) is) ->
  exists f, ev_resolve (evs_at ped repl lim (S fuel)) (RIndex t r' idx) c s = (Fail f, s).
Proof. exact bad_index_is_an_error. Qed.
Print Assumptions C06_bad_index_is_an_error_without_effect.

Theorem C06_wrong_number_of_indices_is_an_error : forall ped repl lim fuel t r' idx c s aid a,
  ev_resolve (evs_at ped repl lim fuel) r' c s = (Ok (HArr aid), s) -> nm_get aid (s_arrs s) = Some a ->
  List.length idx <> List.length (a_dims a) -> exists f, ev_resolve (evs_at ped repl lim (S fuel)) (RIndex t r' idx) c s = (Fail f, s).
Proof. exact wrong_number_of_indices_is_an_error. Qed.
Print Assumptions C06_wrong_number_of_indices_is_an_error.

Theorem C06_indexing_a_variable_is_an_error : forall ped repl lim fuel t r' idx c s id,
  ev_resolve (evs_at ped repl lim fuel) r' c s = (Ok (HVar id), s) -> exists f, ev_resolve (evs_at ped repl lim (S fuel)) (RIndex t r' idx) c s = (Fail f, s).
Proof. exact indexing_a_variable_is_an_error. Qed.
Print Assumptions C06_indexing_a_variable_is_an_error.
