(* Lemmas_HeapIds.v — identifiers of contexts are never reused; liveness is decided on identifiers. *)
From PE2 Require Import Values.
Local Open Scope Z_scope.

Definition ctx_ids_below (s : st) : Prop := forall id x, nm_get id (s_ctxs s) = Some x -> (id < s_next s)%N.

Lemma fresh_spec s : fresh s = (Ok (s_next s), set_next (N.succ (s_next s)) s).
Proof. reflexivity. Qed.

(* a new context (an activation, a record) gets an identifier that no context has or ever had *)
Lemma new_ctx_is_fresh parent name isfun isrec rett s id s' :
  ctx_ids_below s -> new_ctx parent name isfun isrec rett s = (Ok id, s') ->
  nm_get id (s_ctxs s) = None /\ id = s_next s /\ ctx_ids_below s' /\ (s_next s < s_next s')%N /\
  (forall j x, nm_get j (s_ctxs s) = Some x -> nm_get j (s_ctxs s') = Some x).
Proof.
  intros Hb H. unfold new_ctx in H. unfold bind at 1 in H.
  destruct (match parent with None => ret O | Some p => pc <- get_ctx p;; ret (S (x_depth pc)) end s) as [[d|f] s1] eqn:E1; [|discriminate H].
  assert (Hs1 : s1 = s).
  { destruct parent as [p|]; [|inversion E1; reflexivity]. unfold bind, get_ctx in E1. destruct (nm_get p (s_ctxs s)); inversion E1; reflexivity. }
  subst s1. unfold bind in H. rewrite fresh_spec in H. unfold put_ctx, modify, ret in H. inversion H; subst. clear H. cbn.
  assert (Hn : nm_get (s_next s) (s_ctxs s) = None).
  { destruct (nm_get (s_next s) (s_ctxs s)) eqn:E; [|reflexivity]. apply Hb in E. lia. }
  split; [exact Hn|]. split; [reflexivity|]. split; [|split].
  - intros j x Hj. cbn in Hj |- *. destruct (N.eq_dec (s_next s) j) as [<-|Hne].
    + lia.
    + rewrite nm_get_put_other in Hj by exact Hne. apply Hb in Hj. lia.
  - cbn. lia.
  - intros j x Hj. cbn. assert (s_next s <> j) by (intro; subst j; rewrite Hn in Hj; discriminate).
    rewrite nm_get_put_other by assumption. exact Hj.
Qed.

(* the liveness walk: a context is on its own chain; the walk only follows parent links *)
Lemma on_chain_self c s cx : nm_get c (s_ctxs s) = Some cx -> on_chain c c s = (Ok true, s).
Proof. intros H. unfold on_chain, bind, get_ctx. rewrite H. cbn [on_chain_aux]. rewrite N.eqb_refl. reflexivity. Qed.

Lemma on_chain_unset_root c s cx : nm_get c (s_ctxs s) = Some cx -> x_parent cx = None -> c <> 0%N -> on_chain c 0%N s = (Ok false, s).
Proof.
  intros H Hp Hc. unfold on_chain, bind, get_ctx. rewrite H. cbn [on_chain_aux].
  destruct (N.eqb c 0) eqn:E; [apply N.eqb_eq in E; contradiction|]. unfold bind, get_ctx. rewrite H, Hp. reflexivity.
Qed.
