(* Lemmas_PtrStates.v -- what a pointer denotes: `p <- ^v` records v's own cell in p; `p^` resolves to exactly that cell while the
   activation that owns it is on the chain of the current one; an unset pointer and a pointer whose target's activation is gone are
   runtime errors that leave the whole state as it was (nothing else is read or written); the assignment is type-checked.
   For every state and context; the inner resolutions (of p, of v) are any that do not touch the state. *)
From PE2 Require Import Eval Run Lemmas_Copy Lemmas_Out Lemmas_Scope Lemmas_ConstLogic Lemmas_FileStates.
Local Open Scope N_scope.

Lemma ro_on_chain_aux fuel : forall id target, ro (on_chain_aux fuel id target).
Proof.
  induction fuel as [|f IH]; intros id target; cbn [on_chain_aux]; [apply ro_crash|].
  apply ro_if; [apply ro_ret|]. apply ro_bind; [apply ro_get_ctx|]. intros cx. destruct (x_parent cx); [apply IH|apply ro_ret].
Qed.
Lemma ro_on_chain id target : ro (on_chain id target).
Proof. unfold on_chain. apply ro_bind; [apply ro_get_ctx|]. intros cx. apply ro_on_chain_aux. Qed.

Section Deref.
Variables (ped repl : bool) (lim : limits) (fuel : nat).
Notation rs := (ev_resolve (evs_at ped repl lim (S fuel))).

Ltac start Hr Ec :=
  cbn [evs_at evs_step ev_resolve]; unfold resolve_body; unfold bind at 1; rewrite Hr; cbn [fst snd];
  unfold bind at 1, get_cell at 1; rewrite Ec; cbn [fst snd].

(* p^ denotes the variable recorded in p *)
Theorem deref_resolves_to_the_target t r' c s id cl tn tid owner :
  ev_resolve (evs_at ped repl lim fuel) r' c s = (Ok (HVar id), s) -> nm_get id (s_cells s) = Some cl ->
  dk (c_type cl) = KPtr -> c_val cl = PPtr tn (Some tid) owner -> on_chain c owner s = (Ok true, s) ->
  rs (RDeref t r') c s = (Ok (HVar tid), s).
Proof.
  intros Hr Ec Hk Hv Hl. start Hr Ec. unfold dt_is. rewrite Hk. change (dk_eqb KPtr KPtr) with true. cbn [negb]. rewrite Hv.
  unfold bind at 1. rewrite Hl. cbn [fst snd negb]. reflexivity.
Qed.

(* a pointer that was never set: a runtime error, the state untouched *)
Theorem deref_of_an_unset_pointer_is_an_error t r' c s id cl tn owner :
  ev_resolve (evs_at ped repl lim fuel) r' c s = (Ok (HVar id), s) -> nm_get id (s_cells s) = Some cl ->
  dk (c_type cl) = KPtr -> c_val cl = PPtr tn None owner ->
  exists f, rs (RDeref t r') c s = (Fail f, s).
Proof.
  intros Hr Ec Hk Hv. start Hr Ec. unfold dt_is. rewrite Hk. change (dk_eqb KPtr KPtr) with true. cbn [negb]. rewrite Hv.
  unfold bind at 1. pose proof (ro_on_chain c owner s) as R. destruct (on_chain c owner s) as [[live|e] s1]; cbn [fst snd] in R |- *; subst s1; [|eauto].
  destruct live; cbn [negb]; apply rt_error_pure.
Qed.

(* a pointer whose target belonged to an activation that is no longer on the chain: a runtime error, the state untouched *)
Theorem deref_of_a_dead_target_is_an_error t r' c s id cl tn tgt owner :
  ev_resolve (evs_at ped repl lim fuel) r' c s = (Ok (HVar id), s) -> nm_get id (s_cells s) = Some cl ->
  dk (c_type cl) = KPtr -> c_val cl = PPtr tn tgt owner -> on_chain c owner s = (Ok false, s) ->
  exists f, rs (RDeref t r') c s = (Fail f, s).
Proof.
  intros Hr Ec Hk Hv Hl. start Hr Ec. unfold dt_is. rewrite Hk. change (dk_eqb KPtr KPtr) with true. cbn [negb]. rewrite Hv.
  unfold bind at 1. rewrite Hl. cbn [fst snd negb]. apply rt_error_pure.
Qed.

(* ^ applied to something that is not a pointer variable *)
Theorem deref_of_a_non_pointer_is_an_error t r' c s id cl :
  ev_resolve (evs_at ped repl lim fuel) r' c s = (Ok (HVar id), s) -> nm_get id (s_cells s) = Some cl -> dk (c_type cl) <> KPtr ->
  exists f, rs (RDeref t r') c s = (Fail f, s).
Proof.
  intros Hr Ec Hk. start Hr Ec. unfold dt_is. destruct (dk_eqb (dk (c_type cl)) KPtr) eqn:E; [apply dk_eqb_eq in E; contradiction|]. cbn [negb]. apply rt_error_pure.
Qed.
End Deref.

Section Assign.
Variables (ped repl : bool) (lim : limits) (fuel : nat).
Notation ev := (ev_eval (evs_at ped repl lim (S fuel))).

Ltac start Hp Hv Ep Ev :=
  cbn [evs_at evs_step ev_eval]; unfold eval_body; unfold bind at 1; rewrite Hp; cbn [fst snd expect_holder_var];
  unfold bind at 1; cbn [ret fst snd]; unfold bind at 1; rewrite Hv; cbn [fst snd];
  unfold bind at 1, get_cell at 1; rewrite Ep; cbn [fst snd]; unfold bind at 1, get_cell at 1; rewrite Ev; cbn [fst snd].

(* p <- ^v : p's cell receives v's own cell identifier and the activation that owns v; nothing else changes *)
Theorem pointer_assignment_records_the_variable t pr vr c s pid vid pc vc tn old oldo target_ty owner :
  ev_resolve (evs_at ped repl lim fuel) pr c s = (Ok (HVar pid), s) -> ev_resolve (evs_at ped repl lim fuel) vr c s = (Ok (HVar vid), s) ->
  nm_get pid (s_cells s) = Some pc -> nm_get vid (s_cells s) = Some vc -> dk (c_type pc) = KPtr -> c_val pc = PPtr tn old oldo ->
  lookup_ptr_def c tn true s = (Ok (Some target_ty), s) -> dt_eq target_ty (c_type vc) = true ->
  nonrec_ancestor (c_owner vc) s = (Ok owner, s) ->
  ev (NPtrAssign t pr vr) c s =
    (Ok res_none, set_cells (nm_put pid (mkCell (c_name pc) (c_type pc) (c_const pc) (c_owner pc) (PPtr tn (Some vid) owner)) (s_cells s)) s).
Proof.
  intros Hp Hv Ep Ev Hk Hpv Hd Ht Ho.
  start Hp Hv Ep Ev. unfold dt_is. rewrite Hk. change (dk_eqb KPtr KPtr) with true. cbn [negb]. rewrite Hpv.
  unfold bind at 1. rewrite Hd. cbn [fst snd]. rewrite Ht. cbn [negb]. unfold bind at 1. rewrite Ho. cbn [fst snd].
  unfold bind at 1. unfold set_cell_val, bind, get_cell. rewrite Ep. cbn. reflexivity.
Qed.

(* taking a pointer is type-checked against the pointer type's declared target type: a variable of another type is a runtime
   error, the state untouched *)
Theorem pointer_assignment_is_type_checked t pr vr c s pid vid pc vc tn old oldo target_ty :
  ev_resolve (evs_at ped repl lim fuel) pr c s = (Ok (HVar pid), s) -> ev_resolve (evs_at ped repl lim fuel) vr c s = (Ok (HVar vid), s) ->
  nm_get pid (s_cells s) = Some pc -> nm_get vid (s_cells s) = Some vc -> dk (c_type pc) = KPtr -> c_val pc = PPtr tn old oldo ->
  lookup_ptr_def c tn true s = (Ok (Some target_ty), s) -> dt_eq target_ty (c_type vc) = false ->
  exists f, ev (NPtrAssign t pr vr) c s = (Fail f, s).
Proof.
  intros Hp Hv Ep Ev Hk Hpv Hd Ht. start Hp Hv Ep Ev. unfold dt_is. rewrite Hk. change (dk_eqb KPtr KPtr) with true. cbn [negb]. rewrite Hpv.
  unfold bind at 1. rewrite Hd. cbn [fst snd]. rewrite Ht. cbn [negb]. apply rt_error_pure.
Qed.

(* ... so that afterwards p^ denotes v itself *)
Theorem after_the_assignment_the_pointer_denotes_the_variable t' pr c s pid vid pc tn owner :
  let s' := set_cells (nm_put pid (mkCell (c_name pc) (c_type pc) (c_const pc) (c_owner pc) (PPtr tn (Some vid) owner)) (s_cells s)) s in
  dk (c_type pc) = KPtr -> ev_resolve (evs_at ped repl lim fuel) pr c s' = (Ok (HVar pid), s') -> on_chain c owner s' = (Ok true, s') ->
  ev_resolve (evs_at ped repl lim (S fuel)) (RDeref t' pr) c s' = (Ok (HVar vid), s').
Proof.
  intros s' Hk Hr Hl. eapply deref_resolves_to_the_target; [exact Hr| | | |exact Hl].
  - unfold s'. cbn [s_cells set_cells]. apply nm_get_put_same.
  - exact Hk.
  - reflexivity.
Qed.
End Assign.
