From PE2 Require Import Builtins.
Local Open Scope Z_scope.

Lemma slen_nonneg s : 0 <= slen s.
Proof. unfold slen. lia. Qed.

Lemma bi_left_some s n : 0 <= n <= slen s -> bi_left s n = Some (firstn (Z.to_nat n) s).
Proof. intros H. unfold bi_left. destruct (n <? 0) eqn:E1; [lia|]. destruct (slen s <? n) eqn:E2; [lia|]. reflexivity. Qed.

Lemma bi_right_some s n : 0 <= n <= slen s -> bi_right s n = Some (skipn (Z.to_nat (slen s - n)) s).
Proof. intros H. unfold bi_right. destruct (n <? 0) eqn:E1; [lia|]. destruct (slen s <? n) eqn:E2; [lia|]. reflexivity. Qed.

Lemma left_right_concat s n l r :
  0 <= n <= slen s -> bi_left s n = Some l -> bi_right s (slen s - n) = Some r -> l ++ r = s.
Proof.
  intros H Hl Hr. rewrite bi_left_some in Hl by lia. rewrite bi_right_some in Hr by lia.
  inversion Hl; inversion Hr; subst. replace (slen s - (slen s - n)) with n by lia. apply firstn_skipn.
Qed.

Lemma bi_left_error s n : (n < 0 \/ slen s < n) <-> bi_left s n = None.
Proof.
  unfold bi_left. destruct (n <? 0) eqn:E1; [split; [reflexivity|lia]|].
  destruct (slen s <? n) eqn:E2; split; intros; try reflexivity; try discriminate; lia.
Qed.

Lemma bi_right_error s n : (n < 0 \/ slen s < n) <-> bi_right s n = None.
Proof.
  unfold bi_right. destruct (n <? 0) eqn:E1; [split; [reflexivity|lia]|].
  destruct (slen s <? n) eqn:E2; split; intros; try reflexivity; try discriminate; lia.
Qed.

Lemma bi_mid_some s i n :
  1 <= i -> 0 <= n -> i <= slen s -> i - 1 + n <= slen s ->
  bi_mid s i n = Some (firstn (Z.to_nat n) (skipn (Z.to_nat (i - 1)) s)).
Proof.
  intros H1 H2 H3 H4. unfold bi_mid.
  destruct (i - 1 <? 0) eqn:E1; [lia|]. destruct (slen s <=? i - 1) eqn:E2; [lia|].
  destruct (n <? 0) eqn:E3; [lia|]. destruct (slen s <? n + (i - 1)) eqn:E4; [lia|]. reflexivity.
Qed.

Lemma bi_mid_error s i n :
  (i < 1 \/ slen s < i \/ n < 0 \/ slen s < i - 1 + n) <-> bi_mid s i n = None.
Proof.
  unfold bi_mid.
  destruct (i - 1 <? 0) eqn:E1; [split; [reflexivity|lia]|].
  destruct (slen s <=? i - 1) eqn:E2; [split; [reflexivity|lia]|].
  destruct (n <? 0) eqn:E3; [split; [reflexivity|lia]|].
  destruct (slen s <? n + (i - 1)) eqn:E4; split; intros; try reflexivity; try discriminate; lia.
Qed.

(* the substring functions never look outside the string: results are sublists of bounded length *)
Lemma bi_mid_length s i n r : bi_mid s i n = Some r -> slen r = n.
Proof.
  unfold bi_mid.
  destruct (i - 1 <? 0) eqn:E1; [discriminate|]. destruct (slen s <=? i - 1) eqn:E2; [discriminate|].
  destruct (n <? 0) eqn:E3; [discriminate|]. destruct (slen s <? n + (i - 1)) eqn:E4; [discriminate|].
  intros H. inversion H; subst. unfold slen in *. rewrite firstn_length, skipn_length. lia.
Qed.

(* character functions: finite domain, checked exhaustively inside the kernel *)
Definition all_codes : list Z := map Z.of_nat (seq 0 256).
Lemma all_codes_complete n : 0 <= n <= 255 -> In n all_codes.
Proof.
  intros H. unfold all_codes. apply in_map_iff. exists (Z.to_nat n). split; [lia|]. apply in_seq. lia.
Qed.

Lemma asc_chr_sweep : forallb (fun n => if n <=? 127 then bi_asc (bi_chr n) =? n else true) all_codes = true.
Proof. vm_compute. reflexivity. Qed.

Lemma asc_chr n : 0 <= n <= 127 -> bi_asc (bi_chr n) = n.
Proof.
  intros H. pose proof asc_chr_sweep as S. rewrite forallb_forall in S.
  specialize (S n (all_codes_complete n ltac:(lia))). destruct (n <=? 127) eqn:E; [|lia]. apply Z.eqb_eq. exact S.
Qed.

Definition upper_spec (n : Z) : Z := if (97 <=? n) && (n <=? 122) then n - 32 else n.
Definition lower_spec (n : Z) : Z := if (65 <=? n) && (n <=? 90) then n + 32 else n.
Lemma case_sweep : forallb (fun n => (zcode (to_upper (ascii_of_z n)) =? upper_spec n) && (zcode (to_lower (ascii_of_z n)) =? lower_spec n)) all_codes = true.
Proof. vm_compute. reflexivity. Qed.
Lemma case_maps n : 0 <= n <= 255 ->
  zcode (to_upper (ascii_of_z n)) = upper_spec n /\ zcode (to_lower (ascii_of_z n)) = lower_spec n.
Proof.
  intros H. pose proof case_sweep as S. rewrite forallb_forall in S.
  specialize (S n (all_codes_complete n H)). apply andb_true_iff in S. rewrite !Z.eqb_eq in S. exact S.
Qed.

(* IS_NUM accepts every digit string with at most one point *)
Fixpoint count_points (s : str) : nat :=
  match s with [] => O | c :: r => ((if aeqb c "."%char then 1%nat else 0%nat) + count_points r)%nat end.
Definition numeral_chars (s : str) : Prop := Forall (fun c => is_digit c = true \/ c = "."%char) s.

Lemma is_num_aux_accepts (s : str) (d : bool) : numeral_chars s -> (count_points s + (if d then 1%nat else 0%nat) <= 1)%nat -> is_num_aux s d = true.
Proof.
  revert d; induction s as [|c r IH]; intros d H P; [reflexivity|].
  inversion H as [|? ? Hc Hr]; subst. cbn [is_num_aux count_points] in *.
  destruct (aeqb c "."%char) eqn:E.
  - destruct d; [lia|]. apply IH; [exact Hr|]. lia.
  - destruct Hc as [Hc|Hc]; [rewrite Hc; apply IH; [exact Hr|lia]|].
    subst c. cbn in E. discriminate.
Qed.

Lemma is_num_accepts s : numeral_chars s -> (count_points s <= 1)%nat -> bi_is_num s = true.
Proof. intros H P. apply is_num_aux_accepts; [exact H|lia]. Qed.
