(* Properties_C08.v — a CONSTANT never changes after its definition.
   PARTIAL: proved for the assignment channel (variables, elements, fields and dereferenced pointers all
   reach the same store sequence): an attempt on a constant cell is an error and the state is unchanged.
   The other writers (FOR header, INPUT, READFILE, GETRECORD, BYREF formals) test the same flag in Eval.v
   and are compared with the implementation for every literal type and writer form.
   Over the whole evaluator: the CONSTANT flag of a cell is permanent (no execution clears it, the cell never
   disappears, its identifier is never given to another object), so every site that tests the flag keeps
   rejecting the constant for the rest of the run.  Not proved: that every write site tests it (DESIGN.md). *)
From PE2 Require Import Eval Lemmas_Store Lemmas_Out.

Theorem C08_assignment_to_constant_no_effect : forall t c id v s cl,
  get_cell id s = (Ok cl, s) -> well_tagged v -> c_const cl = true ->
  exists f, store_value t c id v s = (Fail f, s).
Proof. intros t c id v s cl H W K. eapply rejected_store_no_effect; eauto. Qed.
Print Assumptions C08_assignment_to_constant_no_effect.

(* a BYREF formal and a pointer target denote the constant's own cell, so the same test applies:
   aliases are cell identifiers, there is no second copy of the flag *)
Theorem C08_flag_lives_in_the_cell : forall id v s c0, get_cell id s = (Ok c0, s) ->
  forall s1 o, set_cell_val id v s = (o, s1) -> forall c1, get_cell id s1 = (Ok c1, s1) -> c_const c1 = c_const c0.
Proof.
  intros id v s c0 H s1 o Hs c1 H1. unfold set_cell_val, bind in Hs. rewrite H in Hs. unfold put_cell, modify in Hs. inversion Hs; subst.
  unfold get_cell in H1. cbn in H1. rewrite nm_get_put_same in H1. inversion H1; subst. reflexivity.
Qed.
Print Assumptions C08_flag_lives_in_the_cell.

Theorem C08_constant_flag_is_permanent : forall ped repl lim fuel bl c s id cl,
  (forall j x, nm_get j (s_cells s) = Some x -> (j < s_next s)%N) -> nm_get id (s_cells s) = Some cl -> c_const cl = true ->
  exists cl', nm_get id (s_cells (snd (run_block ped repl lim fuel bl c s))) = Some cl' /\ c_const cl' = true /\ c_type cl' = c_type cl.
Proof.
  intros ped repl lim fuel bl c s id cl Hb E K.
  destruct (constant_flag_and_type_are_permanent ped repl lim fuel bl c s id cl Hb E) as [cl' [E' [H1 [H2 _]]]].
  exists cl'. split; [exact E'|]. split; [congruence|exact H2].
Qed.
Print Assumptions C08_constant_flag_is_permanent.
