(* Properties_C08.v — a CONSTANT never changes after its definition.
   Proved over the whole evaluator, for every syntax tree (also trees no parser produces), every fuel and every outcome:
   a constant cell of primitive type that belongs to an ordinary (non-record) context holds, after any block has run, the very
   same cell -- name, type, flag, owner and VALUE (C08_constants_never_change).  'CONSTANT c = <literal>' executed in an ordinary
   context creates such a cell (C08_constant_statement_creates_a_protected_cell), and the heap invariant the theorem needs holds in
   the initial state of every run and is kept by every block (C08_invariant_holds_initially, C08_invariant_is_kept).
   The guards are where the C++ has them -- assignment, FOR, INPUT, READFILE and GETRECORD test the flag of the cell they are
   about to write; pointer assignment, record copy and whole-array copy have no test and are safe because of WHAT they write to
   (a cell of pointer type; the cells of a record's private context; array elements) -- so the proof is a program logic over all
   ten evaluation functions (Lemmas_ConstLogic.v, Lemmas_ConstEval.v, Lemmas_ConstCase_*.v, Lemmas_ConstThm.v): it fails to go
   through if any write site loses its guard.  Also: an attempt on a constant cell through the assignment store sequence is an
   error with the state unchanged, and the flag itself is permanent. *)
From PE2 Require Import Eval Run Lemmas_Store Lemmas_Out Lemmas_DeepCopy Lemmas_ConstLogic Lemmas_ConstThm Lemmas_ConstStates Lemmas_ForStates.

Theorem C08_assignment_to_constant_no_effect : forall t c id v s cl,
  get_cell id s = (Ok cl, s) -> well_tagged v -> c_const cl = true ->
  exists f, store_value t c id v s = (Fail f, s).
Proof. intros t c id v s cl H W K. eapply rejected_store_no_effect; eauto. Qed.
Print Assumptions C08_assignment_to_constant_no_effect.

(* a BYREF formal and a pointer target denote the constant's own cell, so the same test applies:
   aliases are cell identifiers, there is no second copy of the flag *)
Theorem C08_flag_lives_in_the_cell : forall id v s c0, get_cell id s = (Ok c0, s) ->
  forall s1 o, set_cell_val id v s = (o, s1) -> forall c1, get_cell id s1 = (Ok c1, s1) -> c_const c1 = c_const c0.
Proof.
  intros id v s c0 H s1 o Hs c1 H1. unfold set_cell_val, bind in Hs. rewrite H in Hs. unfold put_cell, modify in Hs. inversion Hs; subst.
  unfold get_cell in H1. cbn in H1. rewrite nm_get_put_same in H1. inversion H1; subst. reflexivity.
Qed.
Print Assumptions C08_flag_lives_in_the_cell.

Theorem C08_constant_flag_is_permanent : forall ped repl lim fuel bl c s id cl,
  (forall j x, nm_get j (s_cells s) = Some x -> (j < s_next s)%N) -> nm_get id (s_cells s) = Some cl -> c_const cl = true ->
  exists cl', nm_get id (s_cells (snd (run_block ped repl lim fuel bl c s))) = Some cl' /\ c_const cl' = true /\ c_type cl' = c_type cl.
Proof.
  intros ped repl lim fuel bl c s id cl Hb E K.
  destruct (constant_flag_and_type_are_permanent ped repl lim fuel bl c s id cl Hb E) as [cl' [E' [H1 [H2 _]]]].
  exists cl'. split; [exact E'|]. split; [congruence|exact H2].
Qed.
Print Assumptions C08_constant_flag_is_permanent.

(* THE property: every later read of c yields v.  A CONSTANT cell of primitive type owned by an ordinary context is the same
   cell after any block -- whatever the block is, however it ends *)
Theorem C08_constants_never_change : forall ped repl lim fuel bl c s id cl, Inv s ->
  nm_get id (s_cells s) = Some cl -> c_const cl = true -> prim_kind (dk (c_type cl)) = true -> plain_ctx s (c_owner cl) ->
  nm_get id (s_cells (snd (run_block ped repl lim fuel bl c s))) = Some cl.
Proof. exact protected_constant_unchanged. Qed.
Print Assumptions C08_constants_never_change.

Theorem C08_invariant_is_kept : forall ped repl lim fuel bl c s, Inv s ->
  Inv (snd (run_block ped repl lim fuel bl c s)) /\ K s (snd (run_block ped repl lim fuel bl c s)).
Proof. exact run_block_keeps_constants. Qed.
Print Assumptions C08_invariant_is_kept.

Theorem C08_invariant_holds_initially : forall stdin fs rnd, Inv (init_state stdin fs rnd).
Proof. exact Inv_init. Qed.
Print Assumptions C08_invariant_holds_initially.

(* 'CONSTANT c = <literal>' in an ordinary context: the new cell is such a constant, entered under the name c *)
Theorem C08_constant_statement_creates_a_protected_cell : forall ped repl lim f t v id c s r s',
  is_literal v = true -> plain_ctx s c ->
  ev_eval (evs_at ped repl lim (S (S f))) (NConst t v id) c s = (Ok r, s') ->
  exists cl, nm_get (s_next s) (s_cells s') = Some cl /\ protected_cell s' cl /\ c_name cl = tval id /\
             (exists cx, nm_get c (s_ctxs s') = Some cx /\ In (tval id, s_next s) (x_vars cx)).
Proof. exact constant_statement_creates_a_protected_cell. Qed.
Print Assumptions C08_constant_statement_creates_a_protected_cell.

(* non-vacuity: the global context of the initial state is an ordinary context *)
Example C08_global_context_is_ordinary : forall stdin fs rnd, plain_ctx (init_state stdin fs rnd) root_id.
Proof. intros. exists global_ctx. split; [unfold init_state; cbn [s_ctxs]; apply nm_get_put_same|reflexivity]. Qed.

(* ---- the attempts themselves, statement by statement, in every state: each is a runtime error and the WHOLE state -- the constant
   included -- is exactly as it was (the value expression / target resolution being any that does not touch the state) ---- *)
Theorem C08_constant_under_an_existing_name_is_an_error : forall ped repl lim fuel t v id c s r i,
  ev_eval (evs_at ped repl lim fuel) v c s = (Ok r, s) -> lookup_var c (tval id) false s = (Ok (Some i), s) ->
  exists f, ev_eval (evs_at ped repl lim (S fuel)) (NConst t v id) c s = (Fail f, s).
Proof. exact constant_under_an_existing_name_is_an_error. Qed.
Print Assumptions C08_constant_under_an_existing_name_is_an_error.

Theorem C08_input_into_a_constant_is_an_error : forall ped repl lim fuel t r c s id cl,
  ev_resolve (evs_at ped repl lim fuel) r c s = (Ok (HVar id), s) -> nm_get id (s_cells s) = Some cl -> c_const cl = true ->
  exists f, ev_eval (evs_at ped repl lim (S fuel)) (NInput t r) c s = (Fail f, s).
Proof. exact input_into_a_constant_is_an_error. Qed.
Print Assumptions C08_input_into_a_constant_is_an_error.

Theorem C08_readfile_into_a_constant_is_an_error : forall ped repl lim fuel t name id c s fh vid cl,
  find_file (tval name) (s_files s) = Some fh -> of_mode fh = FRead ->
  lookup_var c (tval id) true s = (Ok (Some vid), s) -> nm_get vid (s_cells s) = Some cl -> dk (c_type cl) = KStr -> c_const cl = true ->
  exists f, ev_eval (evs_at ped repl lim (S (S fuel))) (NReadFile t (NStr name) id) c s = (Fail f, s).
Proof. exact readfile_into_a_constant_is_an_error. Qed.
Print Assumptions C08_readfile_into_a_constant_is_an_error.

Theorem C08_for_over_a_constant_is_an_error : forall ped repl lim fuel t id start stop step body c s i cl,
  lookup_var c (tval id) true s = (Ok (Some i), s) -> nm_get i (s_cells s) = Some cl -> c_const cl = true ->
  exists f, ev_eval (evs_at ped repl lim (S fuel)) (NFor t id start stop step body) c s = (Fail f, s).
Proof. exact for_over_a_constant_is_an_error. Qed.
Print Assumptions C08_for_over_a_constant_is_an_error.
