(* Properties_C15.v — text files return exactly the lines that were written, and EOF is exact.
   Proved: the reading side (the loop over EOF / READFILE as the evaluator implements them, Files.v) and the two statements
   themselves, in every state: WRITEFILE on a WRITE/APPEND handle appends exactly the text of the value and one line break to that
   file and changes nothing else; READFILE on a READ handle stores exactly the next line in the STRING variable and advances the
   handle by that line.  PARTIAL: the value-to-text forms (REAL to 6 decimals, DATE as d/m/y) are compared by the correspondence. *)
From PE2 Require Import Files Lemmas_Files Eval Run Lemmas_ConstLogic Lemmas_IoStates.
Local Open Scope Z_scope.

(* for a file made of lines each ended by a line break, WHILE NOT EOF ... READFILE delivers exactly the
   lines, once each; nothing for the empty file *)
Theorem C15_read_loop : forall ls fuel, Forall no_nl ls -> (List.length ls < fuel)%nat ->
  read_loop fuel (rd (text_of_lines ls)) = ls.
Proof. exact read_loop_lines. Qed.
Print Assumptions C15_read_loop.

Theorem C15_read_loop_unterminated_last_line : forall ls last fuel,
  Forall no_nl ls -> no_nl last -> last <> [] -> (S (List.length ls) < fuel)%nat ->
  read_loop fuel (rd (text_of_lines ls ++ last)) = ls ++ [last].
Proof. exact read_loop_unterminated_last. Qed.
Print Assumptions C15_read_loop_unterminated_last_line.

Theorem C15_eof_exact : forall content, tf_eof (rd content) = true <-> content = [].
Proof. exact eof_exact. Qed.
Print Assumptions C15_eof_exact.

Theorem C15_readfile_one_line : forall l rest0, no_nl l -> file_read_line (rd (l ++ ch_nl :: rest0)) = (l, rd rest0).
Proof. exact read_line_terminated. Qed.
Print Assumptions C15_readfile_one_line.

Example C15_empty_file_reads_nothing : read_loop 5 (rd []) = [] /\
  read_loop 5 (rd (str_of_string "a
b
")) = [str_of_string "a"; str_of_string "b"].
Proof. vm_compute. split; reflexivity. Qed.

(* WRITEFILE "f", d on a handle opened FOR WRITE or APPEND: the file's content grows by exactly the text of the value and one line
   break; nothing else in the state changes.  d is any expression that yields, without touching the state, a primitive value whose
   text (prim_to_string: the OUTPUT form) is txt *)
Theorem C15_writefile_appends_exactly_one_line : forall ped repl lim fuel t name d c s fh dr p txt,
  find_file (tval name) (s_files s) = Some fh -> (of_mode fh = FWrite \/ of_mode fh = FAppend) ->
  ev_eval (evs_at ped repl lim (S fuel)) d c s = (Ok dr, s) -> prim_kind (dk (r_type dr)) = true -> r_val dr = Some p -> prim_to_string p s = (Ok txt, s) ->
  ev_eval (evs_at ped repl lim (S (S fuel))) (NWriteFile t (NStr name) d) c s =
    (Ok res_none, set_fs (fs_set (tval name) (match fs_get (tval name) (s_fs s) with Some old => old | None => [] end ++ txt ++ [ch_nl]) (s_fs s)) s).
Proof. exact writefile_appends_one_line. Qed.
Print Assumptions C15_writefile_appends_exactly_one_line.

(* READFILE "f", v on a handle opened FOR READ, v an existing STRING variable that is not a constant: v receives exactly the next
   line (file_read_line: up to the next line break, C15_readfile_one_line), the handle advances by that line, nothing else changes *)
Theorem C15_readfile_stores_exactly_the_next_line : forall ped repl lim fuel t name id c s fh vid cl,
  find_file (tval name) (s_files s) = Some fh -> of_mode fh = FRead ->
  lookup_var c (tval id) true s = (Ok (Some vid), s) -> nm_get vid (s_cells s) = Some cl -> dk (c_type cl) = KStr -> c_const cl = false ->
  let line := fst (file_read_line fh) in let fh' := snd (file_read_line fh) in
  let s1 := set_files (replace_file fh' (s_files s)) s in
  ev_eval (evs_at ped repl lim (S (S fuel))) (NReadFile t (NStr name) id) c s =
    (Ok res_none, set_cells (nm_put vid (mkCell (c_name cl) (c_type cl) (c_const cl) (c_owner cl) (PStr line)) (s_cells s1)) s1).
Proof. exact readfile_stores_the_next_line. Qed.
Print Assumptions C15_readfile_stores_exactly_the_next_line.
