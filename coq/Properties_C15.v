(* Properties_C15.v — text files return exactly the lines that were written, and EOF is exact.
   PARTIAL: the reading side is proved (the loop over EOF / READFILE as the evaluator implements them,
   Files.v); that WRITEFILE appends `text ++ line break` to the disk is a one-line definition in Eval.v
   and the value-to-text forms are compared by the correspondence. *)
From PE2 Require Import Files Lemmas_Files.
Local Open Scope Z_scope.

(* for a file made of lines each ended by a line break, WHILE NOT EOF ... READFILE delivers exactly the
   lines, once each; nothing for the empty file *)
Theorem C15_read_loop : forall ls fuel, Forall no_nl ls -> (List.length ls < fuel)%nat ->
  read_loop fuel (rd (text_of_lines ls)) = ls.
Proof. exact read_loop_lines. Qed.
Print Assumptions C15_read_loop.

Theorem C15_read_loop_unterminated_last_line : forall ls last fuel,
  Forall no_nl ls -> no_nl last -> last <> [] -> (S (List.length ls) < fuel)%nat ->
  read_loop fuel (rd (text_of_lines ls ++ last)) = ls ++ [last].
Proof. exact read_loop_unterminated_last. Qed.
Print Assumptions C15_read_loop_unterminated_last_line.

Theorem C15_eof_exact : forall content, tf_eof (rd content) = true <-> content = [].
Proof. exact eof_exact. Qed.
Print Assumptions C15_eof_exact.

Theorem C15_readfile_one_line : forall l rest0, no_nl l -> file_read_line (rd (l ++ ch_nl :: rest0)) = (l, rd rest0).
Proof. exact read_line_terminated. Qed.
Print Assumptions C15_readfile_one_line.

Example C15_empty_file_reads_nothing : read_loop 5 (rd []) = [] /\
  read_loop 5 (rd (str_of_string "a
b
")) = [str_of_string "a"; str_of_string "b"].
Proof. vm_compute. split; reflexivity. Qed.
