(* Lemmas_FuelRun.v — the launcher inherits fuel monotonicity: a run that did not stop for lack of fuel is the
   run with any larger fuel. *)
From PE2 Require Import Run Lemmas_Fuel.
Local Open Scope Z_scope.

Section Main.
Variables (ped : bool) (lim : limits).

Lemma run_main_fuel_step fuel repl b root s :
  run_main ped lim fuel repl b root s = run_main ped lim (S fuel) repl b root s \/
  exists s', run_main ped lim fuel repl b root s = (EAbort SFuel, s').
Proof.
  unfold run_main. destruct (run_block_fuel_step ped repl lim fuel b root s) as [E|[s' E]].
  - rewrite E. left. reflexivity.
  - rewrite E. right. exists s'. reflexivity.
Qed.

Theorem run_file_fuel_step fuel content stdin fs rnd :
  run_file ped lim fuel content stdin fs rnd = run_file ped lim (S fuel) content stdin fs rnd \/
  ob_status (run_file ped lim fuel content stdin fs rnd) = SFuel.
Proof.
  unfold run_file, run_source. destruct (lex ped (content ++ [ch_nl])) as [toks|e]; [|left; reflexivity].
  destruct (parse_program ped toks) as [b ps|k t ps|]; [|left; reflexivity|left; reflexivity].
  cbv zeta. destruct (run_main_fuel_step fuel false b root_id (emit_warnings (p_warns ps) (init_state stdin fs rnd))) as [E|[s' E]].
  - rewrite E. left. reflexivity.
  - rewrite E. right. reflexivity.
Qed.

Theorem run_file_fuel_monotone fuel more content stdin fs rnd :
  ob_status (run_file ped lim fuel content stdin fs rnd) <> SFuel ->
  run_file ped lim (fuel + more) content stdin fs rnd = run_file ped lim fuel content stdin fs rnd.
Proof.
  intros H. induction more as [|m IH]; [rewrite Nat.add_0_r; reflexivity|].
  rewrite Nat.add_succ_r. destruct (run_file_fuel_step (fuel + m) content stdin fs rnd) as [E|E].
  - rewrite <- E. exact IH.
  - rewrite IH in E. contradiction.
Qed.
End Main.
