(* Lemmas_LexShift.v — lines inserted above a text move every position below them by exactly their number and change
   nothing else.  The lexer is run from two states that differ only in the line counter (by n), in what was read before
   (nothing, or line breaks) and in the tokens already produced (the second run has n more LINE_END tokens in front):
   step by step the two runs read the same characters, take the same branches and produce the same tokens with the same
   columns and the line numbers n apart; a lexical error is reported n lines further down and is otherwise the same. *)
From PE2 Require Import Lexer Lemmas_Lexer.
Require Import Lia.
Local Open Scope Z_scope.

Definition shift_tok (n : Z) (t : token) : token := mkTok (tt t) (tline t + n) (tcol t) (tval t).
Definition shift_err (n : Z) (e : lexerr) : lexerr := mkLexErr (le_kind e) (le_line e + n) (le_col e).

(* the states of the two runs *)
Record rel (n : Z) (s s' : lst) : Prop := mkRel {
  r_rest : rest s' = rest s;
  r_stale : rest s = [] -> stale s' = stale s;
  r_line : line s' = line s + n;
  r_col : col s' = col s;
  r_prev : prevc s' = prevc s \/ prevc s = None }.

Lemma rel_curc n s s' : rel n s s' -> curc s' = curc s.
Proof. intros [H1 H2 _ _ _]. unfold curc. rewrite H1. destruct (rest s); [apply H2; reflexivity|reflexivity]. Qed.
Lemma rel_at_end n s s' : rel n s s' -> at_end s' = at_end s.
Proof. intros [H1 _ _ _ _]. unfold at_end. rewrite H1. reflexivity. Qed.

Lemma rel_advance1 n s s' : rel n s s' -> rel n (advance s) (advance s').
Proof.
  intros H. pose proof (rel_curc n s s' H) as Hc. destruct H as [H1 H2 H3 H4 H5]. unfold advance. rewrite Hc, H1, H3, H4.
  destruct (rest s) as [|x [|y r]]; cbn [rest stale line col prevc];
    (constructor; cbn [rest stale line col prevc]; try reflexivity; try discriminate; try exact H5; try (left; reflexivity); destruct (aeqb (curc s) ch_nl); lia).
Qed.
Lemma rel_advance_n n k : forall s s', rel n s s' -> rel n (advance_n k s) (advance_n k s').
Proof. induction k as [|k IH]; intros s s' H; cbn [advance_n]; [exact H|]. apply IH. apply rel_advance1. exact H. Qed.

(* ---- the loops of the sub-lexers ---- *)
Lemma word_loop_rel n fuel : forall s s' acc, rel n s s' ->
  rel n (fst (word_loop fuel s acc)) (fst (word_loop fuel s' acc)) /\ snd (word_loop fuel s' acc) = snd (word_loop fuel s acc).
Proof.
  induction fuel as [|f IH]; intros s s' acc H; cbn [word_loop]; [split; [exact H|reflexivity]|].
  rewrite (rel_at_end n s s' H), (rel_curc n s s' H). destruct (at_end s); [split; [exact H|reflexivity]|].
  destruct (is_alnum (curc s) || aeqb (curc s) "_"); [apply IH; apply rel_advance1; exact H|split; [exact H|reflexivity]].
Qed.
Lemma number_loop_rel n fuel : forall s s' d acc, rel n s s' ->
  let '(s1, d1, t1) := number_loop fuel s d acc in let '(s1', d1', t1') := number_loop fuel s' d acc in
  rel n s1 s1' /\ d1' = d1 /\ t1' = t1.
Proof.
  induction fuel as [|f IH]; intros s s' d acc H; cbn [number_loop]; [auto|].
  rewrite (rel_at_end n s s' H), (rel_curc n s s' H). destruct (at_end s); [auto|].
  destruct (aeqb (curc s) "." && negb d); [apply IH; apply rel_advance1; exact H|].
  destruct (is_digit (curc s)); [apply IH; apply rel_advance1; exact H|auto].
Qed.
Lemma digits_loop_rel n fuel : forall s s' acc, rel n s s' ->
  rel n (fst (digits_loop fuel s acc)) (fst (digits_loop fuel s' acc)) /\ snd (digits_loop fuel s' acc) = snd (digits_loop fuel s acc).
Proof.
  induction fuel as [|f IH]; intros s s' acc H; cbn [digits_loop]; [split; [exact H|reflexivity]|].
  rewrite (rel_at_end n s s' H), (rel_curc n s s' H).
  destruct (negb (at_end s) && is_digit (curc s)); [apply IH; apply rel_advance1; exact H|split; [exact H|reflexivity]].
Qed.
Lemma string_loop_rel n fuel : forall s s' acc, rel n s s' ->
  match string_loop fuel s acc, string_loop fuel s' acc with
  | inl (s1, a1), inl (s1', a1') => rel n s1 s1' /\ a1' = a1
  | inr e, inr e' => e' = shift_err n e
  | _, _ => False
  end.
Proof.
  induction fuel as [|f IH]; intros s s' acc H; cbn [string_loop]; [auto|].
  rewrite (rel_at_end n s s' H), (rel_curc n s s' H). destruct (aeqb (curc s) ch_dquote || at_end s); [auto|].
  destruct (aeqb (curc s) ch_bslash).
  - pose proof (rel_advance1 n s s' H) as H1. rewrite (rel_curc n _ _ H1). destruct (esc_seq (curc (advance s))).
    + apply IH. apply rel_advance1. exact H1.
    + unfold shift_err. cbn. destruct H1 as [_ _ L C _]. rewrite L, C. reflexivity.
  - apply IH. apply rel_advance1. exact H.
Qed.
Lemma skip_comment_rel n fuel : forall s s', rel n s s' -> rel n (skip_comment fuel s) (skip_comment fuel s').
Proof.
  induction fuel as [|f IH]; intros s s' H; cbn [skip_comment]; [exact H|].
  rewrite (rel_at_end n s s' H), (rel_curc n s s' H). destruct (negb (at_end s) && negb (aeqb (curc s) ch_nl)); [apply IH; apply rel_advance1; exact H|exact H].
Qed.

(* ---- after the first character has been read, "what was read before" is known ---- *)
Definition seen (s : lst) : Prop := prevc s <> None.
Lemma seen_advance s : rest s <> [] \/ seen s -> seen (advance s).
Proof. unfold seen, advance. destruct (rest s) as [|x [|y r]]; cbn [prevc]; intros [H|H]; try discriminate; try contradiction; exact H. Qed.
Lemma seen_word_loop fuel : forall s acc, seen s -> seen (fst (word_loop fuel s acc)).
Proof.
  induction fuel as [|f IH]; intros s acc H; cbn [word_loop]; [exact H|]. destruct (at_end s); [exact H|].
  destruct (is_alnum (curc s) || aeqb (curc s) "_"); [apply IH; apply seen_advance; auto|exact H].
Qed.
Lemma seen_number_loop fuel : forall s d acc, seen s -> seen (fst (fst (number_loop fuel s d acc))).
Proof.
  induction fuel as [|f IH]; intros s d acc H; cbn [number_loop]; [exact H|]. destruct (at_end s); [exact H|].
  destruct (aeqb (curc s) "." && negb d); [apply IH; apply seen_advance; auto|].
  destruct (is_digit (curc s)); [apply IH; apply seen_advance; auto|exact H].
Qed.
Lemma seen_digits_loop fuel : forall s acc, seen s -> seen (fst (digits_loop fuel s acc)).
Proof.
  induction fuel as [|f IH]; intros s acc H; cbn [digits_loop]; [exact H|].
  destruct (negb (at_end s) && is_digit (curc s)); [apply IH; apply seen_advance; auto|exact H].
Qed.
Lemma seen_string_loop fuel : forall s acc s1 a1, seen s -> string_loop fuel s acc = inl (s1, a1) -> seen s1.
Proof.
  induction fuel as [|f IH]; intros s acc s1 a1 H E; cbn [string_loop] in E; [inversion E; subst; exact H|].
  destruct (aeqb (curc s) ch_dquote || at_end s); [inversion E; subst; exact H|].
  destruct (aeqb (curc s) ch_bslash).
  - destruct (esc_seq (curc (advance s))); [|discriminate]. eapply IH; [|exact E]. apply seen_advance. right. apply seen_advance. auto.
  - eapply IH; [|exact E]. apply seen_advance. auto.
Qed.
Lemma seen_skip_comment fuel : forall s, seen s -> seen (skip_comment fuel s).
Proof.
  induction fuel as [|f IH]; intros s H; cbn [skip_comment]; [exact H|].
  destruct (negb (at_end s) && negb (aeqb (curc s) ch_nl)); [apply IH; apply seen_advance; auto|exact H].
Qed.
Lemma seen_advance_n k : forall s, seen s -> seen (advance_n k s).
Proof. induction k as [|k IH]; intros s H; cbn [advance_n]; [exact H|]. apply IH. apply seen_advance. auto. Qed.

(* ---- results of one step ---- *)
Definition toks_rel (n : Z) (pre toks toks' : list token) : Prop := toks' = map (shift_tok n) toks ++ pre.
Definition lres_rel (n : Z) (pre : list token) (x x' : lres) : Prop :=
  match x, x' with
  | LOk s t, LOk s' t' => rel n s s' /\ toks_rel n pre t t'
  | LErr e, LErr e' => e' = shift_err n e
  | _, _ => False
  end.

Lemma push_rel n pre s s' t t' k c v : rel n s s' -> toks_rel n pre t t' ->
  toks_rel n pre (mkTok k (line s) c v :: t) (mkTok k (line s') c v :: t').
Proof. intros [_ _ L _ _] Ht. unfold toks_rel in *. cbn [map app]. unfold shift_tok at 1. cbn. rewrite L, Ht. reflexivity. Qed.
Lemma err_rel n s s' k c : rel n s s' -> mkLexErr k (line s') c = shift_err n (mkLexErr k (line s) c).
Proof. intros [_ _ L _ _]. unfold shift_err. cbn. rewrite L. reflexivity. Qed.

Lemma make_word_shift n pre ped s s' t t' : rel n s s' -> toks_rel n pre t t' ->
  lres_rel n pre (make_word ped s t) (make_word ped s' t').
Proof.
  intros H Ht. unfold make_word. pose proof (word_loop_rel n (S (List.length (rest s))) s s' [] H) as [H1 H2].
  rewrite (r_rest n s s' H), (r_col n s s' H).
  destruct (word_loop (S (List.length (rest s))) s []) as [s1 w] eqn:E1. destruct (word_loop (S (List.length (rest s))) s' []) as [s1' w'] eqn:E1'.
  cbn [fst snd] in H1, H2. subst w'. cbv zeta.
  destruct (lookup_kw w keywords) as [k|]; [|destruct (is_data_type_word w); (split; [exact H1|apply push_rel; assumption])].
  destruct k; try (split; [exact H1|apply push_rel; assumption]);
    (destruct ped; [apply err_rel; exact H1|split; [exact H1|apply push_rel; assumption]]).
Qed.

Lemma make_string_shift n pre s s' t t' : rel n s s' -> toks_rel n pre t t' ->
  lres_rel n pre (make_string s t) (make_string s' t').
Proof.
  intros H Ht. unfold make_string. cbv zeta. pose proof (rel_advance1 n s s' H) as H1.
  rewrite (r_rest n _ _ H1), (r_col n s s' H).
  pose proof (string_loop_rel n (S (List.length (rest (advance s)))) _ _ [] H1) as HS.
  destruct (string_loop (S (List.length (rest (advance s)))) (advance s) []) as [[s2 a2]|e];
  destruct (string_loop (S (List.length (rest (advance s)))) (advance s') []) as [[s2' a2']|e']; try contradiction; [|exact HS].
  destruct HS as [H2 ->]. rewrite (rel_at_end n _ _ H2), (rel_curc n _ _ H2).
  destruct (at_end s2 || negb (aeqb (curc s2) ch_dquote)).
  - rewrite (r_col n _ _ H2). apply err_rel. exact H2.
  - pose proof (rel_advance1 n _ _ H2) as H3. split; [exact H3|apply push_rel; assumption].
Qed.

Lemma make_char_shift n pre s s' t t' : rel n s s' -> toks_rel n pre t t' ->
  lres_rel n pre (make_char s t) (make_char s' t').
Proof.
  intros H Ht. unfold make_char. rewrite (r_rest n s s' H), (r_col n s s' H).
  destruct (Nat.ltb (List.length (rest s)) 3); [apply err_rel; exact H|]. cbv zeta.
  pose proof (rel_advance1 n s s' H) as H1. rewrite (rel_curc n _ _ H1).
  destruct (aeqb (curc (advance s)) ch_bslash).
  - pose proof (rel_advance1 n _ _ H1) as H2. rewrite (rel_curc n _ _ H2).
    destruct (esc_seq (curc (advance (advance s)))) as [c|].
    + rewrite (r_rest n _ _ H2). destruct (rest (advance (advance s))) as [|x [|q r]]; try (rewrite (r_col n _ _ H2); apply err_rel; exact H2).
      destruct (aeqb q ch_quote); [|rewrite (r_col n _ _ H2); apply err_rel; exact H2].
      pose proof (rel_advance1 n _ _ (rel_advance1 n _ _ H2)) as H4. split; [exact H4|apply push_rel; assumption].
    + rewrite (r_col n _ _ H2). apply err_rel. exact H2.
  - destruct (aeqb (curc (advance s)) ch_quote); [rewrite (r_col n _ _ H1); apply err_rel; exact H1|].
    rewrite (r_rest n _ _ H1). destruct (rest (advance s)) as [|x [|q r]]; try (rewrite (r_col n _ _ H1); apply err_rel; exact H1).
    destruct (aeqb q ch_quote); [|rewrite (r_col n _ _ H1); apply err_rel; exact H1].
    pose proof (rel_advance1 n _ _ (rel_advance1 n _ _ H1)) as H4. split; [exact H4|apply push_rel; assumption].
Qed.

Lemma make_number_shift n pre s s' t t' : rel n s s' -> toks_rel n pre t t' ->
  lres_rel n pre (make_number s t) (make_number s' t').
Proof.
  intros H Ht. unfold make_number. rewrite (r_rest n s s' H), (r_col n s s' H). cbv zeta.
  pose proof (number_loop_rel n (S (List.length (rest s))) s s' false [] H) as HN.
  destruct (number_loop (S (List.length (rest s))) s false []) as [[s1 d1] t1].
  destruct (number_loop (S (List.length (rest s))) s' false []) as [[s1' d1'] t1'].
  destruct HN as [H1 [-> ->]]. rewrite (rel_curc n _ _ H1).
  destruct (negb (aeqb (curc s1) "/") || d1); [split; [exact H1|apply push_rel; assumption]|].
  unfold get_next_char. rewrite (r_rest n _ _ H1).
  match goal with |- context [if ?b then _ else _] => destruct b end; [split; [exact H1|apply push_rel; assumption]|].
  pose proof (rel_advance_n n (S (S (count_digits_from (tl (rest s1))))) _ _ H1) as H2.
  rewrite (r_rest n _ _ H2).
  pose proof (digits_loop_rel n (S (List.length (rest (advance_n (S (S (count_digits_from (tl (rest s1))))) s1)))) _ _ [] H2) as [H3 H4].
  destruct (digits_loop _ (advance_n _ s1) []) as [s3 y]. destruct (digits_loop _ (advance_n _ s1') []) as [s3' y'].
  cbn [fst snd] in H3, H4. subst y'. split; [exact H3|apply push_rel; assumption].
Qed.

Definition plain (pre : list token) : Prop := Forall (fun t => io_keyword (tt t) = false) pre.

Lemma head_io n pre t t' : toks_rel n pre t t' -> plain pre -> (t <> [] \/ True) ->
  match t with x :: _ => match t' with y :: _ => tt y = tt x | [] => False end | [] => match t' with y :: _ => io_keyword (tt y) = false | [] => True end end.
Proof.
  intros Ht Hp _. unfold toks_rel in Ht. subst t'. destruct t as [|x r]; cbn [map app].
  - destruct pre as [|y q]; [exact I|]. inversion Hp; assumption.
  - reflexivity.
Qed.

Lemma lex_step_shift n pre ped s s' t t' : rel n s s' -> toks_rel n pre t t' -> plain pre -> (prevc s = None -> t = []) ->
  lres_rel n pre (lex_step ped s t) (lex_step ped s' t').
Proof.
  intros H Ht Hp Hinv. unfold lex_step. rewrite (rel_curc n s s' H). cbv zeta.
  pose proof (rel_advance1 n s s' H) as H1.
  destruct (simple_tok (curc s)) as [k|].
  { split; [exact H1|]. rewrite (r_col n s s' H). apply push_rel; assumption. }
  destruct (aeqb (curc s) "/").
  { rewrite (rel_at_end n _ _ H1), (rel_curc n _ _ H1). destruct (at_end (advance s) || negb (aeqb (curc (advance s)) "/")).
    - split; [exact H1|]. rewrite (r_col n _ _ H1). apply push_rel; assumption.
    - rewrite (r_rest n _ _ H1). split; [apply skip_comment_rel; exact H1|exact Ht]. }
  destruct (aeqb (curc s) "(").
  { assert (B : match prevc s', t' with Some p, x :: _ => negb (aeqb p ch_space) && negb (aeqb p ch_tab) && io_keyword (tt x) | _, _ => false end =
                match prevc s, t with Some p, x :: _ => negb (aeqb p ch_space) && negb (aeqb p ch_tab) && io_keyword (tt x) | _, _ => false end).
    { pose proof (head_io n pre t t' Ht Hp (or_intror I)) as Hh. destruct (r_prev n s s' H) as [E|E].
      - rewrite E. destruct (prevc s) as [p|]; [|reflexivity]. destruct t as [|x r]; destruct t' as [|y r']; try contradiction; try reflexivity.
        + rewrite Hh. apply andb_false_r.
        + rewrite Hh. reflexivity.
      - rewrite E. rewrite (Hinv E) in *. destruct (prevc s') as [p|]; [|reflexivity]. destruct t' as [|y r']; [reflexivity|]. rewrite Hh. apply andb_false_r. }
    rewrite B. match goal with |- context [if ?b then _ else _] => destruct b end.
    - rewrite (r_col n s s' H). apply err_rel. exact H.
    - split; [exact H1|]. rewrite (r_col n s s' H). apply push_rel; assumption. }
  destruct (aeqb (curc s) "=").
  { rewrite (rel_at_end n _ _ H1), (rel_curc n _ _ H1), (r_col n _ _ H1). destruct (at_end (advance s) || negb (aeqb (curc (advance s)) "=")).
    - split; [exact H1|]. apply push_rel; assumption.
    - apply err_rel. exact H1. }
  destruct (aeqb (curc s) ch_quote); [apply make_char_shift; assumption|].
  destruct (aeqb (curc s) ch_dquote); [apply make_string_shift; assumption|].
  destruct (aeqb (curc s) ">").
  { rewrite (rel_at_end n _ _ H1), (rel_curc n _ _ H1), (r_col n _ _ H1). destruct (at_end (advance s) || negb (aeqb (curc (advance s)) "=")).
    - split; [exact H1|]. apply push_rel; assumption.
    - split; [apply rel_advance1; exact H1|]. apply push_rel; assumption. }
  destruct (aeqb (curc s) "<").
  { rewrite (rel_at_end n _ _ H1), (rel_curc n _ _ H1), (r_col n _ _ H1).
    repeat match goal with |- context [if ?b then _ else _] => destruct b end;
      (split; [first [exact H1|apply rel_advance1; exact H1]|apply push_rel; assumption]). }
  destruct (is_alpha (curc s)); [apply make_word_shift; assumption|].
  destruct (is_digit (curc s)); [apply make_number_shift; assumption|].
  destruct (aeqb (curc s) ch_space || aeqb (curc s) ch_tab).
  - split; [exact H1|exact Ht].
  - rewrite (r_col n s s' H). apply err_rel. exact H.
Qed.

Ltac sa S1 := first [exact S1 | apply seen_advance; right; sa S1].

(* every step that succeeds has read at least one character: afterwards "what was read before" is known *)
Lemma lex_step_seen ped s t s1 t1 : at_end s = false -> lex_step ped s t = LOk s1 t1 -> seen s1.
Proof.
  intros Hne E. assert (Hr : rest s <> []) by (unfold at_end in Hne; destruct (rest s); [discriminate|discriminate]).
  pose proof (seen_advance s (or_introl Hr)) as S1. unfold lex_step in E. cbv zeta in E.
  destruct (simple_tok (curc s)); [inversion E; subst; exact S1|].
  destruct (aeqb (curc s) "/").
  { destruct (at_end (advance s) || negb (aeqb (curc (advance s)) "/")); [inversion E; subst; exact S1|].
    injection E as <- _. change (seen (skip_comment (S (List.length (rest (advance s)))) (advance s))). apply seen_skip_comment. exact S1. }
  destruct (aeqb (curc s) "(").
  { match type of E with (if ?b then _ else _) = _ => destruct b end; [discriminate|inversion E; subst; exact S1]. }
  destruct (aeqb (curc s) "=").
  { destruct (at_end (advance s) || negb (aeqb (curc (advance s)) "=")); [inversion E; subst; exact S1|discriminate]. }
  destruct (aeqb (curc s) ch_quote).
  { unfold make_char in E. destruct (Nat.ltb _ 3); [discriminate|]. cbv zeta in E.
    destruct (aeqb (curc (advance s)) ch_bslash).
    - destruct (esc_seq (curc (advance (advance s)))); [|discriminate].
      destruct (rest (advance (advance s))) as [|x [|q r]]; try discriminate. destruct (aeqb q ch_quote); [|discriminate].
      inversion E; subst. sa S1.
    - destruct (aeqb (curc (advance s)) ch_quote); [discriminate|].
      destruct (rest (advance s)) as [|x [|q r]]; try discriminate. destruct (aeqb q ch_quote); [|discriminate].
      inversion E; subst. sa S1. }
  destruct (aeqb (curc s) ch_dquote).
  { unfold make_string in E. cbv zeta in E. destruct (string_loop _ (advance s) []) as [[s2 a2]|e] eqn:ES; [|discriminate].
    destruct (at_end s2 || negb (aeqb (curc s2) ch_dquote)); [discriminate|]. inversion E; subst.
    apply seen_advance; right. eapply seen_string_loop; [exact S1|exact ES]. }
  destruct (aeqb (curc s) ">").
  { destruct (at_end (advance s) || negb (aeqb (curc (advance s)) "=")); inversion E; subst; [exact S1|apply seen_advance; right; exact S1]. }
  destruct (aeqb (curc s) "<").
  { repeat match type of E with (if ?b then _ else _) = _ => destruct b end; inversion E; subst; first [exact S1|apply seen_advance; right; exact S1]. }
  destruct (is_alpha (curc s)) eqn:Ea.
  { unfold make_word in E. destruct (word_loop (S (List.length (rest s))) s []) as [s2 w] eqn:EW. cbv zeta in E.
    assert (S2 : seen s2).
    { cbn [word_loop] in EW. rewrite Hne in EW. assert (Hal : is_alnum (curc s) || aeqb (curc s) "_" = true) by (unfold is_alnum; rewrite Ea; reflexivity).
      rewrite Hal in EW. pose proof (seen_word_loop (List.length (rest s)) (advance s) [curc s] S1) as X. rewrite EW in X. exact X. }
    destruct (lookup_kw w keywords) as [k|]; [|destruct (is_data_type_word w); inversion E; subst; exact S2].
    destruct k; try (inversion E; subst; exact S2); (destruct ped; [discriminate|inversion E; subst; exact S2]). }
  destruct (is_digit (curc s)) eqn:Ed.
  { unfold make_number in E. cbv zeta in E. destruct (number_loop (S (List.length (rest s))) s false []) as [[s2 d2] t2] eqn:EN.
    assert (S2 : seen s2).
    { cbn [number_loop] in EN. rewrite Hne in EN.
      destruct (aeqb (curc s) "." && negb false) eqn:Edot.
      - pose proof (seen_number_loop (List.length (rest s)) (advance s) true [curc s] S1) as X. rewrite EN in X. exact X.
      - rewrite Ed in EN. pose proof (seen_number_loop (List.length (rest s)) (advance s) false [curc s] S1) as X. rewrite EN in X. exact X. }
    destruct (negb (aeqb (curc s2) "/") || d2); [inversion E; subst; exact S2|].
    match type of E with (if ?b then _ else _) = _ => destruct b end; [inversion E; subst; exact S2|].
    match type of E with context [digits_loop ?f ?st []] =>
      pose proof (seen_digits_loop f st [] (seen_advance_n _ _ S2)) as X; destruct (digits_loop f st []) as [s3 y] end.
    inversion E; subst. exact X. }
  destruct (aeqb (curc s) ch_space || aeqb (curc s) ch_tab); [inversion E; subst; exact S1|discriminate].
Qed.

Lemma lex_loop_shift n pre ped fuel : forall s s' t t', rel n s s' -> toks_rel n pre t t' -> plain pre -> (prevc s = None -> t = []) ->
  lres_rel n pre (lex_loop fuel ped s t) (lex_loop fuel ped s' t').
Proof.
  induction fuel as [|f IH]; intros s s' t t' H Ht Hp Hinv; cbn [lex_loop]; [split; assumption|].
  rewrite (rel_at_end n s s' H). destruct (at_end s) eqn:Ee; [split; assumption|].
  pose proof (lex_step_shift n pre ped s s' t t' H Ht Hp Hinv) as HS.
  destruct (lex_step ped s t) as [s1 t1|e] eqn:E1; destruct (lex_step ped s' t') as [s1' t1'|e']; try contradiction; [|exact HS].
  destruct HS as [H1 Ht1]. apply IH; try assumption.
  intros En. exfalso. exact (lex_step_seen ped s t s1 t1 Ee E1 En).
Qed.

(* ---- n line breaks in front of a text ---- *)
Fixpoint line_ends (k : nat) (l : Z) : list token :=        (* most recent first: lines l+k-1, ..., l *)
  match k with O => [] | S j => line_ends j (l + 1) ++ [mkTok TLINE_END l 1 []] end.
Lemma line_ends_plain k : forall l, plain (line_ends k l).
Proof. induction k as [|j IH]; intros l; cbn [line_ends]; [constructor|]. apply Forall_app. split; [apply IH|constructor; [reflexivity|constructor]]. Qed.

Lemma line_ends_head k : forall l, line_ends (S k) l = mkTok TLINE_END (l + Z.of_nat k) 1 [] :: line_ends k l.
Proof.
  induction k as [|k IH]; intros l; [cbn; rewrite Z.add_0_r; reflexivity|].
  change (line_ends (S (S k)) l) with (line_ends (S k) (l + 1) ++ [mkTok TLINE_END l 1 []]). rewrite IH. cbn [app line_ends].
  f_equal. f_equal. lia.
Qed.

Lemma simple_tok_nl : simple_tok ch_nl = Some TLINE_END.
Proof. reflexivity. Qed.

Lemma lex_loop_newlines ped c r : forall k f x l p toks,
  exists x' p', lex_loop (k + f) ped (mkLst (repeat ch_nl k ++ c :: r) x l 1 p) toks =
                lex_loop f ped (mkLst (c :: r) x' (l + Z.of_nat k) 1 p') (line_ends k l ++ toks).
Proof.
  induction k as [|j IH]; intros f x l p toks.
  - exists x, p. cbn [repeat app line_ends plus Z.of_nat]. rewrite Z.add_0_r. reflexivity.
  - cbn [repeat app plus lex_loop]. unfold at_end. cbn [rest].
    unfold lex_step. cbn [curc rest]. rewrite simple_tok_nl. cbv zeta. cbn [line col].
    assert (A : advance (mkLst (ch_nl :: repeat ch_nl j ++ c :: r) x l 1 p) = mkLst (repeat ch_nl j ++ c :: r) ch_nl (l + 1) 1 (Some ch_nl)).
    { unfold advance. cbn [curc rest line col prevc]. change (aeqb ch_nl ch_nl) with true. cbv iota.
      destruct (repeat ch_nl j ++ c :: r) as [|y q] eqn:E; [destruct j; discriminate|]. reflexivity. }
    rewrite A. destruct (IH f ch_nl (l + 1) (Some ch_nl) (mkTok TLINE_END l 1 [] :: toks)) as [x' [p' E]].
    exists x', p'. rewrite E. cbn [line_ends]. rewrite <- app_assoc. cbn [app].
    replace (l + 1 + Z.of_nat j) with (l + Z.of_nat (S j)) by lia. reflexivity.
Qed.

Lemma remove_cr_newlines k t : remove_cr (repeat ch_nl k ++ t) = repeat ch_nl k ++ remove_cr t.
Proof. induction k as [|j IH]; [reflexivity|]. cbn [repeat app]. unfold remove_cr in *. cbn [filter]. change (aeqb ch_nl ch_cr) with false. cbn [negb]. rewrite IH. reflexivity. Qed.

(* the theorem: n blank lines above a text *)
Theorem blank_lines_above ped n text :
  match lex ped text with
  | inl toks => lex ped (repeat ch_nl n ++ text) = inl (rev (line_ends n 1) ++ map (shift_tok (Z.of_nat n)) toks)
  | inr e => lex ped (repeat ch_nl n ++ text) = inr (shift_err (Z.of_nat n) e)
  end.
Proof.
  unfold lex. rewrite remove_cr_newlines. set (src := remove_cr text). destruct src as [|c r] eqn:Es.
  - (* nothing but the line breaks *)
    rewrite app_nil_r. change (lex_loop (S (List.length (@nil ascii))) ped (init_lst []) []) with (LOk (init_lst []) []).
    destruct n as [|m]; [reflexivity|].
    assert (Hr : repeat ch_nl (S m) = repeat ch_nl m ++ [ch_nl]) by (clear; induction m as [|k IH]; [reflexivity|]; cbn [repeat app] in *; rewrite <- IH; reflexivity).
    rewrite Hr, app_length, repeat_length. cbn [List.length]. replace (S (m + 1)) with (m + 2)%nat by lia.
    assert (I0 : init_lst (repeat ch_nl m ++ [ch_nl]) = mkLst (repeat ch_nl m ++ [ch_nl]) ch_nl 1 1 None) by (destruct m; reflexivity).
    rewrite I0. destruct (lex_loop_newlines ped ch_nl [] m 2%nat ch_nl 1 None []) as [x' [p' E]]. rewrite E.
    cbn [lex_loop]. unfold at_end. cbn [rest]. unfold lex_step. cbn [curc rest]. rewrite simple_tok_nl. cbv zeta. cbn [line col].
    assert (A : advance (mkLst [ch_nl] x' (1 + Z.of_nat m) 1 p') = mkLst [] ch_nl (1 + Z.of_nat m + 1) 0 (Some ch_nl)) by reflexivity.
    rewrite A. cbn [rest line col init_lst]. f_equal.
    cbn [rev map app]. unfold shift_tok. cbn [tt tline tcol tval]. rewrite app_nil_r.
    rewrite (line_ends_head m 1). cbn [rev]. rewrite <- !app_assoc. cbn [app]. f_equal. f_equal. f_equal. f_equal. lia.
  - rewrite app_length, repeat_length. cbn [List.length].
    replace (S (n + S (List.length r))) with (n + S (S (List.length r)))%nat by lia.
    assert (I0 : init_lst (repeat ch_nl n ++ c :: r) = mkLst (repeat ch_nl n ++ c :: r) (match n with O => c | S _ => ch_nl end) 1 1 None).
    { destruct n; reflexivity. }
    rewrite I0. destruct (lex_loop_newlines ped c r n (S (S (List.length r))) (match n with O => c | S _ => ch_nl end) 1 None []) as [x' [p' E]].
    rewrite E. rewrite app_nil_r.
    set (s0 := init_lst (c :: r)). set (s0' := mkLst (c :: r) x' (1 + Z.of_nat n) 1 p').
    assert (R0 : rel (Z.of_nat n) s0 s0').
    { unfold s0, s0', init_lst. constructor; cbn [rest stale line col prevc]; try reflexivity; try discriminate; try lia. right. reflexivity. }
    pose proof (lex_loop_shift (Z.of_nat n) (line_ends n 1) ped (S (S (List.length r))) s0 s0' [] (line_ends n 1) R0 eq_refl (line_ends_plain n 1) (fun _ => eq_refl)) as HL.
    destruct (lex_loop (S (S (List.length r))) ped s0 []) as [s1 t1|e]; destruct (lex_loop (S (S (List.length r))) ped s0' (line_ends n 1)) as [s1' t1'|e']; try contradiction.
    + destruct HL as [H1 Ht]. unfold toks_rel in Ht. subst t1'. f_equal.
      cbn [rev]. rewrite rev_app_distr, map_app, map_rev. cbn [map]. unfold shift_tok at 2. cbn [tt tline tcol tval].
      rewrite (r_line _ _ _ H1), (r_col _ _ _ H1). rewrite <- app_assoc. reflexivity.
    + cbn in HL. rewrite HL. reflexivity.
Qed.
