(* Properties_C13.v — records written to a random file read back exactly.
   PARTIAL: proved for the byte-level heart of the codec -- STRING payloads of arbitrary bytes (line
   breaks, '#', blanks, empty) and CHAR fields of all 256 codes survive the marking of line breaks, and
   the marked form is line safe (which is what keeps logical records and physical lines apart).
   The numeric text forms (INTEGER decimal, REAL with 17 significant digits read back by a correctly
   rounded strtod), record and array framing, and the mismatch clause are compared with the
   implementation on exhaustive small alphabets, all 256 codes in every field position, boundary and
   random numbers and the record shapes of C07, in-session, after reopen and from a second process. *)
From PE2 Require Import Codec Lemmas_Codec.

Theorem C13_string_payload_roundtrip : forall s rest0,
  read_marked (List.length (mark_newlines s)) true ch_nul (mark_newlines s ++ rest0) [] = Some (s, rest0).
Proof. exact string_payload_roundtrip. Qed.
Print Assumptions C13_string_payload_roundtrip.

Theorem C13_dump_line_safe : forall s, line_safe (mark_newlines s) = true.
Proof. exact mark_newlines_line_safe. Qed.
Print Assumptions C13_dump_line_safe.

Theorem C13_char_field_roundtrip : forall c rest0 old,
  load (VChar old) (str_of_string "CHAR " ++ [c] ++ (if aeqb c ch_nl then [ch_hash] else []) ++ rest0) = (VChar c, rest0, true).
Proof. exact char_field_exact. Qed.
Print Assumptions C13_char_field_roundtrip.

Example C13_examples :
  dump (VStr (str_of_string "a
#b")) = Some (str_of_string "STRING 5 a
##b") /\
  load (VStr []) (str_of_string "STRING 5 a
##b") = (VStr (str_of_string "a
#b"), [], true) /\
  snd (load (VInt 0) (str_of_string "STRING 1 x")) = false.
Proof. vm_compute. repeat split; reflexivity. Qed.
