(* Properties_C13.v — records written to a random file read back exactly.
   Proved for the whole codec on value trees of any shape and depth whose leaves are INTEGER, BOOLEAN, CHAR,
   STRING, DATE and enumerated values (records of records, arrays inside records): load (dump v) = v, with
   nothing left over, for every such value; every such value can be dumped; STRING payloads of arbitrary
   bytes and CHAR fields of all 256 codes survive the marking of line breaks; the marked form is line safe.
   The file as a whole: every written value is one record whose line breaks are all followed by '#', and a file
   of such records, closed and opened again (or read by a later run), yields exactly the records written.
   PARTIAL (stated, not proved): REAL leaves -- the text form has 17 significant digits and is read back by a
   correctly rounded strtod; that round trip is compared with the implementation on boundary and random
   numbers.  Pointer fields are not stored (their dump is empty and they do not read back: the code's rule). *)
From PE2 Require Import Codec Lemmas_Codec Lemmas_Numerals Lemmas_CodecTree Lemmas_RecLines.
Local Open Scope Z_scope.

Theorem C13_string_payload_roundtrip : forall s rest0,
  read_marked (List.length (mark_newlines s)) true ch_nul (mark_newlines s ++ rest0) [] = Some (s, rest0).
Proof. exact string_payload_roundtrip. Qed.
Print Assumptions C13_string_payload_roundtrip.

Theorem C13_dump_line_safe : forall s, line_safe (mark_newlines s) = true.
Proof. exact mark_newlines_line_safe. Qed.
Print Assumptions C13_dump_line_safe.

Theorem C13_char_field_roundtrip : forall c rest0 old,
  load (VChar old) (str_of_string "CHAR " ++ [c] ++ (if aeqb c ch_nl then [ch_hash] else []) ++ rest0) = (VChar c, rest0, true).
Proof. exact char_field_exact. Qed.
Print Assumptions C13_char_field_roundtrip.

Theorem C13_record_roundtrip : forall v old dx, wf v -> shape old v -> dump v = Some dx -> load old dx = (v, [], true).
Proof. exact record_roundtrip. Qed.
Print Assumptions C13_record_roundtrip.

(* inside a longer line: whatever follows the value (nothing, or a blank and more fields) is left untouched *)
Theorem C13_value_roundtrip_in_context : forall v old dx rest, wf v -> shape old v -> dump v = Some dx ->
  (rest = [] \/ exists t, rest = ch_space :: t) -> load old (dx ++ rest) = (v, rest, true).
Proof. intros v old dx rest. exact (codec_exact (depth v) v (le_n _) old dx rest). Qed.
Print Assumptions C13_value_roundtrip_in_context.

Theorem C13_every_wellformed_value_is_written : forall v, wf v -> exists dx, dump v = Some dx.
Proof. intros v. exact (wf_dumps (depth v) v (le_n _)). Qed.
Print Assumptions C13_every_wellformed_value_is_written.

Theorem C13_integer_field_roundtrip : forall z rest old, int64_min <= z <= int64_max -> no_leading_digit rest ->
  load (VInt old) (str_of_string "INTEGER " ++ z_to_str z ++ rest) = (VInt z, rest, true).
Proof. exact int_field_roundtrip. Qed.
Print Assumptions C13_integer_field_roundtrip.

Theorem C13_decimal_numeral_roundtrip : forall lo hi z rest, lo <= z <= hi -> no_leading_digit rest ->
  rd_integer lo hi (z_to_str z ++ rest) = Some (z, rest).
Proof. exact rd_integer_z_to_str. Qed.
Print Assumptions C13_decimal_numeral_roundtrip.

(* a written value is a well-formed record of the file: line safe, not empty, not starting with '#' *)
Theorem C13_written_value_is_one_record : forall v dx, wf v -> dump v = Some dx ->
  line_safe dx = true /\ dx <> [] /\ starts_hash dx = false.
Proof. exact dump_is_record. Qed.
Print Assumptions C13_written_value_is_one_record.

(* the values written to a random file, in order, are the records found after CLOSEFILE and OPENFILE or by a later run *)
Theorem C13_file_of_values_survives_reopen : forall vs recs, Forall wf vs -> dump_all vs = Some recs ->
  load_records (store_records recs) = recs.
Proof. exact file_of_values_reopens. Qed.
Print Assumptions C13_file_of_values_survives_reopen.

(* non-vacuity: a record holding a record, an array of records and every scalar kind meets the premises *)
Definition c13_inner : vtree := VRec (str_of_string "Inner") [VInt (-42); VStr (str_of_string "two
lines")] [].
Definition c13_sample : vtree :=
  VRec (str_of_string "Outer") [VInt 9223372036854775807; VBool true; VChar ch_nl; VDate 29 2 2024; VEnum (str_of_string "Col") 3 2; c13_inner]
       [[c13_inner; c13_inner]; [VChar " "]].
Example C13_sample_wellformed : wf c13_sample /\ shape c13_sample c13_sample /\
  (match dump c13_sample with Some dx => match load c13_sample dx with (v, r, ok) => ok && match r with [] => true | _ => false end end | None => false end) = true.
Proof.
  split; [|split; [|vm_compute; reflexivity]]; cbn; unfold int64_min, int64_max, two63, two64, slen';
  repeat split; try discriminate; try (left; discriminate); try lia; try reflexivity; auto.
Qed.

Example C13_examples :
  dump (VStr (str_of_string "a
#b")) = Some (str_of_string "STRING 5 a
##b") /\
  load (VStr []) (str_of_string "STRING 5 a
##b") = (VStr (str_of_string "a
#b"), [], true) /\
  snd (load (VInt 0) (str_of_string "STRING 1 x")) = false.
Proof. vm_compute. repeat split; reflexivity. Qed.

Example C13_file_example :
  match dump_all [c13_sample; VStr (str_of_string "x
"); VChar ch_nl; c13_inner] with
  | Some recs => (4 <? Z.of_nat (List.length (split_lines (store_records recs)))) &&
                 (Z.of_nat (List.length (load_records (store_records recs))) =? 4)
  | None => false end = true.
Proof. vm_compute. reflexivity. Qed.
