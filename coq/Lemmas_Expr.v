(* Lemmas_Expr.v — integer arithmetic laws of the evaluator and the operator-precedence ladder of the parser. *)
From PE2 Require Import Parser Eval.
From Coq Require Import ZifyBool.
Local Open Scope Z_scope.

Lemma arith_plus a b : arith_int TPLUS a b = wrap64 (a + b).  Proof. reflexivity. Qed.
Lemma arith_minus a b : arith_int TMINUS a b = wrap64 (a - b). Proof. reflexivity. Qed.
Lemma arith_star a b : arith_int TSTAR a b = wrap64 (a * b).  Proof. reflexivity. Qed.

Definition exact_result (op : ttype) (a b : Z) : Z :=
  match op with TPLUS => a + b | TMINUS => a - b | _ => a * b end.
Lemma arith_exact_in_range op a b :
  (op = TPLUS \/ op = TMINUS \/ op = TSTAR) ->
  int64_min <= exact_result op a b <= int64_max -> arith_int op a b = exact_result op a b.
Proof. intros [H|[H|H]] Hr; subst op; cbn [arith_int exact_result] in *; apply wrap64_id; exact Hr. Qed.

Lemma divmod_law a b :
  b <> 0 -> ~ (a = int64_min /\ b = -1) -> int64_min <= a <= int64_max ->
  a = arith_int TDIV a b * b + arith_int TMOD a b /\ Z.abs (arith_int TMOD a b) < Z.abs b.
Proof.
  intros Hb Hmin Ha. cbn [arith_int]. destruct (b =? -1) eqn:E.
  - apply Z.eqb_eq in E. subst b. rewrite wrap64_id; [lia|]. unfold int64_min, int64_max, two63 in *. lia.
  - pose proof (Z.quot_rem' a b). pose proof (Z.rem_bound_abs a b Hb). split; lia.
Qed.

(* the DIV/MOD results themselves are 64-bit integers *)
Lemma div_in_range a b : b <> 0 -> int64_min <= a <= int64_max -> int64_min <= arith_int TDIV a b <= int64_max.
Proof.
  intros Hb Ha. cbn [arith_int]. destruct (b =? -1) eqn:E; [apply wrap64_in_range|].
  apply Z.eqb_neq in E.
  destruct (Z.eq_dec b 1) as [->|Hb1]; [rewrite Z.quot_1_r; exact Ha|].
  assert (H2 : 2 <= Z.abs b) by lia.
  assert (Hq : 2 * Z.abs (Z.quot a b) <= Z.abs a).
  { rewrite <- Z.quot_abs by lia. rewrite Z.quot_div_nonneg by lia.
    pose proof (Z.div_mod (Z.abs a) (Z.abs b) ltac:(lia)) as D.
    pose proof (Z.mod_pos_bound (Z.abs a) (Z.abs b) ltac:(lia)) as M.
    assert (0 <= Z.abs a / Z.abs b) by (apply Z.div_pos; lia). nia. }
  unfold int64_min, int64_max, two63 in *. lia.
Qed.

(* ---------------- precedence ladder: every ordered pair of binary operators ---------------- *)
Definition binops : list ttype :=
  [TSTAR; TSLASH; TDIV; TMOD; TPLUS; TMINUS; TAMPERSAND; TEQUALS; TNOT_EQUALS; TGREATER; TLESSER; TGREATER_EQUAL; TLESSER_EQUAL; TAND; TOR].

Definition level (t : ttype) : Z :=
  match t with
  | TSTAR | TSLASH | TDIV | TMOD => 5
  | TPLUS | TMINUS => 4
  | TAMPERSAND => 3
  | TEQUALS | TNOT_EQUALS | TGREATER | TLESSER | TGREATER_EQUAL | TLESSER_EQUAL => 2
  | TAND | TOR => 1
  | _ => 0
  end.

(* operator shape of a parsed expression, forgetting which node class carries it *)
Inductive shape := Leaf (v : str) | Bin (op : ttype) (l r : shape) | Other.
Fixpoint shape_of (n : node) : shape :=
  match n with
  | NInt t => Leaf (tval t)
  | NArith t l r | NCmp t l r | NLogic t l r | NCat t l r => Bin (tt t) (shape_of l) (shape_of r)
  | _ => Other
  end.

Definition tk (t : ttype) (v : string) : token := mkTok t 1 1 (str_of_string v).
Definition pair_tokens (o1 o2 : ttype) : list token :=
  [tk TINTEGER "1"; tk o1 ""; tk TINTEGER "2"; tk o2 ""; tk TINTEGER "3"; tk TEXPRESSION_END ""].

Definition expected (o1 o2 : ttype) : shape :=
  let a := Leaf (str_of_string "1") in let b := Leaf (str_of_string "2") in let c := Leaf (str_of_string "3") in
  if level o2 <=? level o1 then Bin o2 (Bin o1 a b) c else Bin o1 a (Bin o2 b c).

Definition parse_pair (ped : bool) (o1 o2 : ttype) : option shape :=
  match parse_eval ped 200 (mkPst (pair_tokens o1 o2) []) with
  | POk n s => if is_t s TEXPRESSION_END then Some (shape_of n) else None
  | _ => None
  end.

Definition shape_eqb (a b : shape) : bool.
Proof. refine ((fix go (a b : shape) : bool :=
  match a, b with
  | Leaf x, Leaf y => str_eqb x y
  | Bin o l r, Bin o' l' r' => tt_eqb o o' && go l l' && go r r'
  | Other, Other => true
  | _, _ => false end) a b). Defined.

Lemma shape_eqb_eq a b : shape_eqb a b = true -> a = b.
Proof.
  revert b; induction a as [x|o l IHl r IHr|]; intros [y|o' l' r'|]; cbn; try discriminate; auto.
  - intros H. apply str_eqb_eq in H. congruence.
  - rewrite !andb_true_iff. intros [[H1 H2] H3]. apply tt_eqb_eq in H1. apply IHl in H2. apply IHr in H3. congruence.
Qed.

Lemma precedence_sweep :
  forallb (fun o1 => forallb (fun o2 => forallb (fun ped =>
     match parse_pair ped o1 o2 with Some s => shape_eqb s (expected o1 o2) | None => false end) [false; true]) binops) binops = true.
Proof. vm_compute. reflexivity. Qed.

Lemma precedence_pairs o1 o2 ped : In o1 binops -> In o2 binops -> parse_pair ped o1 o2 = Some (expected o1 o2).
Proof.
  intros H1 H2. pose proof precedence_sweep as S. rewrite forallb_forall in S. specialize (S o1 H1).
  rewrite forallb_forall in S. specialize (S o2 H2). rewrite forallb_forall in S.
  assert (Hp : In ped [false; true]) by (destruct ped; cbn; auto).
  specialize (S ped Hp). destruct (parse_pair ped o1 o2) as [s|]; [|discriminate]. apply shape_eqb_eq in S. congruence.
Qed.

(* unary minus binds to the atom; NOT binds looser than comparison, tighter than AND/OR *)
Definition unary_tokens1 := [tk TMINUS ""; tk TINTEGER "1"; tk TSTAR ""; tk TINTEGER "2"; tk TEXPRESSION_END ""].
Definition unary_tokens2 := [tk TNOT ""; tk TINTEGER "1"; tk TEQUALS ""; tk TINTEGER "2"; tk TAND ""; tk TINTEGER "3"; tk TEXPRESSION_END ""].
Lemma unary_binding :
  (match parse_eval false 200 (mkPst unary_tokens1 []) with POk (NArith _ (NNeg _ (NInt _)) (NInt _)) _ => true | _ => false end) = true /\
  (match parse_eval false 200 (mkPst unary_tokens2 []) with POk (NLogic _ (NNot _ (NCmp _ (NInt _) (NInt _))) (NInt _)) _ => true | _ => false end) = true.
Proof. vm_compute. split; reflexivity. Qed.

(* ---------------- value and type of arithmetic on evaluated operands ---------------- *)
Definition rint (z : Z) : result := res_of KInt (PInt z).
Definition rreal (x : real) : result := res_of KReal (PReal x).

Section ArithResults.
Variable lim : limits.
Variables (t : token) (c : N) (s : st).

Lemma int_ops_exact a b :
  (tt t = TPLUS \/ tt t = TMINUS \/ tt t = TSTAR) ->
  eval_arith t c (rint a) (rint b) s = (Ok (rint (arith_int (tt t) a b)), s).
Proof. intros [H|[H|H]]; unfold eval_arith; rewrite H; reflexivity. Qed.

Lemma int_divmod a b :
  (tt t = TDIV \/ tt t = TMOD) -> b <> 0 ->
  eval_arith t c (rint a) (rint b) s = (Ok (rint (arith_int (tt t) a b)), s).
Proof.
  intros H Hb. apply Z.eqb_neq in Hb. destruct H as [H|H]; unfold eval_arith; rewrite H; cbn; rewrite Hb; reflexivity.
Qed.

Lemma slash_is_real a b :
  tt t = TSLASH -> b <> 0 ->
  eval_arith t c (rint a) (rint b) s = (Ok (rreal (rdiv (real_of_z a) (real_of_z b))), s).
Proof. intros H Hb. apply Z.eqb_neq in Hb. unfold eval_arith; rewrite H; cbn; rewrite Hb; reflexivity. Qed.

Lemma mixed_promotes_to_real a x :
  (tt t = TPLUS \/ tt t = TMINUS \/ tt t = TSTAR) ->
  exists y, eval_arith t c (rint a) (rreal x) s = (Ok (rreal y), s) /\ eval_arith t c (rreal x) (rint a) s = (Ok (rreal (match tt t with TPLUS => radd x (real_of_z a) | TMINUS => rsub x (real_of_z a) | _ => rmul x (real_of_z a) end)), s).
Proof.
  intros [H|[H|H]]; unfold eval_arith; rewrite H; cbn; eexists; split; reflexivity.
Qed.

Lemma div_of_reals_is_integer x y :
  tt t = TDIV -> is_rzero y = false ->
  eval_arith t c (rreal x) (rreal y) s = (Ok (rint (real_to_int64 (rfloor (rdiv x y)))), s).
Proof. intros H Hy. unfold eval_arith; rewrite H; cbn; rewrite Hy; reflexivity. Qed.

Definition yields_value {A} (o : outcome A * st) : Prop := match o with (Ok _, _) => True | _ => False end.
Definition is_rt_error_or_crash {A} (m : M A) : Prop := forall s0, ~ yields_value (m s0).

Lemma runtime_error_no_value {A} cls tk cx : @is_rt_error_or_crash A (runtime_error_cls cls tk cx).
Proof.
  intros s0. unfold runtime_error_cls, yields_value.
  destruct ((cx0 <- get_ctx cx;; rest <- trace_aux (S (x_depth cx0)) (x_parent cx0);; ret (mkDiag DRuntime (tline tk) (tcol tk) cls ((x_name cx0, tline tk, tcol tk) :: rest))) s0) as [[d|f] s1]; auto.
Qed.

Lemma zero_divisor_int a :
  (tt t = TSLASH \/ tt t = TDIV \/ tt t = TMOD) -> ~ yields_value (eval_arith t c (rint a) (rint 0) s).
Proof.
  intros [H|[H|H]]; unfold eval_arith; rewrite H; cbn; apply runtime_error_no_value.
Qed.

Lemma zero_divisor_real x y :
  (tt t = TSLASH \/ tt t = TDIV \/ tt t = TMOD) -> is_rzero y = true -> ~ yields_value (eval_arith t c (rreal x) (rreal y) s).
Proof.
  intros H Hy. destruct H as [H|[H|H]]; unfold eval_arith; rewrite H; cbn; rewrite Hy; apply runtime_error_no_value.
Qed.

(* operands that are neither numeric nor the enum +/- INTEGER form never produce a value *)
Lemma operand_rejection (l r : result) :
  (is_numeric (r_type l) && is_numeric (r_type r)) = false ->
  dt_is (r_type l) KEnum = false -> dt_is (r_type r) KEnum = false ->
  ~ yields_value (eval_arith t c l r s).
Proof.
  intros Hn Hl Hr. unfold eval_arith.
  assert (Sw : (dt_is (r_type l) KInt && dt_is (r_type r) KEnum) = false) by (rewrite Hr; apply andb_false_r).
  rewrite Sw. cbv zeta. rewrite Hl. cbn [andb].
  apply andb_false_iff in Hn. destruct Hn as [Hn|Hn]; rewrite Hn; cbn [negb orb]; [|rewrite orb_true_r]; apply runtime_error_no_value.
Qed.
End ArithResults.
