(* Lemmas_ParserFuel.v — the parser's fuel is only a bound: with one more unit of fuel every parse function gives the same
   result unless it had stopped for lack of fuel.  (Generated like Lemmas_PedParser.v: one lemma per parse function.) *)
From PE2 Require Import Parser.
Local Open Scope Z_scope.

Definition pf_rel {A} (x y : pres A) : Prop := x = y \/ x = PFuel.
Definition PF {A} (m1 m2 : P A) : Prop := forall s, pf_rel (m1 s) (m2 s).

Lemma PF_refl {A} (m : P A) : PF m m.
Proof. intros s. left. reflexivity. Qed.
Lemma pf_rel_bind {A B} (m1 m2 : P A) (k1 k2 : A -> P B) s :
  PF m1 m2 -> (forall a, PF (k1 a) (k2 a)) -> pf_rel (pbind m1 k1 s) (pbind m2 k2 s).
Proof.
  intros Hm Hk. unfold pbind. destruct (Hm s) as [E|E].
  - rewrite E. destruct (m2 s) as [a s1|k t s1|]; [apply Hk|left; reflexivity|left; reflexivity].
  - rewrite E. right. reflexivity.
Qed.
Lemma PF_bind {A B} (m1 m2 : P A) (k1 k2 : A -> P B) : PF m1 m2 -> (forall a, PF (k1 a) (k2 a)) -> PF (pbind m1 k1) (pbind m2 k2).
Proof. intros Hm Hk s. apply pf_rel_bind; assumption. Qed.

Lemma pf_rel_binloop n isop (sub1 sub2 : P node) mk : PF sub1 sub2 ->
  forall lft s, pf_rel (binloop n isop sub1 mk lft s) (binloop (S n) isop sub2 mk lft s).
Proof.
  intros Hs. induction n as [|k IH]; intros lft s; [right; reflexivity|].
  change (binloop (S k) isop sub1 mk lft s) with
    (let t := cur s in if isop (tt t) then match sub1 (adv s) with POk r s' => binloop k isop sub1 mk (mk t lft r) s' | PFail kd t' s' => PFail kd t' s' | PFuel => PFuel end else POk lft s).
  change (binloop (S (S k)) isop sub2 mk lft s) with
    (let t := cur s in if isop (tt t) then match sub2 (adv s) with POk r s' => binloop (S k) isop sub2 mk (mk t lft r) s' | PFail kd t' s' => PFail kd t' s' | PFuel => PFuel end else POk lft s).
  cbv zeta. destruct (isop (tt (cur s))); [|left; reflexivity].
  destruct (Hs (adv s)) as [E|E].
  - rewrite E. destruct (sub2 (adv s)) as [r s1|kd t s1|]; [apply IH|left; reflexivity|left; reflexivity].
  - rewrite E. right. reflexivity.
Qed.

Record prs_pf (x y : prs) : Prop := mkPrsPf {
  f_fuel : pr_fuel y = S (pr_fuel x);
  f_parse_eval : PF (pr_parse_eval x) (pr_parse_eval y);
  f_parse_logical : PF (pr_parse_logical x) (pr_parse_logical y);
  f_parse_comparison : PF (pr_parse_comparison x) (pr_parse_comparison y);
  f_parse_strexpr : PF (pr_parse_strexpr x) (pr_parse_strexpr y);
  f_parse_arith : PF (pr_parse_arith x) (pr_parse_arith y);
  f_parse_term : PF (pr_parse_term x) (pr_parse_term y);
  f_parse_factor : PF (pr_parse_factor x) (pr_parse_factor y);
  f_parse_atom : PF (pr_parse_atom x) (pr_parse_atom y);
  f_parse_moddiv : PF (pr_parse_moddiv x) (pr_parse_moddiv y);
  f_parse_cast : PF (pr_parse_cast x) (pr_parse_cast y);
  f_parse_args : forall (acc : list node), PF (pr_parse_args x acc) (pr_parse_args y acc);
  f_parse_arglist : PF (pr_parse_arglist x) (pr_parse_arglist y);
  f_parse_fncall : PF (pr_parse_fncall x) (pr_parse_fncall y);
  f_parse_indices : forall (acc : list node), PF (pr_parse_indices x acc) (pr_parse_indices y acc);
  f_parse_resolver_tail : forall (r : resolver), PF (pr_parse_resolver_tail x r) (pr_parse_resolver_tail y r);
  f_parse_resolver : PF (pr_parse_resolver x) (pr_parse_resolver y);
  f_parse_ids : forall (acc : list token), PF (pr_parse_ids x acc) (pr_parse_ids y acc);
  f_parse_bounds : forall (acc : list node), PF (pr_parse_bounds x acc) (pr_parse_bounds y acc);
  f_parse_declare : PF (pr_parse_declare x) (pr_parse_declare y);
  f_parse_const : PF (pr_parse_const x) (pr_parse_const y);
  f_parse_enum_vals : forall (acc : list str), PF (pr_parse_enum_vals x acc) (pr_parse_enum_vals y acc);
  f_parse_comp_body : forall (acc : list node), PF (pr_parse_comp_body x acc) (pr_parse_comp_body y acc);
  f_parse_type : PF (pr_parse_type x) (pr_parse_type y);
  f_parse_if_tail : forall (acc : list (option node * list node)), PF (pr_parse_if_tail x acc) (pr_parse_if_tail y acc);
  f_parse_if : PF (pr_parse_if x) (pr_parse_if y);
  f_parse_case_clauses : forall (acc : list casecomp), PF (pr_parse_case_clauses x acc) (pr_parse_case_clauses y acc);
  f_parse_case : PF (pr_parse_case x) (pr_parse_case y);
  f_parse_while : PF (pr_parse_while x) (pr_parse_while y);
  f_parse_repeat : PF (pr_parse_repeat x) (pr_parse_repeat y);
  f_parse_for : PF (pr_parse_for x) (pr_parse_for y);
  f_parse_params : forall (a : pacc), PF (pr_parse_params x a) (pr_parse_params y a);
  f_parse_paramlist : PF (pr_parse_paramlist x) (pr_parse_paramlist y);
  f_parse_procedure : PF (pr_parse_procedure x) (pr_parse_procedure y);
  f_parse_function : PF (pr_parse_function x) (pr_parse_function y);
  f_parse_call : PF (pr_parse_call x) (pr_parse_call y);
  f_parse_output_tail : forall (acc : list node), PF (pr_parse_output_tail x acc) (pr_parse_output_tail y acc);
  f_parse_statement : PF (pr_parse_statement x) (pr_parse_statement y);
  f_parse_block_loop : forall (bt : btype) (acc : list node), PF (pr_parse_block_loop x bt acc) (pr_parse_block_loop y bt acc);
  f_parse_block : forall (bt : btype), PF (pr_parse_block x bt) (pr_parse_block y bt) }.

Section Bodies.
Variable pedantic : bool.
Variables x y : prs.
Hypothesis Hrel : prs_pf x y.

Ltac hyp :=
  first [apply (f_parse_eval x y Hrel)
        | apply (f_parse_logical x y Hrel)
        | apply (f_parse_comparison x y Hrel)
        | apply (f_parse_strexpr x y Hrel)
        | apply (f_parse_arith x y Hrel)
        | apply (f_parse_term x y Hrel)
        | apply (f_parse_factor x y Hrel)
        | apply (f_parse_atom x y Hrel)
        | apply (f_parse_moddiv x y Hrel)
        | apply (f_parse_cast x y Hrel)
        | apply (f_parse_args x y Hrel)
        | apply (f_parse_arglist x y Hrel)
        | apply (f_parse_fncall x y Hrel)
        | apply (f_parse_indices x y Hrel)
        | apply (f_parse_resolver_tail x y Hrel)
        | apply (f_parse_resolver x y Hrel)
        | apply (f_parse_ids x y Hrel)
        | apply (f_parse_bounds x y Hrel)
        | apply (f_parse_declare x y Hrel)
        | apply (f_parse_const x y Hrel)
        | apply (f_parse_enum_vals x y Hrel)
        | apply (f_parse_comp_body x y Hrel)
        | apply (f_parse_type x y Hrel)
        | apply (f_parse_if_tail x y Hrel)
        | apply (f_parse_if x y Hrel)
        | apply (f_parse_case_clauses x y Hrel)
        | apply (f_parse_case x y Hrel)
        | apply (f_parse_while x y Hrel)
        | apply (f_parse_repeat x y Hrel)
        | apply (f_parse_for x y Hrel)
        | apply (f_parse_params x y Hrel)
        | apply (f_parse_paramlist x y Hrel)
        | apply (f_parse_procedure x y Hrel)
        | apply (f_parse_function x y Hrel)
        | apply (f_parse_call x y Hrel)
        | apply (f_parse_output_tail x y Hrel)
        | apply (f_parse_statement x y Hrel)
        | apply (f_parse_block_loop x y Hrel)
        | apply (f_parse_block x y Hrel) ].

Ltac ps :=
  repeat first
    [ match goal with |- pf_rel ?a ?b => constr_eq a b; left; reflexivity end
    | match goal with |- PF ?a ?b => constr_eq a b; apply PF_refl end
    | hyp
    | match goal with
      | |- pf_rel (pbind _ _ _) (pbind _ _ _) => apply pf_rel_bind; [ | intros ? ]
      | |- PF (pbind _ _) (pbind _ _) => apply PF_bind; [ | intros ? ]
      | |- pf_rel (binloop _ _ _ _ _ _) (binloop _ _ _ _ _ _) => apply pf_rel_binloop
      | |- pf_rel (if ?c then _ else _) (if ?c then _ else _) => destruct c
      | |- PF (if ?c then _ else _) (if ?c then _ else _) => destruct c
      | |- pf_rel (match ?a with _ => _ end) (match ?a with _ => _ end) => destruct a
      | |- PF (match ?a with _ => _ end) (match ?a with _ => _ end) => destruct a
      | |- pf_rel (match ?a with _ => _ end _) (match ?a with _ => _ end _) => destruct a
      | |- PF _ _ => intros ?
      end ].

Lemma parse_eval_body_pf : PF (parse_eval_body x) (parse_eval_body y).
Proof. unfold parse_eval_body; rewrite ?(f_fuel x y Hrel); cbv zeta; ps. Qed.

Lemma parse_logical_body_pf : PF (parse_logical_body x) (parse_logical_body y).
Proof. unfold parse_logical_body; rewrite ?(f_fuel x y Hrel); cbv zeta; ps. Qed.

Lemma parse_comparison_body_pf : PF (parse_comparison_body x) (parse_comparison_body y).
Proof. unfold parse_comparison_body; rewrite ?(f_fuel x y Hrel); cbv zeta; ps. Qed.

Lemma parse_strexpr_body_pf : PF (parse_strexpr_body x) (parse_strexpr_body y).
Proof. unfold parse_strexpr_body; rewrite ?(f_fuel x y Hrel); cbv zeta; ps. Qed.

Lemma parse_arith_body_pf : PF (parse_arith_body x) (parse_arith_body y).
Proof. unfold parse_arith_body; rewrite ?(f_fuel x y Hrel); cbv zeta; ps. Qed.

Lemma parse_term_body_pf : PF (parse_term_body x) (parse_term_body y).
Proof. unfold parse_term_body; rewrite ?(f_fuel x y Hrel); cbv zeta; ps. Qed.

Lemma parse_factor_body_pf : PF (parse_factor_body x) (parse_factor_body y).
Proof. unfold parse_factor_body; rewrite ?(f_fuel x y Hrel); cbv zeta; ps. Qed.

Lemma parse_atom_body_pf : PF (parse_atom_body x) (parse_atom_body y).
Proof. unfold parse_atom_body; rewrite ?(f_fuel x y Hrel); cbv zeta; ps. Qed.

Lemma parse_moddiv_body_pf : PF (parse_moddiv_body x) (parse_moddiv_body y).
Proof. unfold parse_moddiv_body; rewrite ?(f_fuel x y Hrel); cbv zeta; ps. Qed.

Lemma parse_cast_body_pf : PF (parse_cast_body pedantic x) (parse_cast_body pedantic y).
Proof. unfold parse_cast_body; rewrite ?(f_fuel x y Hrel); cbv zeta; ps. Qed.

Lemma parse_args_body_pf (acc : list node) : PF (parse_args_body x acc) (parse_args_body y acc).
Proof. unfold parse_args_body; rewrite ?(f_fuel x y Hrel); cbv zeta; ps. Qed.

Lemma parse_arglist_body_pf : PF (parse_arglist_body x) (parse_arglist_body y).
Proof. unfold parse_arglist_body; rewrite ?(f_fuel x y Hrel); cbv zeta; ps. Qed.

Lemma parse_fncall_body_pf : PF (parse_fncall_body x) (parse_fncall_body y).
Proof. unfold parse_fncall_body; rewrite ?(f_fuel x y Hrel); cbv zeta; ps. Qed.

Lemma parse_indices_body_pf (acc : list node) : PF (parse_indices_body x acc) (parse_indices_body y acc).
Proof. unfold parse_indices_body; rewrite ?(f_fuel x y Hrel); cbv zeta; ps. Qed.

Lemma parse_resolver_tail_body_pf (r : resolver) : PF (parse_resolver_tail_body x r) (parse_resolver_tail_body y r).
Proof. unfold parse_resolver_tail_body; rewrite ?(f_fuel x y Hrel); cbv zeta; ps. Qed.

Lemma parse_resolver_body_pf : PF (parse_resolver_body x) (parse_resolver_body y).
Proof. unfold parse_resolver_body; rewrite ?(f_fuel x y Hrel); cbv zeta; ps. Qed.

Lemma parse_ids_body_pf (acc : list token) : PF (parse_ids_body x acc) (parse_ids_body y acc).
Proof. unfold parse_ids_body; rewrite ?(f_fuel x y Hrel); cbv zeta; ps. Qed.

Lemma parse_bounds_body_pf (acc : list node) : PF (parse_bounds_body x acc) (parse_bounds_body y acc).
Proof. unfold parse_bounds_body; rewrite ?(f_fuel x y Hrel); cbv zeta; ps. Qed.

Lemma parse_declare_body_pf : PF (parse_declare_body x) (parse_declare_body y).
Proof. unfold parse_declare_body; rewrite ?(f_fuel x y Hrel); cbv zeta; ps. Qed.

Lemma parse_const_body_pf : PF (parse_const_body x) (parse_const_body y).
Proof. unfold parse_const_body; rewrite ?(f_fuel x y Hrel); cbv zeta; ps. Qed.

Lemma parse_enum_vals_body_pf (acc : list str) : PF (parse_enum_vals_body x acc) (parse_enum_vals_body y acc).
Proof. unfold parse_enum_vals_body; rewrite ?(f_fuel x y Hrel); cbv zeta; ps. Qed.

Lemma parse_comp_body_body_pf (acc : list node) : PF (parse_comp_body_body x acc) (parse_comp_body_body y acc).
Proof. unfold parse_comp_body_body; rewrite ?(f_fuel x y Hrel); cbv zeta; ps. Qed.

Lemma parse_type_body_pf : PF (parse_type_body x) (parse_type_body y).
Proof. unfold parse_type_body; rewrite ?(f_fuel x y Hrel); cbv zeta; ps. Qed.

Lemma parse_if_tail_body_pf (acc : list (option node * list node)) : PF (parse_if_tail_body pedantic x acc) (parse_if_tail_body pedantic y acc).
Proof. unfold parse_if_tail_body; rewrite ?(f_fuel x y Hrel); cbv zeta; ps. Qed.

Lemma parse_if_body_pf : PF (parse_if_body x) (parse_if_body y).
Proof. unfold parse_if_body; rewrite ?(f_fuel x y Hrel); cbv zeta; ps. Qed.

Lemma parse_case_clauses_body_pf (acc : list casecomp) : PF (parse_case_clauses_body x acc) (parse_case_clauses_body y acc).
Proof. unfold parse_case_clauses_body; rewrite ?(f_fuel x y Hrel); cbv zeta; ps. Qed.

Lemma parse_case_body_pf : PF (parse_case_body x) (parse_case_body y).
Proof. unfold parse_case_body; rewrite ?(f_fuel x y Hrel); cbv zeta; ps. Qed.

Lemma parse_while_body_pf : PF (parse_while_body x) (parse_while_body y).
Proof. unfold parse_while_body; rewrite ?(f_fuel x y Hrel); cbv zeta; ps. Qed.

Lemma parse_repeat_body_pf : PF (parse_repeat_body x) (parse_repeat_body y).
Proof. unfold parse_repeat_body; rewrite ?(f_fuel x y Hrel); cbv zeta; ps. Qed.

Lemma parse_for_body_pf : PF (parse_for_body x) (parse_for_body y).
Proof. unfold parse_for_body; rewrite ?(f_fuel x y Hrel); cbv zeta; ps. Qed.

Lemma parse_params_body_pf (a : pacc) : PF (parse_params_body x a) (parse_params_body y a).
Proof. unfold parse_params_body; rewrite ?(f_fuel x y Hrel); cbv zeta; ps. Qed.

Lemma parse_paramlist_body_pf : PF (parse_paramlist_body x) (parse_paramlist_body y).
Proof. unfold parse_paramlist_body; rewrite ?(f_fuel x y Hrel); cbv zeta; ps. Qed.

Lemma parse_procedure_body_pf : PF (parse_procedure_body x) (parse_procedure_body y).
Proof. unfold parse_procedure_body; rewrite ?(f_fuel x y Hrel); cbv zeta; ps. Qed.

Lemma parse_function_body_pf : PF (parse_function_body x) (parse_function_body y).
Proof. unfold parse_function_body; rewrite ?(f_fuel x y Hrel); cbv zeta; ps. Qed.

Lemma parse_call_body_pf : PF (parse_call_body x) (parse_call_body y).
Proof. unfold parse_call_body; rewrite ?(f_fuel x y Hrel); cbv zeta; ps. Qed.

Lemma parse_output_tail_body_pf (acc : list node) : PF (parse_output_tail_body x acc) (parse_output_tail_body y acc).
Proof. unfold parse_output_tail_body; rewrite ?(f_fuel x y Hrel); cbv zeta; ps. Qed.

Lemma parse_statement_body_pf : PF (parse_statement_body x) (parse_statement_body y).
Proof. unfold parse_statement_body; rewrite ?(f_fuel x y Hrel); cbv zeta; ps. Qed.

Lemma parse_block_loop_body_pf (bt : btype) (acc : list node) : PF (parse_block_loop_body x bt acc) (parse_block_loop_body y bt acc).
Proof. unfold parse_block_loop_body; rewrite ?(f_fuel x y Hrel); cbv zeta; ps. Qed.

Lemma parse_block_body_pf (bt : btype) : PF (parse_block_body x bt) (parse_block_body y bt).
Proof. unfold parse_block_body; rewrite ?(f_fuel x y Hrel); cbv zeta; ps. Qed.

End Bodies.

Lemma prs_step_pf ped x y : prs_pf x y -> prs_pf (prs_step ped x) (prs_step ped y).
Proof.
  intros H. constructor; cbn [prs_step pr_fuel pr_parse_eval pr_parse_logical pr_parse_comparison pr_parse_strexpr pr_parse_arith pr_parse_term pr_parse_factor pr_parse_atom pr_parse_moddiv pr_parse_cast pr_parse_args pr_parse_arglist pr_parse_fncall pr_parse_indices pr_parse_resolver_tail pr_parse_resolver pr_parse_ids pr_parse_bounds pr_parse_declare pr_parse_const pr_parse_enum_vals pr_parse_comp_body pr_parse_type pr_parse_if_tail pr_parse_if pr_parse_case_clauses pr_parse_case pr_parse_while pr_parse_repeat pr_parse_for pr_parse_params pr_parse_paramlist pr_parse_procedure pr_parse_function pr_parse_call pr_parse_output_tail pr_parse_statement pr_parse_block_loop pr_parse_block].
  - rewrite (f_fuel x y H); reflexivity.
  - intros; apply parse_eval_body_pf; exact H.
  - intros; apply parse_logical_body_pf; exact H.
  - intros; apply parse_comparison_body_pf; exact H.
  - intros; apply parse_strexpr_body_pf; exact H.
  - intros; apply parse_arith_body_pf; exact H.
  - intros; apply parse_term_body_pf; exact H.
  - intros; apply parse_factor_body_pf; exact H.
  - intros; apply parse_atom_body_pf; exact H.
  - intros; apply parse_moddiv_body_pf; exact H.
  - intros; apply parse_cast_body_pf; exact H.
  - intros; apply parse_args_body_pf; exact H.
  - intros; apply parse_arglist_body_pf; exact H.
  - intros; apply parse_fncall_body_pf; exact H.
  - intros; apply parse_indices_body_pf; exact H.
  - intros; apply parse_resolver_tail_body_pf; exact H.
  - intros; apply parse_resolver_body_pf; exact H.
  - intros; apply parse_ids_body_pf; exact H.
  - intros; apply parse_bounds_body_pf; exact H.
  - intros; apply parse_declare_body_pf; exact H.
  - intros; apply parse_const_body_pf; exact H.
  - intros; apply parse_enum_vals_body_pf; exact H.
  - intros; apply parse_comp_body_body_pf; exact H.
  - intros; apply parse_type_body_pf; exact H.
  - intros; apply parse_if_tail_body_pf; exact H.
  - intros; apply parse_if_body_pf; exact H.
  - intros; apply parse_case_clauses_body_pf; exact H.
  - intros; apply parse_case_body_pf; exact H.
  - intros; apply parse_while_body_pf; exact H.
  - intros; apply parse_repeat_body_pf; exact H.
  - intros; apply parse_for_body_pf; exact H.
  - intros; apply parse_params_body_pf; exact H.
  - intros; apply parse_paramlist_body_pf; exact H.
  - intros; apply parse_procedure_body_pf; exact H.
  - intros; apply parse_function_body_pf; exact H.
  - intros; apply parse_call_body_pf; exact H.
  - intros; apply parse_output_tail_body_pf; exact H.
  - intros; apply parse_statement_body_pf; exact H.
  - intros; apply parse_block_loop_body_pf; exact H.
  - intros; apply parse_block_body_pf; exact H.
Qed.

Lemma prs_at_pf ped fuel : prs_pf (prs_at ped fuel) (prs_at ped (S fuel)).
Proof.
  induction fuel as [|f IH].
  - cbn [prs_at]. constructor; cbn; intros; try reflexivity; intros s; right; reflexivity.
  - change (prs_at ped (S f)) with (prs_step ped (prs_at ped f)).
    change (prs_at ped (S (S f))) with (prs_step ped (prs_at ped (S f))).
    apply prs_step_pf. exact IH.
Qed.

Theorem parse_block_fuel_step ped fuel bt s :
  parse_block ped fuel bt s = parse_block ped (S fuel) bt s \/ parse_block ped fuel bt s = PFuel.
Proof. unfold parse_block. apply (f_parse_block _ _ (prs_at_pf ped fuel)). Qed.
