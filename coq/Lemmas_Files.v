(* Lemmas_Files.v — laws of random-file and text-file handles. *)
From PE2 Require Import Files Lemmas_Arrays.
From Coq Require Import ZifyBool.
Local Open Scope Z_scope.

Definition nrecs (f : ofile) : Z := Z.of_nat (List.length (of_recs f)).
Definition cursor (f : ofile) : Z := of_ptr f + 1.          (* the 1-based address the handle points at *)
Definition handle_ok (f : ofile) : Prop := 1 <= cursor f <= nrecs f + 1.

(* SEEK accepts exactly the addresses 1..n+1, moves the cursor there and changes nothing else *)
Lemma seek_exact f k : (exists f', rf_seek f k = Some f') <-> 1 <= k <= nrecs f + 1.
Proof.
  unfold rf_seek, nrecs. destruct ((k <? 1) || (Z.of_nat (List.length (of_recs f)) + 1 <? k)) eqn:E; split.
  - intros [f' H]; discriminate.
  - intros H. exfalso. lia.
  - intros _. lia.
  - intros _. eauto.
Qed.
Lemma seek_effect f k f' : rf_seek f k = Some f' -> cursor f' = k /\ of_recs f' = of_recs f /\ handle_ok f'.
Proof.
  unfold rf_seek, handle_ok, cursor, nrecs. destruct ((k <? 1) || (Z.of_nat (List.length (of_recs f)) + 1 <? k)) eqn:E; [discriminate|].
  intros H. inversion H; subst. cbn [of_ptr of_recs]. repeat split; try reflexivity; lia.
Qed.

Lemma set_nth_str_is_set_nth l i v : set_nth_str l i v = set_nth l i v.
Proof. revert i; induction l as [|x r IH]; intros i; cbn; [reflexivity|]. destruct (i =? 0); [reflexivity|]. f_equal. apply IH. Qed.

Lemma set_nth_length {A} (l : list A) i v : List.length (set_nth l i v) = List.length l.
Proof. revert i; induction l as [|x r IH]; intros i; cbn; [reflexivity|]. destruct (i =? 0); cbn; [reflexivity|]. f_equal. apply IH. Qed.

Lemma nth_z_app_old {A} (l : list A) x i : 0 <= i < Z.of_nat (List.length l) -> nth_z (l ++ [x]) i = nth_z l i.
Proof.
  revert i; induction l as [|y r IH]; intros i H; cbn [List.length] in H; [lia|].
  cbn [app nth_z]. destruct (i =? 0) eqn:E1; [reflexivity|]. destruct (i <? 0) eqn:E2; [reflexivity|]. apply IH. lia.
Qed.
Lemma nth_z_app_new {A} (l : list A) x : nth_z (l ++ [x]) (Z.of_nat (List.length l)) = Some x.
Proof.
  induction l as [|y r IH]; [reflexivity|]. cbn [app nth_z List.length].
  destruct (Z.of_nat (S (List.length r)) =? 0) eqn:E; [lia|]. destruct (Z.of_nat (S (List.length r)) <? 0) eqn:E2; [lia|].
  replace (Z.of_nat (S (List.length r)) - 1) with (Z.of_nat (List.length r)) by lia. exact IH.
Qed.

(* PUTRECORD at k <= n replaces record k, at n+1 appends; every other record is unchanged *)
Lemma put_replace f txt : handle_ok f -> cursor f <= nrecs f ->
  nrecs (rf_put f txt) = nrecs f /\ nth_z (of_recs (rf_put f txt)) (of_ptr f) = Some txt /\
  (forall j, j <> of_ptr f -> nth_z (of_recs (rf_put f txt)) j = nth_z (of_recs f) j) /\ cursor (rf_put f txt) = cursor f.
Proof.
  unfold handle_ok, cursor, nrecs, rf_put. intros H1 H2. cbn [of_recs of_ptr].
  destruct (of_ptr f =? Z.of_nat (List.length (of_recs f))) eqn:E; [exfalso; lia|].
  rewrite set_nth_str_is_set_nth. rewrite set_nth_length. repeat split.
  - apply nth_z_set_same. lia.
  - intros j Hj. apply nth_z_set_other. lia.
Qed.
Lemma put_append f txt : handle_ok f -> cursor f = nrecs f + 1 ->
  nrecs (rf_put f txt) = nrecs f + 1 /\ nth_z (of_recs (rf_put f txt)) (of_ptr f) = Some txt /\
  (forall j, 0 <= j < nrecs f -> nth_z (of_recs (rf_put f txt)) j = nth_z (of_recs f) j) /\ cursor (rf_put f txt) = cursor f.
Proof.
  unfold handle_ok, cursor, nrecs, rf_put. intros H1 H2. cbn [of_recs of_ptr].
  assert (E : of_ptr f = Z.of_nat (List.length (of_recs f))) by lia. rewrite E, Z.eqb_refl.
  rewrite app_length. cbn [List.length]. repeat split.
  - lia.
  - apply nth_z_app_new.
  - intros j Hj. apply nth_z_app_old. lia.
Qed.
Lemma put_keeps_handle_ok f txt : handle_ok f -> handle_ok (rf_put f txt).
Proof.
  intros H. destruct (Z_le_gt_dec (cursor f) (nrecs f)).
  - destruct (put_replace f txt H l) as [A [_ [_ C]]]. unfold handle_ok in *. lia.
  - assert (E : cursor f = nrecs f + 1) by (unfold handle_ok in H; lia).
    destruct (put_append f txt H E) as [A [_ [_ C]]]. unfold handle_ok in *. lia.
Qed.

(* GETRECORD at n+1 (or on an empty file) is an error; below that it returns the addressed record *)
Lemma get_at_end_error f : handle_ok f -> cursor f = nrecs f + 1 -> rf_get f = None.
Proof.
  unfold handle_ok, cursor, nrecs, rf_get. intros _ H. assert (E : of_ptr f = Z.of_nat (List.length (of_recs f))) by lia. rewrite E.
  generalize (of_recs f). induction l as [|x r IH]; [reflexivity|]. cbn [nth_z List.length].
  destruct (Z.of_nat (S (List.length r)) =? 0) eqn:E1; [lia|]. destruct (Z.of_nat (S (List.length r)) <? 0); [reflexivity|].
  replace (Z.of_nat (S (List.length r)) - 1) with (Z.of_nat (List.length r)) by lia. exact IH.
Qed.
Lemma get_in_range f : handle_ok f -> cursor f <= nrecs f -> exists r, rf_get f = Some r.
Proof. unfold handle_ok, cursor, nrecs, rf_get. intros H1 H2. apply nth_z_in_range. lia. Qed.

(* ---- refinement: any history of SEEK / PUT / GET on a handle behaves like the list + cursor spec ---- *)
Inductive rfop := OSeek (k : Z) | OPut (txt : str) | OGet.
Inductive rfout := RUnit | RErr | RVal (v : str).

Definition impl_step (f : ofile) (o : rfop) : ofile * rfout :=
  match o with
  | OSeek k => match rf_seek f k with Some f' => (f', RUnit) | None => (f, RErr) end
  | OPut txt => (rf_put f txt, RUnit)
  | OGet => match rf_get f with Some v => (f, RVal v) | None => (f, RErr) end
  end.

(* the spec: a list of records and a 1-based cursor *)
Definition spec := (list str * Z)%type.
Definition spec_step (sp : spec) (o : rfop) : spec * rfout :=
  let '(recs, cur) := sp in
  let n := Z.of_nat (List.length recs) in
  match o with
  | OSeek k => if (1 <=? k) && (k <=? n + 1) then ((recs, k), RUnit) else (sp, RErr)
  | OPut txt => if cur <=? n then ((set_nth recs (cur - 1) txt, cur), RUnit) else ((recs ++ [txt], cur), RUnit)
  | OGet => match nth_z recs (cur - 1) with Some v => (sp, RVal v) | None => (sp, RErr) end
  end.
Definition abs_rf (f : ofile) : spec := (of_recs f, cursor f).

Lemma step_refines f o : handle_ok f ->
  abs_rf (fst (impl_step f o)) = fst (spec_step (abs_rf f) o) /\ snd (impl_step f o) = snd (spec_step (abs_rf f) o) /\
  handle_ok (fst (impl_step f o)).
Proof.
  intros H. destruct o as [k|txt|]; unfold impl_step, spec_step, abs_rf; cbn [fst snd].
  - destruct (rf_seek f k) as [f'|] eqn:E.
    + destruct (seek_effect _ _ _ E) as [A [B C]]. destruct (proj1 (seek_exact f k) (ex_intro _ f' E)) as [K1 K2].
      unfold nrecs in *. destruct ((1 <=? k) && (k <=? Z.of_nat (List.length (of_recs f)) + 1)) eqn:E2; [|lia].
      cbn. rewrite A, B. auto.
    + destruct ((1 <=? k) && (k <=? Z.of_nat (List.length (of_recs f)) + 1)) eqn:E2.
      * exfalso. assert (Hx : exists f', rf_seek f k = Some f') by (apply seek_exact; unfold nrecs; lia).
        destruct Hx as [f' Hx]. congruence.
      * cbn. auto.
  - assert (Hs : snd (if cursor f <=? Z.of_nat (List.length (of_recs f)) then (set_nth (of_recs f) (cursor f - 1) txt, cursor f, RUnit) else (of_recs f ++ [txt], cursor f, RUnit)) = RUnit)
      by (destruct (cursor f <=? Z.of_nat (List.length (of_recs f))); reflexivity).
    split; [|split; [symmetry; exact Hs|apply put_keeps_handle_ok; exact H]].
    unfold rf_put, cursor, handle_ok, nrecs in *. cbn [of_recs of_ptr].
    destruct (of_ptr f =? Z.of_nat (List.length (of_recs f))) eqn:E.
    + destruct (of_ptr f + 1 <=? Z.of_nat (List.length (of_recs f))) eqn:E2; [exfalso; apply Z.eqb_eq in E; apply Z.leb_le in E2; clear Hs H; lia|]. reflexivity.
    + destruct (of_ptr f + 1 <=? Z.of_nat (List.length (of_recs f))) eqn:E2; [|exfalso; apply Z.eqb_neq in E; apply Z.leb_gt in E2; unfold cursor in H; clear Hs; lia].
      rewrite set_nth_str_is_set_nth. replace (of_ptr f + 1 - 1) with (of_ptr f) by lia. reflexivity.
  - unfold rf_get, cursor. replace (of_ptr f + 1 - 1) with (of_ptr f) by lia.
    destruct (nth_z (of_recs f) (of_ptr f)); cbn; auto.
Qed.

Definition run_impl (f : ofile) (ops : list rfop) : ofile * list rfout :=
  fold_left (fun acc o => let '(f0, outs) := acc in let '(f1, r) := impl_step f0 o in (f1, outs ++ [r])) ops (f, []).
Definition run_spec (sp : spec) (ops : list rfop) : spec * list rfout :=
  fold_left (fun acc o => let '(s0, outs) := acc in let '(s1, r) := spec_step s0 o in (s1, outs ++ [r])) ops (sp, []).

Lemma history_refines : forall ops f outs0, handle_ok f ->
  let '(f', outs) := fold_left (fun acc o => let '(f0, outs) := acc in let '(f1, r) := impl_step f0 o in (f1, outs ++ [r])) ops (f, outs0) in
  let '(sp', outs') := fold_left (fun acc o => let '(s0, outs) := acc in let '(s1, r) := spec_step s0 o in (s1, outs ++ [r])) ops (abs_rf f, outs0) in
  abs_rf f' = sp' /\ outs = outs' /\ handle_ok f'.
Proof.
  induction ops as [|o ops IH]; intros f outs0 H; cbn [fold_left]; [auto|].
  destruct (step_refines f o H) as [A [B C]].
  destruct (impl_step f o) as [f1 r1]. destruct (spec_step (abs_rf f) o) as [s1 r1'] eqn:Es. cbn [fst snd] in *. subst.
  specialize (IH f1 (outs0 ++ [r1']) C). exact IH.
Qed.

(* ---- text files: the loop WHILE NOT EOF ... READFILE delivers exactly the lines, once each ---- *)
Definition no_nl (l : str) : Prop := Forall (fun ch => aeqb ch ch_nl = false) l.
Definition rd (content : str) : ofile := mkOfile [] FRead content [] 0 false.

Lemma read_line_terminated l rest0 : no_nl l ->
  file_read_line (rd (l ++ ch_nl :: rest0)) = (l, rd rest0).
Proof.
  intros H. unfold file_read_line, rd. cbn [of_rest of_name of_mode of_recs of_ptr of_modified].
  assert (G : forall acc, (fix go (s acc0 : str) {struct s} : str * str :=
               match s with [] => (rev acc0, []) | ch :: r => if aeqb ch ch_nl then (rev acc0, r) else go r (ch :: acc0) end) (l ++ ch_nl :: rest0) acc = (rev acc ++ l, rest0)).
  { induction H as [|ch l Hc Hl IH]; intros acc; cbn [app].
    - rewrite Ascii.eqb_refl. rewrite app_nil_r. reflexivity.
    - rewrite Hc. rewrite IH. cbn [rev]. rewrite <- app_assoc. reflexivity. }
  rewrite (G []). reflexivity.
Qed.

Lemma read_line_unterminated l : no_nl l -> file_read_line (rd l) = (l, rd []).
Proof.
  intros H. unfold file_read_line, rd. cbn [of_rest of_name of_mode of_recs of_ptr of_modified].
  assert (G : forall acc, (fix go (s acc0 : str) {struct s} : str * str :=
               match s with [] => (rev acc0, []) | ch :: r => if aeqb ch ch_nl then (rev acc0, r) else go r (ch :: acc0) end) l acc = (rev acc ++ l, [])).
  { induction H as [|ch l Hc Hl IH]; intros acc.
    - rewrite app_nil_r. reflexivity.
    - rewrite Hc. rewrite IH. cbn [rev]. rewrite <- app_assoc. reflexivity. }
  rewrite (G []). reflexivity.
Qed.

Definition text_of_lines (ls : list str) : str := List.concat (map (fun l => l ++ [ch_nl]) ls).

Lemma read_loop_lines : forall ls fuel, Forall no_nl ls -> (List.length ls < fuel)%nat ->
  read_loop fuel (rd (text_of_lines ls)) = ls.
Proof.
  induction ls as [|l ls IH]; intros fuel H Hf; destruct fuel as [|k]; cbn [List.length] in Hf; try lia.
  - reflexivity.
  - inversion H as [|? ? Hl Hls]; subst. unfold text_of_lines. cbn [map List.concat].
    rewrite <- app_assoc. cbn [app]. cbn [read_loop].
    assert (E : tf_eof (rd (l ++ ch_nl :: List.concat (map (fun l0 => l0 ++ [ch_nl]) ls))) = false).
    { unfold tf_eof, rd. cbn [of_rest]. destruct l; reflexivity. }
    rewrite E. rewrite read_line_terminated by exact Hl. f_equal. apply IH; [exact Hls|lia].
Qed.

(* a last line without a line break is delivered too *)
Lemma read_loop_unterminated_last : forall ls last fuel, Forall no_nl ls -> no_nl last -> last <> [] -> (S (List.length ls) < fuel)%nat ->
  read_loop fuel (rd (text_of_lines ls ++ last)) = ls ++ [last].
Proof.
  induction ls as [|l ls IH]; intros last fuel H Hl Hne Hf; destruct fuel as [|k]; cbn [List.length] in Hf; try lia.
  - cbn [text_of_lines map List.concat app read_loop]. destruct last as [|ch r]; [contradiction|].
    unfold tf_eof at 1. cbn [rd of_rest]. rewrite read_line_unterminated by exact Hl.
    destruct k; [lia|]. reflexivity.
  - inversion H as [|? ? Hl0 Hls]; subst. unfold text_of_lines. cbn [map List.concat].
    rewrite <- !app_assoc. cbn [app]. cbn [read_loop].
    assert (E : tf_eof (rd (l ++ ch_nl :: List.concat (map (fun l0 => l0 ++ [ch_nl]) ls) ++ last)) = false).
    { unfold tf_eof, rd. cbn [of_rest]. destruct l; reflexivity. }
    rewrite E. rewrite read_line_terminated by exact Hl0. cbn [app]. f_equal. apply IH; auto. lia.
Qed.

Lemma eof_exact content : tf_eof (rd content) = true <-> content = [].
Proof. unfold tf_eof, rd. cbn. destruct content; split; intros; try reflexivity; discriminate. Qed.
