(* Lemmas_ConstEval.v -- the program logic of Lemmas_ConstLogic.v carried through the ten evaluation functions. *)
From PE2 Require Import Eval Lemmas_Copy Lemmas_DeepCopy Lemmas_Out Lemmas_ConstLogic.
Require Import Lia.
Local Open Scope N_scope.

(* ------------------------------------------------------------------ the evaluator, one level *)
Definition newvar_post (name : str) (ty : dtype) (cst : bool) (owner : N) (id : N) (s : st) : Prop :=
  exists p, cellmeta id (mkCell name ty cst owner p) s /\ (named_kind (dk ty) = true -> dname ty <> None).
Lemma stable_newvar_post name ty cst owner id : stable (newvar_post name ty cst owner id).
Proof. intros s s' H [p [X Y]]. exists p. split; [eapply stable_cellmeta; eauto|exact Y]. Qed.
Lemma default_prim_named ty p : default_prim ty = Some p -> named_kind (dk ty) = true -> dname ty <> None.
Proof. destruct ty as [k n]. destruct k, n; cbn; intros H Hk; try discriminate H; try discriminate Hk; discriminate. Qed.

Ltac stab2 := repeat first [ assumption | apply stable_retok | apply stable_impl | apply stable_and | apply stable_true | apply stable_pure | apply stable_cellmeta | apply stable_ctxkind | apply stable_wr
                           | apply stable_valok | apply stable_nonconst | apply stable_ownrec | apply stable_resok | apply stable_fits | apply stable_hastype | apply stable_arris | apply stable_arrpair | apply stable_typair | apply stable_nfits | apply stable_newvar_post
                           | (apply stable_Forall; intros ?) | (apply stable_Forall2; intros ? ?) ].

(* ------------------------------------------------------------------ Control.v *)
Ltac hknown0 := first [ apply hn_lookup_def_aux | apply hn_root_of_aux | apply hn_on_chain_aux | apply hn_nonrec_ancestor_aux | apply hn_abs_val
                      | (apply hn_mapM; intros ?) | (apply hn_iterM; intros ?) ].
Lemma hn_tick lim t c : hn (tick lim t c).
Proof. unfold tick, budget_error. hnt hknown0. Qed.

Definition trT {A} (m : M A) : Prop := forall (P : st -> Prop), stable P -> tr P m (fun _ _ => True).

Lemma trT_run_body br : trT br -> trT (run_body br).
Proof.
  intros H P SP. unfold run_body. apply tr_catch; [exact SP| |].
  - eapply tr_bind; [exact SP|apply H; exact SP|]. intros u. eapply tr_true. apply tr_ret.
  - intros f m' E. destruct f; inversion E; subst; eapply tr_true; apply tr_ret.
Qed.
Lemma trT_cond_bool t c ce : trT ce -> trT (cond_bool t c ce).
Proof.
  intros H P SP. unfold cond_bool. eapply tr_bind; [exact SP|apply H; exact SP|]. intros cr.
  destruct (negb _); [apply tr_rt_error|]. apply tr_hn_true; [stab|]. unfold as_bool. hnt hknown0.
Qed.
Lemma trT_if_chain t c comps : Forall (fun p => (forall ce, fst p = Some ce -> trT ce) /\ trT (snd p)) comps -> trT (if_chain t c comps).
Proof.
  induction comps as [|[o b] rest IH]; intros HF P SP; cbn [if_chain]; [eapply tr_true; apply tr_ret|].
  inversion HF as [|? ? [Hc Hb] Hr]; subst. cbn [fst snd] in *. destruct o as [ce|].
  - eapply tr_bind; [exact SP|apply trT_cond_bool; [apply Hc; reflexivity|exact SP]|]. intros v. destruct v.
    + eapply tr_bind; [stab|apply Hb; stab|]. intros u. eapply tr_true. apply tr_ret.
    + apply IH; [exact Hr|stab].
  - eapply tr_bind; [exact SP|apply Hb; exact SP|]. intros u. eapply tr_true. apply tr_ret.
Qed.
Lemma trT_case_chain clauses : Forall (fun p => trT (fst p) /\ trT (snd p)) clauses -> trT (case_chain clauses).
Proof.
  induction clauses as [|[m b] rest IH]; intros HF P SP; cbn [case_chain]; [eapply tr_true; apply tr_ret|].
  inversion HF as [|? ? [Hm Hb] Hr]; subst. cbn [fst snd] in *.
  eapply tr_bind; [exact SP|apply Hm; exact SP|]. intros v. destruct v.
  - eapply tr_bind; [stab|apply Hb; stab|]. intros u. eapply tr_true. apply tr_ret.
  - apply IH; [exact Hr|stab].
Qed.
Lemma trT_while lim k t c ce br : trT ce -> trT br -> trT (while_loop lim k t c ce br).
Proof.
  intros Hc Hb. induction k as [|k IH]; intros P SP; cbn [while_loop]; [(apply tr_failm; okf)|].
  eapply tr_bind; [exact SP|apply tr_hn; [exact SP|apply hn_tick]|]. intros u.
  eapply tr_bind; [stab|apply trT_cond_bool; [exact Hc|stab]|]. intros v. destruct (negb v); [eapply tr_true; apply tr_ret|].
  eapply tr_bind; [stab|apply trT_run_body; [exact Hb|stab]|]. intros g. destruct g; [apply IH; stab|eapply tr_true; apply tr_ret].
Qed.
Lemma trT_repeat lim k t c ce br : trT ce -> trT br -> trT (repeat_loop lim k t c ce br).
Proof.
  intros Hc Hb. induction k as [|k IH]; intros P SP; cbn [repeat_loop]; [(apply tr_failm; okf)|].
  eapply tr_bind; [exact SP|apply tr_hn; [exact SP|apply hn_tick]|]. intros u.
  eapply tr_bind; [stab|apply trT_run_body; [exact Hb|stab]|]. intros g. destruct (negb g); [eapply tr_true; apply tr_ret|].
  eapply tr_bind; [stab|apply trT_cond_bool; [exact Hc|stab]|]. intros v. destruct v; [eapply tr_true; apply tr_ret|apply IH; stab].
Qed.
Lemma fits_int_payload it cl s : fits it (PInt 0) s -> cellmeta it cl s -> payload_kind (c_val cl) = dk (c_type cl) -> payload_kind (c_val cl) = KInt.
Proof.
  intros [c0 [E0 [Hk _]]] [c' [E' [_ [M2 _]]]] H. assert (c' = c0) by congruence. subst c'. cbn in Hk. congruence.
Qed.
(* the branch "the counter's cell holds something that is not an INTEGER" cannot be taken: the counter was found to be of type INTEGER *)
Ltac for_contra HW it Ecv :=
  apply tr_false; let s0 := fresh "s0" in let H0 := fresh "H0" in intros s0 H0; decompose [and] H0;
  match goal with Hp : _ s0, Hm : cellmeta it ?cl s0, Hk : payload_kind (c_val ?cl) = dk (c_type ?cl) |- _ =>
    let X := fresh in pose proof (fits_int_payload it cl s0 (proj2 (HW s0 Hp)) Hm Hk) as X; try rewrite Ecv in X; discriminate X end.
(* FOR: the iterator was found writable before the loop; that stays true while the body runs *)
Lemma tr_for lim k t c it stepv stop br : trT br -> forall (P : st -> Prop), stable P -> (forall s, P s -> wr it s /\ fits it (PInt 0) s) ->
  tr P (for_loop lim k t c it stepv stop br) (fun _ _ => True).
Proof.
  intros Hb. induction k as [|k IH]; intros P SP HW; cbn [for_loop]; [(apply tr_failm; okf)|].
  eapply tr_bind; [exact SP|apply tr_get_cell|]. intros cl. destruct (c_val cl) eqn:Ecv; try (for_contra HW it Ecv).
  destruct (for_continues stepv z stop); [|eapply tr_true; apply tr_ret].
  eapply tr_bind; [stab|apply tr_hn; [stab|apply hn_tick]|]. intros u.
  eapply tr_bind; [stab|apply trT_run_body; [exact Hb|stab]|]. intros g. destruct (negb g); [eapply tr_true; apply tr_ret|].
  eapply tr_bind; [stab|apply tr_get_cell|]. intros cl'. destruct (c_val cl') eqn:Ecv'; try (for_contra HW it Ecv').
  eapply tr_bind; [stab| |].
  - apply tr_set_cell_val. intros s H. assert (HPs : P s) by tauto. split; [apply (HW s HPs)|]. split; [apply valok_nonrec; intros; discriminate|exact (proj2 (HW s HPs))].
  - intros u2. apply IH; [stab|]. intros s H. apply HW. tauto.
Qed.
Lemma trT_eval_bounds ev c bs : (forall n, trT (ev n)) -> forall total, trT (eval_bounds ev c bs total).
Proof.
  intros H. remember (List.length bs) as n eqn:Hn. revert bs Hn.
  induction n as [n IH] using lt_wf_ind. intros bs Hn total P SP.
  destruct bs as [|lo [|hi rest]]; cbn [eval_bounds]; try (eapply tr_true; apply tr_ret).
  eapply tr_bind; [exact SP|apply H; exact SP|]. intros lr. destruct (negb _); [apply tr_rt_error|].
  eapply tr_bind; [stab|apply H; stab|]. intros hr. destruct (negb _); [apply tr_rt_error|].
  eapply tr_bind; [stab|apply tr_hn_true; [stab|unfold as_int; hnt hknown0]|]. intros l.
  eapply tr_bind; [stab|apply tr_hn_true; [stab|unfold as_int; hnt hknown0]|]. intros h.
  destruct (h <? l)%Z; [apply tr_rt_error|]. cbv zeta. destruct (_ || _); [apply tr_rt_error|].
  eapply tr_bind; [stab|eapply (IH (List.length rest)); [subst n; cbn [List.length]; lia|reflexivity|stab]|]. intros ds. eapply tr_true. apply tr_ret.
Qed.
Lemma trT_eval_indices ev c es : (forall n, trT (ev n)) -> forall ds, trT (eval_indices ev c es ds).
Proof.
  intros H. induction es as [|e er IH]; intros ds P SP; cbn [eval_indices]; [eapply tr_true; apply tr_ret|].
  destruct ds as [|d dr]; [eapply tr_true; apply tr_ret|].
  eapply tr_bind; [exact SP|apply H; exact SP|]. intros ir. destruct (negb _); [apply tr_rt_error|].
  eapply tr_bind; [stab|apply tr_hn_true; [stab|unfold as_int; hnt hknown0]|]. intros i. destruct (negb _); [apply tr_rt_error|].
  eapply tr_bind; [stab|apply IH; stab|]. intros rest. eapply tr_true. apply tr_ret.
Qed.

(* the same combinators as computations of a result: what they return (no value) is a proper value *)
Definition trR (m : M result) : Prop := forall (P : st -> Prop), stable P -> tr P m (fun r s => resok r s).
Lemma trR_if_chain t c comps : Forall (fun p => (forall ce, fst p = Some ce -> trT ce) /\ trT (snd p)) comps -> trR (if_chain t c comps).
Proof.
  induction comps as [|[o b] rest IH]; intros HF P SP; cbn [if_chain]; [apply tr_ret_none|].
  inversion HF as [|? ? [Hc Hb] Hr]; subst. cbn [fst snd] in *. destruct o as [ce|].
  - eapply tr_bind; [exact SP|apply trT_cond_bool; [apply Hc; reflexivity|exact SP]|]. intros v. destruct v.
    + eapply tr_bind; [stab|apply Hb; stab|]. intros u. apply tr_ret_none.
    + apply IH; [exact Hr|stab].
  - eapply tr_bind; [exact SP|apply Hb; exact SP|]. intros u. apply tr_ret_none.
Qed.
Lemma trR_case_chain clauses : Forall (fun p => trT (fst p) /\ trT (snd p)) clauses -> trR (case_chain clauses).
Proof.
  induction clauses as [|[m b] rest IH]; intros HF P SP; cbn [case_chain]; [apply tr_ret_none|].
  inversion HF as [|? ? [Hm Hb] Hr]; subst. cbn [fst snd] in *.
  eapply tr_bind; [exact SP|apply Hm; exact SP|]. intros v. destruct v.
  - eapply tr_bind; [stab|apply Hb; stab|]. intros u. apply tr_ret_none.
  - apply IH; [exact Hr|stab].
Qed.
Lemma trR_while lim k t c ce br : trT ce -> trT br -> trR (while_loop lim k t c ce br).
Proof.
  intros Hc Hb. induction k as [|k IH]; intros P SP; cbn [while_loop]; [(apply tr_failm; okf)|].
  eapply tr_bind; [exact SP|apply tr_hn; [exact SP|apply hn_tick]|]. intros u.
  eapply tr_bind; [stab|apply trT_cond_bool; [exact Hc|stab]|]. intros v. destruct (negb v); [apply tr_ret_none|].
  eapply tr_bind; [stab|apply trT_run_body; [exact Hb|stab]|]. intros g. destruct g; [apply IH; stab|apply tr_ret_none].
Qed.
Lemma trR_repeat lim k t c ce br : trT ce -> trT br -> trR (repeat_loop lim k t c ce br).
Proof.
  intros Hc Hb. induction k as [|k IH]; intros P SP; cbn [repeat_loop]; [(apply tr_failm; okf)|].
  eapply tr_bind; [exact SP|apply tr_hn; [exact SP|apply hn_tick]|]. intros u.
  eapply tr_bind; [stab|apply trT_run_body; [exact Hb|stab]|]. intros g. destruct (negb g); [apply tr_ret_none|].
  eapply tr_bind; [stab|apply trT_cond_bool; [exact Hc|stab]|]. intros v. destruct v; [apply tr_ret_none|apply IH; stab].
Qed.
Lemma trR_for lim k t c it stepv stop br : trT br -> forall (P : st -> Prop), stable P -> (forall s, P s -> wr it s /\ fits it (PInt 0) s) ->
  tr P (for_loop lim k t c it stepv stop br) (fun r s => resok r s).
Proof.
  intros Hb. induction k as [|k IH]; intros P SP HW; cbn [for_loop]; [(apply tr_failm; okf)|].
  eapply tr_bind; [exact SP|apply tr_get_cell|]. intros cl. destruct (c_val cl) eqn:Ecv; try (for_contra HW it Ecv).
  destruct (for_continues stepv z stop); [|apply tr_ret_none].
  eapply tr_bind; [stab|apply tr_hn; [stab|apply hn_tick]|]. intros u.
  eapply tr_bind; [stab|apply trT_run_body; [exact Hb|stab]|]. intros g. destruct (negb g); [apply tr_ret_none|].
  eapply tr_bind; [stab|apply tr_get_cell|]. intros cl'. destruct (c_val cl') eqn:Ecv'; try (for_contra HW it Ecv').
  eapply tr_bind; [stab| |].
  - apply tr_set_cell_val. intros s H. assert (HPs : P s) by tauto. split; [apply (HW s HPs)|]. split; [apply valok_nonrec; intros; discriminate|exact (proj2 (HW s HPs))].
  - intros u2. apply IH; [stab|]. intros s H. apply HW. tauto.
Qed.

(* a branch that is taken only when a cell holds an object of another class than its type says *)
Ltac bad_contra :=
  apply tr_false; let s0 := fresh "s0" in let H0 := fresh "H0" in intros s0 H0; decompose [and] H0; unfold dt_is in *;
  repeat match goal with H : negb _ = false |- _ => apply negb_false_iff in H | H : dk_eqb _ _ = true |- _ => apply dk_eqb_eq in H end;
  repeat match goal with Hv : c_val ?cl = _, Hk : context [c_val ?cl] |- _ => rewrite Hv in Hk end;
  repeat match goal with H : payload_kind _ = _ |- _ => progress cbn in H end;
  congruence.

Section Level.
Variables (ped repl : bool) (lim : limits) (self : evs).
Hypothesis He : forall (P : st -> Prop) n c, stable P -> tr P (ev_eval self n c) (fun r s => resok r s).
Hypothesis Hr : forall (P : st -> Prop) r c, stable P -> tr P (ev_resolve self r c) (fun _ _ => True).
Hypothesis Hce : forall (P : st -> Prop) v e c, stable P -> tr P (ev_case_equals self v e c) (fun _ _ => True).
Hypothesis Hcr : forall (P : st -> Prop) v lo hi c, stable P -> tr P (ev_case_range self v lo hi c) (fun _ _ => True).
Hypothesis Hb : forall (P : st -> Prop) bl c, stable P -> tr P (ev_run_block self bl c) (fun _ _ => True).
Hypothesis Hv : forall (P : st -> Prop) name ty cst owner, stable P -> tr P (ev_new_var self name ty cst owner) (newvar_post name ty cst owner).
Hypothesis Ha : forall (P : st -> Prop) name ty dims owner, stable P -> tr P (ev_new_array self name ty dims owner) (fun _ _ => True).
Hypothesis Hba : forall (P : st -> Prop) t params args vals c fc, stable P ->
  (forall s, P s -> ctxkind fc false s /\ Forall (fun v => resok v s) vals) -> tr P (ev_bind_args self t params args vals c fc) (fun _ _ => True).
Hypothesis Hp : forall (P : st -> Prop) t name args c, stable P -> tr P (ev_call_procedure self t name args c) (fun r s => resok r s).
Hypothesis Hf : forall (P : st -> Prop) t args c, stable P -> tr P (ev_call_function self t args c) (fun r s => resok r s).

Lemma hn_lookup_def {D} (table : ctx -> list (str * D)) c name global : hn (lookup_def table c name global).
Proof. unfold lookup_def. hnt ltac:(apply hn_lookup_def_aux). Qed.
Lemma hn_root_of id : hn (root_of id).
Proof. unfold root_of. hnt ltac:(apply hn_root_of_aux). Qed.

Ltac hknown := first [ apply hn_lookup_def | apply hn_lookup_def_aux | apply hn_root_of | apply hn_root_of_aux | apply hn_on_chain_aux | apply hn_nonrec_ancestor_aux | apply hn_abs_val
                     | (apply hn_mapM; intros ?) | (apply hn_iterM; intros ?) ].

Lemma tr_new_ctx (P : st -> Prop) parent name isfun isrec rett : stable P ->
  tr P (new_ctx parent name isfun isrec rett) (fun id s => ctxkind id isrec s).
Proof.
  intros SP. unfold new_ctx. eapply tr_bind; [exact SP|apply tr_hn; [exact SP|destruct parent; hnt hknown]|]. intros d.
  apply tr_alloc_ctx; [stab2|reflexivity|reflexivity|]. intros id. cbn [x_isrec].
  eapply tr_post; [apply tr_ret|]. intros a s [-> [_ Hk]]. exact Hk.
Qed.

(* new Variable(...) *)
Lemma tr_new_var_body (P : st -> Prop) name ty cst owner : stable P -> tr P (new_var_body self name ty cst owner) (newvar_post name ty cst owner).
Proof.
  intros SP. unfold new_var_body. destruct (default_prim ty) as [p|] eqn:Ed.
  - apply tr_alloc_cell; [exact SP| |].
    + intros s _. cbn [c_val c_type]. split; [apply valok_nonrec; intros tn c E; subst p; destruct ty as [k n]; destruct k, n; cbn in Ed; discriminate|].
      destruct ty as [k n]. destruct k, n; cbn in Ed; inversion Ed; (split; [reflexivity|]); intros tn0 Hn0; cbn in Hn0; first [discriminate Hn0|inversion Hn0; reflexivity].
    + intros id. eapply tr_post; [apply tr_ret|]. intros a s [-> [_ Hm]]. exists p. split; [exact Hm|eapply default_prim_named; eauto].
  - destruct (dk ty) eqn:Ek; try (apply tr_failm; okf). destruct (dname ty) as [tn|] eqn:En; try (apply tr_failm; okf).
    eapply tr_bind; [exact SP|apply tr_new_ctx; exact SP|]. intros rc.
    eapply tr_bind; [stab2|apply tr_hn; [stab2|hnt hknown]|]. intros dd.
    destruct dd as [body|]; [|(apply tr_failm; okf)].
    eapply tr_bind; [stab2|apply Hb; stab2|]. intros u.
    apply tr_alloc_cell; [stab2| |].
    + intros s [[[_ Hk] _] _]. cbn [c_val c_type]. split; [intros tn' c' E; inversion E; subst; exact Hk|]. split; [cbn; first [rewrite Ek; reflexivity|symmetry; exact Ek|reflexivity]|]. intros tn0 Hn0. cbn in Hn0. inversion Hn0; subst. first [exact En|rewrite En; reflexivity|reflexivity].
    + intros id. eapply tr_post; [apply tr_ret|]. intros a s [-> [_ Hm]]. exists (PRec tn rc). split; [exact Hm|]. intros _. rewrite En. discriminate.
Qed.

Ltac ht known :=
  repeat first
    [ (apply tr_failm; okf) | apply tr_rt_error | (eapply tr_true; apply tr_ret)
    | known
    | (apply tr_hn_true; [stab2 | solve [hnt hknown]])
    | match goal with
      | |- tr _ (assign_val _ _ _) _ => apply tr_assign_val; [stab2 | ]
      | |- tr _ (set_cell_val _ _) _ => apply tr_set_cell_val
      | |- tr _ (add_var _ _ _) _ => eapply tr_true; apply tr_add_var; [stab2 | ]
      | |- tr _ (add_arr _ _ _) _ => unfold add_arr; eapply tr_true; apply tr_upd_ctx_keepvars; [stab2 | intros ?; repeat split]
      | |- tr _ (store_tree _ _ _) _ => apply tr_store_tree; [stab2 | ]
      | |- tr _ (copy_array_data _ _ _) _ => apply tr_copy_array_data; stab2
      | |- tr _ (upd_ctx _ (ctx_with_retval _)) _ => eapply tr_true; apply tr_set_retval; [stab2 | ]
      | |- tr _ (upd_ctx _ _) _ => eapply tr_true; apply tr_upd_ctx_keepvars; [stab2 | intros ?; repeat split]
      | |- tr _ (copy_val _ _) _ => eapply tr_true; apply (proj1 (copy_tr _)); [stab2 | ]
      | |- tr _ (bind (get_cell _) _) _ => eapply tr_bind; [stab2 | apply tr_get_cell | intros ?]
      | |- tr _ (bind (get_arr _) _) _ => eapply tr_bind; [stab2 | apply tr_get_arr | intros ?]
      | |- tr _ (bind (get_ctx _) _) _ => eapply tr_bind; [stab2 | apply tr_get_ctx | intros ?]
      | |- tr _ (bind (new_ctx _ _ _ _ _) _) _ => eapply tr_bind; [stab2 | apply tr_new_ctx; stab2 | intros ?]
      | |- tr _ (bind (ev_new_var self _ _ _ _) _) _ => eapply tr_bind; [stab2 | apply Hv; stab2 | intros ?]
      | |- tr _ (bind (ev_eval self _ _) _) _ => eapply tr_bind; [stab2 | apply He; stab2 | intros ?]
      | |- tr _ (bind (ev_call_function self _ _ _) _) _ => eapply tr_bind; [stab2 | apply Hf; stab2 | intros ?]
      | |- tr _ (bind (copy_val _ _) _) _ => eapply tr_bind; [stab2 | apply (proj1 (copy_tr _)); [stab2 | ] | intros ?]
      | |- tr _ (bind _ _) _ => eapply tr_bind with (Q := fun _ _ => True); [stab2 | | intros ?]
      | |- tr _ (if ?c then _ else _) _ => destruct c eqn:?
      | |- tr _ (match ?x with _ => _ end) _ => destruct x eqn:?
      | |- tr _ (let _ := _ in _) _ => cbv zeta
      | |- tr _ ?m _ => let h := head_of m in unfold h
      end ].
Ltac evk :=
  first [ (eapply tr_true; apply He; stab2) | (apply Hr; stab2) | (apply Hce; stab2) | (apply Hcr; stab2) | (apply Hb; stab2) | (eapply tr_true; apply Hv; stab2) | (apply Ha; stab2)
        | (eapply tr_true; apply Hp; stab2) | (eapply tr_true; apply Hf; stab2)
        | (apply trT_eval_indices; [intros ? ? ?; eapply tr_true; apply He; assumption | stab2])
        | (apply trT_eval_bounds; [intros ? ? ?; eapply tr_true; apply He; assumption | stab2]) ].

Lemma tr_resolve_body (P : st -> Prop) r c : stable P -> tr P (resolve_body self r c) (fun _ _ => True).
Proof. intros SP. destruct r; unfold resolve_body; ht evk; bad_contra. Qed.
Lemma tr_case_equals_body (P : st -> Prop) v e c : stable P -> tr P (case_equals_body self v e c) (fun _ _ => True).
Proof. intros SP. unfold case_equals_body; ht evk. Qed.
Lemma tr_case_range_body (P : st -> Prop) v lo hi c : stable P -> tr P (case_range_body self v lo hi c) (fun _ _ => True).
Proof. intros SP. unfold case_range_body; ht evk. Qed.

Lemma newvar_nonconst name ty owner id s : newvar_post name ty false owner id s -> nonconst id s.
Proof. intros [p [H _]]. eapply cellmeta_nonconst; [exact H|reflexivity]. Qed.
Lemma newvar_hastype name ty cst owner id s : newvar_post name ty cst owner id s -> hastype id ty s.
Proof. intros [p [H Hn]]. eapply cellmeta_hastype; [exact H|reflexivity|exact Hn]. Qed.

Lemma tr_new_array_body (P : st -> Prop) name ty dims owner : stable P -> tr P (new_array_body lim self name ty dims owner) (fun _ _ => True).
Proof.
  intros SP. unfold new_array_body. cbv zeta.
  eapply tr_bind; [exact SP|apply tr_hn; [exact SP|unfold alloc_cells, budget_error; hnt hknown]|]. intros u.
  eapply tr_bind; [stab2|apply (tr_repeatM _ _ (newvar_post name ty false owner)); [stab2|intros; apply stable_newvar_post|apply Hv; stab2]|]. intros elems.
  apply tr_alloc_arr; [stab2| |].
  - intros s [_ HF]. cbn [a_elems a_type]. eapply Forall_impl; [|exact HF]. intros e He0. split; [eapply newvar_nonconst; exact He0|eapply newvar_hastype; exact He0].
  - intros aid. eapply tr_true. apply tr_ret.
Qed.

Lemma not_rec_contra fc s cx : ctxkind fc false s -> nm_get fc (s_ctxs s) = Some cx -> x_isrec cx = true -> False.
Proof. intros [x [E F]] E' F'. congruence. Qed.
Lemma newvar_wr name ty owner id s : newvar_post name ty false owner id s -> wr id s.
Proof. intros H. apply nonconst_wr. eapply newvar_nonconst; eauto. Qed.

Lemma tr_bind_args_body (P : st -> Prop) t params args vals c fc : stable P ->
  (forall s, P s -> ctxkind fc false s /\ Forall (fun v => resok v s) vals) -> tr P (bind_args_body self t params args vals c fc) (fun _ _ => True).
Proof.
  intros SP HP. unfold bind_args_body.
  destruct params as [|[[pn pty] byref] pr]; [eapply tr_true; apply tr_ret|]. destruct args as [|a ar]; [(apply tr_failm; okf)|]. destruct vals as [|v vr]; [(apply tr_failm; okf)|].
  ht evk.
  - intros s Hs cx E F. exfalso. assert (HPs : P s) by tauto. destruct (HP s HPs) as [Hk _]. eapply not_rec_contra; eauto.
  - intros s Hs. eapply newvar_wr. decompose [and] Hs. eassumption.
  - intros s Hs cx E F. exfalso. assert (HPs : P s) by tauto. destruct (HP s HPs) as [Hk _]. eapply not_rec_contra; eauto.
  - apply Hba; [stab2|]. intros s Hs. assert (HPs : P s) by tauto. destruct (HP s HPs) as [Hk HF]. split; [exact Hk|]. inversion HF; assumption.
Qed.

Lemma trT_call_body d cc ab m : trT m -> trT (call_body d cc ab m).
Proof.
  intros H P SP s HI HP. destruct (H P SP s HI HP) as [I1 [K1 O1]]. unfold call_body. destruct (m s) as [[a|f] s1]; cbn [fst snd] in *.
  - split; [eapply Inv_heap_same; [|exact I1]; repeat split|]. split; [eapply K_trans; [exact K1|apply K_heap_same; repeat split]|exact I].
  - assert (HS : heap_same s1 (set_depth d s1)) by (repeat split).
    assert (I2 : Inv (set_depth d s1)) by (eapply Inv_heap_same; eauto).
    assert (K2 : K s (set_depth d s1)) by (eapply K_trans; [exact K1|apply K_heap_same; exact HS]).
    assert (RT : forall t, Inv (snd (@rt_error unit t cc (set_depth d s1))) /\ K s (snd (@rt_error unit t cc (set_depth d s1))) /\
                           match fst (@rt_error unit t cc (set_depth d s1)) with Ok _ => True | Fail f => ok_fail f end).
    { intros t. pose proof (@ro_runtime_error_cls unit EOther t cc (set_depth d s1)) as R. pose proof (@nb_runtime_error_cls unit EOther t cc (set_depth d s1)) as N.
      unfold rt_error. rewrite R. split; [exact I2|]. split; [exact K2|]. destruct (fst (runtime_error_cls EOther t cc (set_depth d s1))); [exact I|exact N]. }
    destruct f; try (split; [exact I2|]; split; [exact K2|exact O1]); try apply RT.
    destruct ab; (split; [exact I2|]; split; [exact K2|exact I]).
Qed.

Lemma tr_run_block_body (P : st -> Prop) bl c : stable P -> tr P (run_block_body repl lim self bl c) (fun _ _ => True).
Proof.
  intros SP. unfold run_block_body. apply tr_iterM; [exact SP|]. intros n _.
  eapply tr_bind; [exact SP|apply tr_hn; [exact SP|apply hn_tick]|]. intros u.
  eapply tr_bind; [stab2|apply He; stab2|]. intros r.
  destruct repl; [|eapply tr_true; apply tr_ret]. apply tr_hn_true; [stab2|]. unfold echo_result, enum_name. hnt hknown.
Qed.

Lemma tr_mapM_resok (P : st -> Prop) args c : stable P ->
  tr P (mapM (fun a : node => ev_eval self a c) args) (fun vals s => Forall (fun v => resok v s) vals).
Proof.
  intros SP. eapply tr_post; [apply (tr_mapM P _ (fun (_ : node) (v : result) s => resok v s)); [exact SP|intros; apply stable_resok|intros x _; apply He; exact SP]|].
  intros vals s HF. eapply Forall2_right; [exact HF|]. intros x y H. exact H.
Qed.

Lemma tr_call_procedure_body (P : st -> Prop) t name args c : stable P -> tr P (call_procedure_body lim self t name args c) (fun r s => resok r s).
Proof.
  intros SP. unfold call_procedure_body.
  eapply tr_bind; [exact SP|apply tr_hn; [exact SP|hnt hknown]|]. intros ps.
  destruct (assoc_str name ps) as [pd|]; [|apply tr_error_cls].
  eapply tr_bind; [stab2|apply tr_mapM_resok; stab2|]. intros vals.
  destruct (negb _); [apply tr_rt_error|].
  eapply tr_bind; [stab2|apply tr_new_ctx; stab2|]. intros pc.
  eapply tr_bind; [stab2|apply Hba; [stab2|intros s [[_ HF] Hk]; split; assumption]|]. intros u1.
  eapply tr_bind; [stab2|apply tr_upd_ctx_keepvars; [stab2|intros k; repeat split]|]. intros u2.
  eapply tr_bind; [stab2|apply tr_hn; [stab2|hnt hknown]|]. intros d.
  eapply tr_bind; [stab2|apply tr_hn; [stab2|unfold budget_error; hnt hknown]|]. intros u3.
  eapply tr_bind; [stab2|apply tr_hn; [stab2|hnt hknown]|]. intros u4.
  eapply tr_bind; [stab2|apply trT_call_body; [intros P' SP'; apply Hb; exact SP'|stab2]|]. intros u5.
  eapply tr_bind; [stab2|apply tr_upd_ctx_keepvars; [stab2|intros k; repeat split]|]. intros u6.
  eapply tr_post; [apply tr_ret|]. intros a s [-> _] p E. discriminate E.
Qed.

Lemma hn_builtin_args t c ks : forall vs, hn (builtin_args t c ks vs).
Proof.
  induction ks as [|k kr IH]; intros vs; cbn [builtin_args]; [apply hn_ret|]. destruct vs as [|v vr]; [apply hn_ret|].
  unfold implicit_cast, as_int, as_str, as_char, as_payload. hnt ltac:(first [apply IH | hknown]).
Qed.

Lemma tr_ret_prim (P : st -> Prop) k p : is_primitive p = true -> payload_kind p = k -> tr P (ret (res_of k p)) (fun r s => resok r s).
Proof.
  intros Hprim Hk. eapply tr_post; [apply tr_ret|]. intros a s [-> _] q E. cbn in E. inversion E; subst q. split; [|split; [exact Hk|]]. { apply valok_nonrec. intros tn c ->. discriminate Hprim. } intros tn Hn. destruct p; cbn in Hn, Hprim; discriminate.
Qed.
Lemma tr_run_builtin (P : st -> Prop) n fc args : stable P -> tr P (run_builtin n fc args) (fun r s => resok r s).
Proof.
  intros SP. unfold run_builtin. cbv zeta.
  repeat first [ apply tr_rt_error | (apply tr_failm; okf) | (apply tr_ret_prim; reflexivity)
               | match goal with
                 | |- tr _ (bind _ _) _ => eapply tr_bind; [stab2 | apply tr_hn; [stab2 | unfold next_rand; hnt hknown] | intros ?]
                 | |- tr _ (if ?c then _ else _) _ => destruct c
                 | |- tr _ (match ?x with _ => _ end) _ => destruct x
                 end ].
Qed.

Lemma tr_call_function_body (P : st -> Prop) t args c : stable P -> tr P (call_function_body lim self t args c) (fun r s => resok r s).
Proof.
  intros SP. unfold call_function_body. cbv zeta.
  eapply tr_bind; [exact SP|apply tr_hn; [exact SP|hnt hknown]|]. intros fs.
  destruct (builtin_sig (tval t)) as [[pkinds rk]|] eqn:Eb.
  - eapply tr_bind; [stab2|apply tr_mapM_resok; stab2|]. intros vals.
    destruct (negb _); [apply tr_rt_error|].
    eapply tr_bind; [stab2|apply tr_new_ctx; stab2|]. intros fc.
    eapply tr_bind; [stab2|apply tr_hn; [stab2|apply hn_builtin_args]|]. intros ps.
    eapply tr_bind; [stab2|apply tr_upd_ctx_keepvars; [stab2|intros k; repeat split]|]. intros u2.
    eapply tr_bind; [stab2|apply tr_hn; [stab2|hnt hknown]|]. intros d.
    eapply tr_bind; [stab2|apply tr_hn; [stab2|unfold budget_error; hnt hknown]|]. intros u3.
    eapply tr_bind; [stab2|apply tr_run_builtin; stab2|]. intros r.
    eapply tr_bind; [stab2|apply tr_upd_ctx_keepvars; [stab2|intros k; repeat split]|]. intros u4.
    eapply tr_post; [apply tr_ret|]. intros a s [-> [[_ HR] _]]. exact HR.
  - destruct (assoc_str (tval t) fs) as [fd|]; [|apply tr_error_cls].
    eapply tr_bind; [stab2|apply tr_mapM_resok; stab2|]. intros vals.
    destruct (negb _); [apply tr_rt_error|].
    eapply tr_bind; [stab2|apply tr_new_ctx; stab2|]. intros fc.
    eapply tr_bind; [stab2|apply Hba; [stab2|intros s [[_ HF] Hk]; split; assumption]|]. intros u1.
    eapply tr_bind; [stab2|apply tr_upd_ctx_keepvars; [stab2|intros k; repeat split]|]. intros u2.
    eapply tr_bind; [stab2|apply tr_hn; [stab2|hnt hknown]|]. intros d.
    eapply tr_bind; [stab2|apply tr_hn; [stab2|unfold budget_error; hnt hknown]|]. intros u3.
    eapply tr_bind; [stab2|apply tr_hn; [stab2|hnt hknown]|]. intros u4.
    eapply tr_bind; [stab2|apply trT_call_body; [intros P' SP'; apply Hb; exact SP'|stab2]|]. intros u5.
    eapply tr_bind; [stab2|apply tr_get_ctx|]. intros fx.
    destruct (x_retval fx) as [r|] eqn:Er; [|apply tr_rt_error].
    eapply tr_bind; [stab2|apply tr_upd_ctx_keepvars; [stab2|intros k; repeat split]|]. intros u6.
    eapply tr_post; [apply tr_ret|]. intros a s [-> [[_ [_ [_ HR]]] _]]. apply HR. first [exact Er|reflexivity].
Qed.
End Level.
