(* Lemmas_EnumStates.v -- enumerated arithmetic as the evaluator performs it, in every state: for a value of type T with n names at
   position i and an INTEGER k, `e + k` / `k + e` / `e - k` yield the value of the SAME type T at position (i +/- k) mod n
   (enum_arith, C19_add_cyclic), and nothing in the state changes. *)
From PE2 Require Import Eval Run Enums Lemmas_Enums Lemmas_Copy Lemmas_Out Lemmas_Scope Lemmas_ConstLogic.
Local Open Scope Z_scope.

Lemma dk_eqb_refl k : dk_eqb k k = true. Proof. apply dk_eqb_eq. reflexivity. Qed.
Ltac kinds := repeat (cbn [r_type r_val dk andb orb fst snd]; rewrite ?dk_eqb_refl; change (dk_eqb KEnum KInt) with false; change (dk_eqb KInt KEnum) with false).

Theorem enum_plus_or_minus_integer t c s tn i k vals :
  (tt t = TPLUS \/ tt t = TMINUS) -> lookup_enum_def c tn true s = (Ok (Some vals), s) -> vals <> [] ->
  eval_arith t c (mkRes (mkDT KEnum (Some tn)) (Some (PEnum tn i))) (res_of KInt (PInt k)) s =
    (Ok (mkRes (mkDT KEnum (Some tn)) (Some (PEnum tn (enum_arith (tt_eqb (tt t) TPLUS) i k (Z.of_nat (List.length vals)))))), s).
Proof.
  intros Ht Hd Hv. unfold eval_arith. cbv zeta. unfold dt_is, res_of, dt_prim. kinds.
  assert (Hop : tt_eqb (tt t) TPLUS || tt_eqb (tt t) TMINUS = true) by (destruct Ht as [-> | ->]; reflexivity).
  rewrite Hop. kinds. unfold bind at 1, as_payload at 1. kinds. cbn [ret]. unfold bind at 1, as_int at 1. kinds. cbn [ret]. kinds.
  unfold bind at 1. rewrite Hd. kinds.
  destruct (Z.of_nat (List.length vals) =? 0) eqn:E; [apply Z.eqb_eq in E; destruct vals; [contradiction|cbn in E; lia]|]. reflexivity.
Qed.

Theorem integer_plus_enum t c s tn i k vals :
  tt t = TPLUS -> lookup_enum_def c tn true s = (Ok (Some vals), s) -> vals <> [] ->
  eval_arith t c (res_of KInt (PInt k)) (mkRes (mkDT KEnum (Some tn)) (Some (PEnum tn i))) s =
    (Ok (mkRes (mkDT KEnum (Some tn)) (Some (PEnum tn (enum_arith true k i (Z.of_nat (List.length vals)))))), s).
Proof.
  intros Ht Hd Hv. unfold eval_arith. cbv zeta. unfold dt_is, res_of, dt_prim. kinds. rewrite Ht. cbn [tt_eqb]. kinds.
  unfold bind at 1, as_payload at 1. kinds. cbn [ret]. unfold bind at 1, as_int at 1. kinds. cbn [ret]. kinds.
  change (tt_eqb TPLUS TPLUS) with true. cbn [orb]. cbv beta. unfold bind at 1. rewrite Hd. kinds.
  destruct (Z.of_nat (List.length vals) =? 0) eqn:E; [apply Z.eqb_eq in E; destruct vals; [contradiction|cbn in E; lia]|]. reflexivity.
Qed.
