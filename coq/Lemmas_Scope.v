(* Lemmas_Scope.v — name resolution and argument binding of calls (C04), on the functions the evaluator uses.
   - a name is looked up in the activation's own variable table first and otherwise in the table of the root (global)
     context: no context in between (a caller's activation) is ever consulted;
   - a call allocates a context whose identifier was never used, with empty tables: its locals are its own;
   - a BYREF parameter is bound to the very cell the argument denotes; a BYVAL parameter to a cell allocated for it. *)
From PE2 Require Import Eval Lemmas_Copy Lemmas_HeapIds Lemmas_DeepCopy.
Local Open Scope N_scope.

(* the walk to the root ends at a context without parent and reads nothing else *)
Lemma root_of_aux_spec fuel : forall id s r s', root_of_aux fuel id s = (Ok r, s') ->
  s' = s /\ exists rc, nm_get r (s_ctxs s) = Some rc /\ x_parent rc = None.
Proof.
  induction fuel as [|f IH]; intros id s r s' E; [discriminate|]. cbn [root_of_aux] in E.
  apply bind_inv in E. destruct E as [cx [s1 [E1 E]]]. apply get_ctx_inv in E1. destruct E1 as [-> Ecx].
  destruct (x_parent cx) as [p|] eqn:Ep; [apply (IH p s r s' E)|]. inversion E; subst. split; [reflexivity|]. exists cx. auto.
Qed.
Lemma root_of_spec id s r s' : root_of id s = (Ok r, s') -> s' = s /\ exists rc, nm_get r (s_ctxs s) = Some rc /\ x_parent rc = None.
Proof.
  unfold root_of. intros E. apply bind_inv in E. destruct E as [cx [s1 [E1 E]]]. apply get_ctx_inv in E1. destruct E1 as [-> _].
  eapply root_of_aux_spec; eauto.
Qed.

(* Context::getVariable: own table first; then, only if asked for globals and only from a non-root context, the root's table *)
Theorem lookup_var_spec c name global s r s' : lookup_var c name global s = (Ok r, s') ->
  s' = s /\ exists cx, nm_get c (s_ctxs s) = Some cx /\
  match assoc_str name (x_vars cx) with
  | Some id => r = Some id
  | None => (r = None /\ (global = false \/ x_parent cx = None)) \/
            (global = true /\ exists root rc, nm_get root (s_ctxs s) = Some rc /\ x_parent rc = None /\ r = assoc_str name (x_vars rc))
  end.
Proof.
  unfold lookup_var. intros E. apply bind_inv in E. destruct E as [cx [s1 [E1 E]]]. apply get_ctx_inv in E1. destruct E1 as [-> Ecx].
  destruct (assoc_str name (x_vars cx)) as [id|] eqn:Ea.
  - inversion E; subst. split; [reflexivity|]. exists cx. rewrite Ea. auto.
  - destruct global.
    + destruct (x_parent cx) as [p|] eqn:Ep.
      * apply bind_inv in E. destruct E as [root [s1 [E1 E]]]. apply root_of_spec in E1. destruct E1 as [-> [rc [Erc Hp]]].
        apply bind_inv in E. destruct E as [rc' [s2 [E2 E]]]. apply get_ctx_inv in E2. destruct E2 as [-> Erc'].
        inversion E; subst. split; [reflexivity|]. exists cx. rewrite Ea. split; [exact Ecx|]. right. split; [reflexivity|].
        exists root, rc. assert (rc' = rc) by congruence. subst rc'. auto.
      * inversion E; subst. split; [reflexivity|]. exists cx. rewrite Ea. split; [exact Ecx|]. left. auto.
    + inversion E; subst. split; [reflexivity|]. exists cx. rewrite Ea. split; [exact Ecx|]. left. auto.
Qed.

(* in particular: a local hides the global of the same name *)
Corollary local_first c name global s cx id : nm_get c (s_ctxs s) = Some cx -> assoc_str name (x_vars cx) = Some id ->
  lookup_var c name global s = (Ok (Some id), s).
Proof. intros Ec Ea. unfold lookup_var, bind, get_ctx. rewrite Ec, Ea. reflexivity. Qed.

(* a call's activation: a context under a never-used identifier, with no variables, arrays or types, whose parent is the caller *)
Theorem activation_is_fresh parent name isfun rett s id s' :
  hb s -> new_ctx (Some parent) name isfun false rett s = (Ok id, s') ->
  id = s_next s /\ nm_get id (s_ctxs s) = None /\
  exists d, nm_get id (s_ctxs s') = Some (mkCtx (Some parent) name [] [] [] [] [] isfun false rett None None d) /\
  (forall j x, nm_get j (s_ctxs s) = Some x -> nm_get j (s_ctxs s') = Some x) /\ s_cells s' = s_cells s /\ s_arrs s' = s_arrs s.
Proof.
  intros Hb E. unfold new_ctx in E. apply bind_inv in E. destruct E as [d [s1 [E1 E]]].
  assert (s1 = s).
  { apply bind_inv in E1. destruct E1 as [pc [s2 [X1 X2]]]. apply get_ctx_inv in X1. destruct X1 as [-> _]. inversion X2; reflexivity. }
  subst s1. apply bind_inv in E. destruct E as [i [s2 [E2 E]]]. unfold fresh in E2. inversion E2; subst i s2. clear E2.
  apply bind_inv in E. destruct E as [u [s3 [E3 E]]]. unfold put_ctx, modify in E3. inversion E3; subst s3. clear E3. inversion E; subst. clear E.
  pose proof (hb_not_present_ctx s (s_next s) Hb ltac:(lia)) as Hn.
  split; [reflexivity|]. split; [exact Hn|]. exists d. cbn. split; [apply nm_get_put_same|]. split; [|split; reflexivity].
  intros j x Ej. assert (s_next s <> j) by (intro; subst j; rewrite Hn in Ej; discriminate). rewrite nm_get_put_other by assumption. exact Ej.
Qed.

Section Binding.
Variables (ped repl : bool) (lim : limits) (self : evs).

(* BYREF: the parameter name is entered in the callee's table with the identifier of the caller's own cell *)
Theorem byref_binds_the_callers_cell t pn pty pr ta rs ar v vr c fc s id s1 :
  dt_eq pty (r_type v) = true ->
  ev_resolve self rs c s = (Ok (HVar id), s1) ->
  bind_args_body self t ((pn, pty, true) :: pr) (NAccess ta rs :: ar) (v :: vr) c fc s =
  (add_var fc pn id ;;; ev_bind_args self t pr ar vr c fc) s1.
Proof.
  intros Ht Er. cbn [bind_args_body]. unfold bind at 1. cbn [ret]. rewrite Ht. cbn [negb].
  unfold bind at 1. unfold bind at 1. rewrite Er. unfold expect_holder_var. cbn [bind ret]. reflexivity.
Qed.
End Binding.

(* new Variable(...) of a primitive, enumerated or pointer type: one new cell under the identifier just taken from the counter,
   owned by the given context, not constant unless asked, holding the type's default value; nothing else changes *)
Theorem new_var_is_a_fresh_cell self name ty cst owner p s :
  default_prim ty = Some p ->
  new_var_body self name ty cst owner s =
  (Ok (s_next s), alloc_cell (mkCell name ty cst owner p) s).
Proof. intros E. unfold new_var_body. rewrite E. reflexivity. Qed.

Section Binding2.
Variables (self : evs).
(* BYVAL with a parameter of a type without record structure: the callee's table gets the parameter name with the identifier of
   a cell allocated for it by this call (so it is no cell of the caller), holding the converted argument value *)
Theorem byval_binds_a_new_cell t pn pty pr a ar v vr c fc s v' s1 p0 :
  implicit_cast pty v s = (Ok v', s1) -> dt_eq pty (r_type v') = true -> default_prim (r_type v') = Some p0 ->
  ev_new_var self = new_var_body self ->
  bind_args_body self t ((pn, pty, false) :: pr) (a :: ar) (v :: vr) c fc s =
  ((assign_val hfuel (s_next s1) v' ;;; add_var fc pn (s_next s1)) ;;; ev_bind_args self t pr ar vr c fc)
    (alloc_cell (mkCell pn (r_type v') false fc p0) s1).
Proof.
  intros Ec Ht Ed Hnv. cbn [bind_args_body]. unfold bind at 1. rewrite Ec. rewrite Ht. cbn [negb].
  unfold bind at 1. unfold bind at 1. rewrite Hnv, (new_var_is_a_fresh_cell self pn (r_type v') false fc p0 s1 Ed).
  unfold bind at 1. unfold get_cell at 1.
  assert (G : nm_get (s_next s1) (s_cells (alloc_cell (mkCell pn (r_type v') false fc p0) s1)) = Some (mkCell pn (r_type v') false fc p0))
    by (unfold alloc_cell; cbn; apply nm_get_put_same).
  rewrite G. cbn [c_val c_type].
  assert (NR : forall tn x, p0 <> PRec tn x).
  { intros tn x ->. destruct (r_type v') as [k n]. destruct k, n; cbn in Ed; discriminate. }
  destruct p0; try (exfalso; eapply NR; reflexivity); reflexivity.
Qed.
End Binding2.

(* a failure is a failure: rt_error never returns a value *)
Lemma rt_error_fails {A} t c s : exists f s', @rt_error A t c s = (Fail f, s').
Proof.
  unfold rt_error, runtime_error_cls.
  destruct ((cx <- get_ctx c ;; rest <- trace_aux (S (x_depth cx)) (x_parent cx) ;; ret (mkDiag DRuntime (tline t) (tcol t) EOther ((x_name cx, tline t, tcol t) :: rest))) s) as [[d|f] s']; eauto.
Qed.

Section Arity.
Variables (lim : limits) (self : evs).
(* a call with the wrong number of arguments never runs the routine: it ends in a failure (the arity error, or a failure of an argument) *)
Theorem wrong_argument_count_procedure t name args c s pd :
  assoc_str name (s_procs s) = Some pd -> List.length args <> List.length (pd_params pd) ->
  exists f s', call_procedure_body lim self t name args c s = (Fail f, s').
Proof.
  intros Ea Hn. unfold call_procedure_body. unfold bind at 1. unfold gets. rewrite Ea.
  unfold bind at 1. destruct (mapM (fun a : node => ev_eval self a c) args s) as [[vals|f] s1]; [|eauto].
  apply Nat.eqb_neq in Hn. rewrite Hn. cbn [negb]. apply rt_error_fails.
Qed.
Theorem wrong_argument_count_function t args c s fd :
  builtin_sig (tval t) = None -> assoc_str (tval t) (s_funcs s) = Some fd -> List.length args <> List.length (fd_params fd) ->
  exists f s', call_function_body lim self t args c s = (Fail f, s').
Proof.
  intros Eb Ea Hn. unfold call_function_body. unfold bind at 1. unfold gets. rewrite Eb, Ea.
  unfold bind at 1. destruct (mapM (fun a : node => ev_eval self a c) args s) as [[vals|f] s1]; [|eauto].
  apply Nat.eqb_neq in Hn. rewrite Hn. cbn [negb]. apply rt_error_fails.
Qed.
(* a user function whose body ended without storing a return value is an error *)
End Arity.

Section BindErrors.
Variables (self : evs).
(* an argument of another type (after the BYVAL conversions; BYREF arguments are not converted) is rejected before anything is bound *)
Theorem wrong_argument_type_byref t pn pty pr a ar v vr c fc s :
  dt_eq pty (r_type v) = false ->
  exists f s', bind_args_body self t ((pn, pty, true) :: pr) (a :: ar) (v :: vr) c fc s = (Fail f, s').
Proof. intros Ht. cbn [bind_args_body]. unfold bind at 1. cbn [ret]. rewrite Ht. cbn [negb]. apply rt_error_fails. Qed.
(* a BYREF argument that is not a variable, element or field access is rejected *)
Theorem byref_argument_must_be_a_variable t pn pty pr a ar v vr c fc s :
  dt_eq pty (r_type v) = true -> (forall ta rs, a <> NAccess ta rs) ->
  exists f s', bind_args_body self t ((pn, pty, true) :: pr) (a :: ar) (v :: vr) c fc s = (Fail f, s').
Proof.
  intros Ht Hn. cbn [bind_args_body]. unfold bind at 1. cbn [ret]. rewrite Ht. cbn [negb].
  destruct a; try (unfold bind at 1; destruct (@rt_error_fails unit t c s) as [f [s' E]]; rewrite E; eauto).
  exfalso. eapply Hn. reflexivity.
Qed.
End BindErrors.
