(* Lemmas_Control.v — laws of the control-flow combinators (Control.v), for arbitrary condition and
   body computations. *)
From PE2 Require Import Control Eval.
From Coq Require Import ZifyBool.
Local Open Scope Z_scope.

Definition rbool (b : bool) : result := res_of KBool (PBool b).
Definition is_signal (f : fail) : bool := match f with FBreak _ | FContinue _ => true | _ => false end.
Definition no_signal {A} (m : M A) : Prop := forall s f s', m s = (Fail f, s') -> is_signal f = false.

Section Laws.
Variable lim : limits.
Variables (t : token) (c : N).

Lemma bind_ok {A B} (m : M A) (k : A -> M B) s a s1 : m s = (Ok a, s1) -> bind m k s = k a s1.
Proof. intros H. unfold bind. rewrite H. reflexivity. Qed.
Lemma bind_fail {A B} (m : M A) (k : A -> M B) s f s1 : m s = (Fail f, s1) -> bind m k s = (Fail f, s1).
Proof. intros H. unfold bind. rewrite H. reflexivity. Qed.

Lemma cond_bool_value ce s s1 v : ce s = (Ok (rbool v), s1) -> cond_bool t c ce s = (Ok v, s1).
Proof. intros H. unfold cond_bool. rewrite (bind_ok _ _ _ _ _ H). reflexivity. Qed.

(* ---- IF: exactly the first branch whose condition is TRUE (or ELSE) ---- *)
Lemma if_true ce b rest s s1 :
  ce s = (Ok (rbool true), s1) -> if_chain t c ((Some ce, b) :: rest) s = (b ;;; ret res_none) s1.
Proof. intros H. cbn [if_chain]. rewrite (bind_ok _ _ _ _ _ (cond_bool_value _ _ _ _ H)). reflexivity. Qed.

Lemma if_false ce b rest s s1 :
  ce s = (Ok (rbool false), s1) -> if_chain t c ((Some ce, b) :: rest) s = if_chain t c rest s1.
Proof. intros H. cbn [if_chain]. rewrite (bind_ok _ _ _ _ _ (cond_bool_value _ _ _ _ H)). reflexivity. Qed.

Lemma if_else b rest s : if_chain t c ((None, b) :: rest) s = (b ;;; ret res_none) s.
Proof. reflexivity. Qed.

Lemma if_none_left s : if_chain t c [] s = (Ok res_none, s).
Proof. reflexivity. Qed.

Lemma if_condition_not_boolean ce b rest s s1 r :
  ce s = (Ok r, s1) -> dk (r_type r) <> KBool ->
  forall x s2, if_chain t c ((Some ce, b) :: rest) s <> (Ok x, s2).
Proof.
  intros H Hk x s2. cbn [if_chain].
  assert (E : dk_eqb (dk (r_type r)) KBool = false).
  { destruct (dk_eqb (dk (r_type r)) KBool) eqn:E; [apply dk_eqb_eq in E; contradiction|reflexivity]. }
  unfold cond_bool. unfold bind at 1. unfold bind at 1. rewrite H. rewrite E. cbn [negb].
  unfold rt_error, runtime_error_cls.
  destruct ((cx0 <- get_ctx c;; rest0 <- trace_aux (S (x_depth cx0)) (x_parent cx0);; ret (mkDiag DRuntime (tline t) (tcol t) EOther ((x_name cx0, tline t, tcol t) :: rest0))) s1) as [[d|f] s3]; discriminate.
Qed.

(* ---- CASE: exactly the first clause that matches ---- *)
Lemma case_match m b rest s s1 : m s = (Ok true, s1) -> case_chain ((m, b) :: rest) s = (b ;;; ret res_none) s1.
Proof. intros H. cbn [case_chain]. rewrite (bind_ok _ _ _ _ _ H). reflexivity. Qed.
Lemma case_no_match m b rest s s1 : m s = (Ok false, s1) -> case_chain ((m, b) :: rest) s = case_chain rest s1.
Proof. intros H. cbn [case_chain]. rewrite (bind_ok _ _ _ _ _ H). reflexivity. Qed.
Lemma case_none_left s : case_chain [] s = (Ok res_none, s).
Proof. reflexivity. Qed.

(* ---- WHILE tests before, REPEAT after every iteration (also one ended by CONTINUE) ---- *)
Lemma while_unfold k ce br :
  while_loop lim (S k) t c ce br =
  (tick lim t c ;;; v <- cond_bool t c ce ;;
   if negb v then ret res_none else go_on <- run_body br ;; if go_on then while_loop lim k t c ce br else ret res_none).
Proof. reflexivity. Qed.

Lemma repeat_unfold k ce br :
  repeat_loop lim (S k) t c ce br =
  (tick lim t c ;;; go_on <- run_body br ;;
   if negb go_on then ret res_none else v <- cond_bool t c ce ;; if v then ret res_none else repeat_loop lim k t c ce br).
Proof. reflexivity. Qed.

Lemma run_body_continue br s s1 tk : br s = (Fail (FContinue tk), s1) -> run_body br s = (Ok true, s1).
Proof. intros H. unfold run_body, catch, bind. rewrite H. reflexivity. Qed.
Lemma run_body_break br s s1 tk : br s = (Fail (FBreak tk), s1) -> run_body br s = (Ok false, s1).
Proof. intros H. unfold run_body, catch, bind. rewrite H. reflexivity. Qed.
Lemma run_body_normal br s s1 : br s = (Ok Datatypes.tt, s1) -> run_body br s = (Ok true, s1).
Proof. intros H. unfold run_body, catch, bind. rewrite H. reflexivity. Qed.

(* after an iteration that CONTINUE ended, REPEAT still evaluates its UNTIL condition *)
Lemma repeat_continue_tests_until k ce br s s0 s1 s2 tk :
  tick lim t c s = (Ok Datatypes.tt, s0) -> br s0 = (Fail (FContinue tk), s1) -> ce s1 = (Ok (rbool true), s2) ->
  repeat_loop lim (S k) t c ce br s = (Ok res_none, s2).
Proof.
  intros Ht Hb Hc. rewrite repeat_unfold. rewrite (bind_ok _ _ _ _ _ Ht).
  rewrite (bind_ok _ _ _ _ _ (run_body_continue _ _ _ _ Hb)). cbn [negb].
  rewrite (bind_ok _ _ _ _ _ (cond_bool_value _ _ _ _ Hc)). reflexivity.
Qed.

(* ---- loops absorb BREAK and CONTINUE: they never leave a loop ---- *)
Lemma no_signal_ret {A} (a : A) : no_signal (ret a).
Proof. intros s f s' H. inversion H. Qed.
Lemma no_signal_bind {A B} (m : M A) (k : A -> M B) : no_signal m -> (forall a, no_signal (k a)) -> no_signal (bind m k).
Proof.
  intros Hm Hk s f s' H. unfold bind in H. destruct (m s) as [[a|f0] s0] eqn:E.
  - eapply Hk; eauto.
  - inversion H; subst. eapply Hm; eauto.
Qed.
Lemma no_signal_error {A} cls tk cx : no_signal (@runtime_error_cls A cls tk cx).
Proof.
  intros s f s' H. unfold runtime_error_cls in H.
  destruct ((cx0 <- get_ctx cx;; rest <- trace_aux (S (x_depth cx0)) (x_parent cx0);; ret (mkDiag DRuntime (tline tk) (tcol tk) cls ((x_name cx0, tline tk, tcol tk) :: rest))) s) as [[d|f0] s1] eqn:E.
  - inversion H; reflexivity.
  - inversion H; subst. unfold bind in E.
    destruct (get_ctx cx s) as [[cx0|f1] s2] eqn:E1.
    + destruct (trace_aux (S (x_depth cx0)) (x_parent cx0) s2) as [[rest|f2] s3] eqn:E2; [inversion E|].
      inversion E; subst.
      assert (G : forall n o s4 s5 f5, trace_aux n o s4 = (Fail f5, s5) -> is_signal f5 = false).
      { induction n as [|n IH]; intros o s4 s5 f5 Hq; cbn in Hq; [inversion Hq|].
        destruct o as [i|]; [|inversion Hq]. unfold bind in Hq. unfold get_ctx in Hq at 1.
        destruct (nm_get i (s_ctxs s4)) as [ci|]; [|inversion Hq; reflexivity].
        destruct (trace_aux n (x_parent ci) s4) as [[r5|f6] s6] eqn:E6; [inversion Hq|]. inversion Hq; subst. eapply IH; eauto. }
      eapply G; eauto.
    + inversion E; subst. unfold get_ctx in E1. destruct (nm_get cx (s_ctxs s)); inversion E1; reflexivity.
Qed.
Lemma no_signal_crash {A} msg : no_signal (@crash A msg).
Proof. intros s f s' H. inversion H; reflexivity. Qed.
Lemma no_signal_tick : no_signal (tick lim t c).
Proof.
  unfold tick. apply no_signal_bind; [intros s f s' H; inversion H|]. intros a.
  destruct ((0 <? max_steps lim) && (max_steps lim <? a + 1)); [apply no_signal_error|]. intros s f s' H. inversion H.
Qed.
Lemma no_signal_cond ce : no_signal ce -> no_signal (cond_bool t c ce).
Proof.
  intros H. unfold cond_bool. apply no_signal_bind; [exact H|]. intros r.
  destruct (negb (dk_eqb (dk (r_type r)) KBool)); [apply no_signal_error|].
  unfold as_bool. destruct (r_val r) as [[]|]; try apply no_signal_crash. apply no_signal_ret.
Qed.
Lemma no_signal_run_body br : no_signal (run_body br).
Proof.
  intros s f s' H. unfold run_body, catch, bind in H. destruct (br s) as [[[]|f0] s0] eqn:E.
  - inversion H.
  - destruct f0; inversion H; subst; reflexivity.
Qed.

Lemma while_absorbs_signals k ce br : no_signal ce -> no_signal (while_loop lim k t c ce br).
Proof.
  intros Hc. induction k as [|k IH]; [intros s f s' H; inversion H; reflexivity|].
  rewrite while_unfold. apply no_signal_bind; [apply no_signal_tick|]. intros _.
  apply no_signal_bind; [apply no_signal_cond; exact Hc|]. intros v.
  destruct (negb v); [apply no_signal_ret|]. apply no_signal_bind; [apply no_signal_run_body|].
  intros g. destruct g; [exact IH|apply no_signal_ret].
Qed.

Lemma repeat_absorbs_signals k ce br : no_signal ce -> no_signal (repeat_loop lim k t c ce br).
Proof.
  intros Hc. induction k as [|k IH]; [intros s f s' H; inversion H; reflexivity|].
  rewrite repeat_unfold. apply no_signal_bind; [apply no_signal_tick|]. intros _.
  apply no_signal_bind; [apply no_signal_run_body|]. intros g.
  destruct (negb g); [apply no_signal_ret|]. apply no_signal_bind; [apply no_signal_cond; exact Hc|].
  intros v. destruct v; [apply no_signal_ret|exact IH].
Qed.

Lemma no_signal_get_cell id : no_signal (get_cell id).
Proof. intros s f s' H. unfold get_cell in H. destruct (nm_get id (s_cells s)); inversion H; reflexivity. Qed.

Lemma for_absorbs_signals k it stepv stop br : no_signal (for_loop lim k t c it stepv stop br).
Proof.
  induction k as [|k IH]; [intros s f s' H; inversion H; reflexivity|].
  cbn [for_loop]. apply no_signal_bind; [apply no_signal_get_cell|]. intros cl.
  destruct (c_val cl); try apply no_signal_crash.
  destruct (for_continues stepv z stop); [|apply no_signal_ret].
  apply no_signal_bind; [apply no_signal_tick|]. intros _.
  apply no_signal_bind; [apply no_signal_run_body|]. intros g.
  destruct (negb g); [apply no_signal_ret|]. apply no_signal_bind; [apply no_signal_get_cell|]. intros cl'.
  destruct (c_val cl'); try apply no_signal_crash.
  apply no_signal_bind; [|intros _; exact IH].
  unfold set_cell_val. apply no_signal_bind; [apply no_signal_get_cell|]. intros c0 s f s' H. inversion H.
Qed.
End Laws.

(* ---- FOR: the iteration sequence and the final iterator value (closed form of the header test) ---- *)
Fixpoint for_values (fuel : nat) (i stop stepv : Z) : list Z * Z :=
  match fuel with
  | O => ([], i)
  | S f => if for_continues stepv i stop
           then let '(l, fin) := for_values f (i + stepv) stop stepv in (i :: l, fin)
           else ([], i)
  end.
Definition for_count (start stop stepv : Z) : Z := Z.max 0 ((stop - start) / stepv + 1).
Fixpoint seq_from (n : nat) (a stepv : Z) : list Z :=
  match n with O => [] | S n' => a :: seq_from n' (a + stepv) stepv end.

Ltac Zify.zify_post_hook ::= Z.div_mod_to_equations.
Lemma count_zero_neg start stop stepv : stepv < 0 -> (stop - start) / stepv + 1 <= 0 -> start < stop.
Proof. intros. nia. Qed.
Lemma count_zero_pos start stop stepv : 0 < stepv -> (stop - start) / stepv + 1 <= 0 -> stop < start.
Proof. intros. nia. Qed.
Lemma count_pos_neg start stop stepv : stepv < 0 -> 0 < (stop - start) / stepv + 1 -> stop <= start.
Proof. intros. nia. Qed.
Lemma count_pos_pos start stop stepv : 0 < stepv -> 0 < (stop - start) / stepv + 1 -> start <= stop.
Proof. intros. nia. Qed.

Lemma for_values_spec : forall n fuel start stop stepv, stepv <> 0 ->
  Z.of_nat n = for_count start stop stepv -> (n < fuel)%nat ->
  for_values fuel start stop stepv = (seq_from n start stepv, start + Z.of_nat n * stepv).
Proof.
  induction n as [|n IH]; intros fuel start stop stepv Hs Hn Hf; destruct fuel as [|f]; try lia; cbn [for_values seq_from]; unfold for_continues.
  - unfold for_count in Hn.
    assert (Hle : (stop - start) / stepv + 1 <= 0) by lia. clear Hn.
    destruct (stepv <? 0) eqn:E.
    + pose proof (count_zero_neg start stop stepv ltac:(lia) Hle).
      destruct (stop <=? start) eqn:G; [lia|]. f_equal; lia.
    + pose proof (count_zero_pos start stop stepv ltac:(lia) Hle).
      destruct (start <=? stop) eqn:G; [lia|]. f_equal; lia.
  - unfold for_count in Hn.
    assert (Hpos : 0 < (stop - start) / stepv + 1) by lia.
    assert (Hc : (if stepv <? 0 then stop <=? start else start <=? stop) = true).
    { destruct (stepv <? 0) eqn:E.
      - pose proof (count_pos_neg start stop stepv ltac:(lia) Hpos). lia.
      - pose proof (count_pos_pos start stop stepv ltac:(lia) Hpos). lia. }
    rewrite Hc. rewrite (IH f (start + stepv) stop stepv Hs); [f_equal; lia| |lia].
    unfold for_count.
    replace (stop - (start + stepv)) with ((stop - start) + (-1) * stepv) by ring.
    rewrite Z.div_add by lia. lia.
Qed.

(* the final value is the first one past stop in the direction of step *)
Lemma for_final_past_stop start stop stepv : stepv <> 0 ->
  let n := for_count start stop stepv in
  for_continues stepv (start + n * stepv) stop = false /\
  (0 < n -> for_continues stepv (start + (n - 1) * stepv) stop = true).
Proof.
  intros Hs n. unfold for_continues, for_count in *. subst n.
  destruct (stepv <? 0) eqn:E; split; intros; nia.
Qed.

(* the evaluator's loops are these combinators (the level of the record is its fuel) *)
Lemma ev_fuel_at ped repl lim f : ev_fuel (evs_at ped repl lim f) = f.
Proof. induction f as [|f IH]; cbn; [reflexivity|]. rewrite IH. reflexivity. Qed.

Lemma eval_while ped repl lim f t cond body c :
  eval ped repl lim (S f) (NWhile t cond body) c = while_loop lim f t c (eval ped repl lim f cond c) (run_block ped repl lim f body c).
Proof. unfold eval, run_block. cbn [evs_at evs_step ev_eval eval_body]. rewrite ev_fuel_at. reflexivity. Qed.
Lemma eval_repeat ped repl lim f t cond body c :
  eval ped repl lim (S f) (NRepeat t cond body) c = repeat_loop lim f t c (eval ped repl lim f cond c) (run_block ped repl lim f body c).
Proof. unfold eval, run_block. cbn [evs_at evs_step ev_eval eval_body]. rewrite ev_fuel_at. reflexivity. Qed.
