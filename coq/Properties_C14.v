(* Properties_C14.v — a random file is a stable, 1-based sequence of independent records.
   The handle operations are the functions the evaluator calls (Files.v: rf_seek, rf_put, rf_get).
   PARTIAL: stability across CLOSEFILE/OPENFILE and restart is the record <-> line mapping of
   Codec.v (load_records / store_records); it is checked by the correspondence and by the explicit
   list-and-cursor oracle on reopen/restart histories, not proved here. *)
From PE2 Require Import Files Lemmas_Arrays Lemmas_Files.
Local Open Scope Z_scope.

Theorem C14_seek_exact : forall f k, (exists f', rf_seek f k = Some f') <-> 1 <= k <= nrecs f + 1.
Proof. exact seek_exact. Qed.
Print Assumptions C14_seek_exact.

Theorem C14_seek_only_moves_cursor : forall f k f', rf_seek f k = Some f' -> cursor f' = k /\ of_recs f' = of_recs f /\ handle_ok f'.
Proof. exact seek_effect. Qed.
Print Assumptions C14_seek_only_moves_cursor.

Theorem C14_put_replaces : forall f txt, handle_ok f -> cursor f <= nrecs f ->
  nrecs (rf_put f txt) = nrecs f /\ nth_z (of_recs (rf_put f txt)) (of_ptr f) = Some txt /\
  (forall j, j <> of_ptr f -> nth_z (of_recs (rf_put f txt)) j = nth_z (of_recs f) j) /\ cursor (rf_put f txt) = cursor f.
Proof. exact put_replace. Qed.
Print Assumptions C14_put_replaces.

Theorem C14_put_appends : forall f txt, handle_ok f -> cursor f = nrecs f + 1 ->
  nrecs (rf_put f txt) = nrecs f + 1 /\ nth_z (of_recs (rf_put f txt)) (of_ptr f) = Some txt /\
  (forall j, 0 <= j < nrecs f -> nth_z (of_recs (rf_put f txt)) j = nth_z (of_recs f) j) /\ cursor (rf_put f txt) = cursor f.
Proof. exact put_append. Qed.
Print Assumptions C14_put_appends.

Theorem C14_get_at_end_error : forall f, handle_ok f -> cursor f = nrecs f + 1 -> rf_get f = None.
Proof. exact get_at_end_error. Qed.
Print Assumptions C14_get_at_end_error.

Theorem C14_get_in_range : forall f, handle_ok f -> cursor f <= nrecs f -> exists r, rf_get f = Some r.
Proof. exact get_in_range. Qed.
Print Assumptions C14_get_in_range.

(* every history of SEEK / PUTRECORD / GETRECORD on a handle produces the outputs and the final
   sequence of the list-and-cursor specification (induction over the operation list) *)
Theorem C14_history : forall ops f outs0, handle_ok f ->
  let '(f', outs) := fold_left (fun acc o => let '(f0, outs) := acc in let '(f1, r) := impl_step f0 o in (f1, outs ++ [r])) ops (f, outs0) in
  let '(sp', outs') := fold_left (fun acc o => let '(s0, outs) := acc in let '(s1, r) := spec_step s0 o in (s1, outs ++ [r])) ops (abs_rf f, outs0) in
  abs_rf f' = sp' /\ outs = outs' /\ handle_ok f'.
Proof. exact history_refines. Qed.
Print Assumptions C14_history.

Example C14_fresh_handle_ok : handle_ok (mkOfile (str_of_string "a.dat") FRandom [] [] 0 false) /\
  handle_ok (mkOfile (str_of_string "a.dat") FRandom [] [str_of_string "r1"; str_of_string "r2"] 2 true).
Proof. unfold handle_ok, cursor, nrecs. cbn. lia. Qed.
