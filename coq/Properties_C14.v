(* Properties_C14.v — a random file is a stable, 1-based sequence of independent records.
   The handle operations are the functions the evaluator calls (Files.v: rf_seek, rf_put, rf_get).
   Stability across CLOSEFILE/OPENFILE and restart is the record <-> line mapping of Codec.v
   (store_records at close, load_records at open): proved for every sequence of records in which each record is
   line safe, not empty and does not start with '#' -- which every value the codec writes is (Properties_C13). *)
From PE2 Require Import Files Lemmas_Arrays Lemmas_Files Lemmas_Codec Lemmas_RecLines Eval Run Lemmas_RandStates.
Local Open Scope Z_scope.

Theorem C14_seek_exact : forall f k, (exists f', rf_seek f k = Some f') <-> 1 <= k <= nrecs f + 1.
Proof. exact seek_exact. Qed.
Print Assumptions C14_seek_exact.

Theorem C14_seek_only_moves_cursor : forall f k f', rf_seek f k = Some f' -> cursor f' = k /\ of_recs f' = of_recs f /\ handle_ok f'.
Proof. exact seek_effect. Qed.
Print Assumptions C14_seek_only_moves_cursor.

Theorem C14_put_replaces : forall f txt, handle_ok f -> cursor f <= nrecs f ->
  nrecs (rf_put f txt) = nrecs f /\ nth_z (of_recs (rf_put f txt)) (of_ptr f) = Some txt /\
  (forall j, j <> of_ptr f -> nth_z (of_recs (rf_put f txt)) j = nth_z (of_recs f) j) /\ cursor (rf_put f txt) = cursor f.
Proof. exact put_replace. Qed.
Print Assumptions C14_put_replaces.

Theorem C14_put_appends : forall f txt, handle_ok f -> cursor f = nrecs f + 1 ->
  nrecs (rf_put f txt) = nrecs f + 1 /\ nth_z (of_recs (rf_put f txt)) (of_ptr f) = Some txt /\
  (forall j, 0 <= j < nrecs f -> nth_z (of_recs (rf_put f txt)) j = nth_z (of_recs f) j) /\ cursor (rf_put f txt) = cursor f.
Proof. exact put_append. Qed.
Print Assumptions C14_put_appends.

Theorem C14_get_at_end_error : forall f, handle_ok f -> cursor f = nrecs f + 1 -> rf_get f = None.
Proof. exact get_at_end_error. Qed.
Print Assumptions C14_get_at_end_error.

Theorem C14_get_in_range : forall f, handle_ok f -> cursor f <= nrecs f -> exists r, rf_get f = Some r.
Proof. exact get_in_range. Qed.
Print Assumptions C14_get_in_range.

(* every history of SEEK / PUTRECORD / GETRECORD on a handle produces the outputs and the final
   sequence of the list-and-cursor specification (induction over the operation list) *)
Theorem C14_history : forall ops f outs0, handle_ok f ->
  let '(f', outs) := fold_left (fun acc o => let '(f0, outs) := acc in let '(f1, r) := impl_step f0 o in (f1, outs ++ [r])) ops (f, outs0) in
  let '(sp', outs') := fold_left (fun acc o => let '(s0, outs) := acc in let '(s1, r) := spec_step s0 o in (s1, outs ++ [r])) ops (abs_rf f, outs0) in
  abs_rf f' = sp' /\ outs = outs' /\ handle_ok f'.
Proof. exact history_refines. Qed.
Print Assumptions C14_history.

(* CLOSEFILE writes the records, OPENFILE reads them: the same sequence, whatever the records contain *)
Theorem C14_sequence_survives_close_and_open : forall rs,
  Forall (fun r => line_safe r = true /\ r <> [] /\ starts_hash r = false) rs -> load_records (store_records rs) = rs.
Proof. exact load_store_records. Qed.
Print Assumptions C14_sequence_survives_close_and_open.

(* on the handle table and the disk: closing a modified random file and opening the name again gives a handle on the
   same records, cursor on the first; the disk is what the close wrote *)
Theorem C14_close_then_reopen : forall f s, of_mode f = FRandom -> of_modified f = true -> os_name_ok (of_name f) = true ->
  Forall rec_ok (of_recs f) ->
  exists s1 s2, close_file_effect f s = (Ok Datatypes.tt, s1) /\ s_files s1 = s_files s /\
                create_file (of_name f) FRandom s1 = (Ok true, s2) /\ s_fs s2 = s_fs s1 /\
                s_files s2 = s_files s ++ [mkOfile (of_name f) FRandom [] (of_recs f) 0 false].
Proof. exact close_then_reopen. Qed.
Print Assumptions C14_close_then_reopen.

Example C14_records_with_line_breaks_reopen :
  let rs := [str_of_string "STRING 5 a
##b"; str_of_string "CHAR 
#"; str_of_string "INTEGER 7"] in
  Forall rec_ok rs /\ Z.of_nat (List.length (split_lines (store_records rs))) = 6 /\ load_records (store_records rs) = rs.
Proof. split; [repeat constructor; discriminate|]. split; vm_compute; reflexivity. Qed.

Example C14_fresh_handle_ok : handle_ok (mkOfile (str_of_string "a.dat") FRandom [] [] 0 false) /\
  handle_ok (mkOfile (str_of_string "a.dat") FRandom [] [str_of_string "r1"; str_of_string "r2"] 2 true).
Proof. unfold handle_ok, cursor, nrecs. cbn. lia. Qed.

(* ---- the three statements themselves, in every state (file name a string literal) ---- *)
(* SEEK "f", a : the cursor of that handle moves as rf_seek says (C14_seek_exact); nothing else changes.  a is any expression that
   yields, without touching the state, an INTEGER >= 1 *)
Theorem C14_seek_statement_moves_the_cursor_only : forall ped repl lim fuel t name a c s ar addr fh fh',
  ev_eval (evs_at ped repl lim (S fuel)) a c s = (Ok ar, s) -> dk (r_type ar) = KInt -> r_val ar = Some (PInt addr) -> (1 <= addr)%Z ->
  find_file (tval name) (s_files s) = Some fh -> of_mode fh = FRandom -> rf_seek fh addr = Some fh' ->
  ev_eval (evs_at ped repl lim (S (S fuel))) (NSeek t (NStr name) a) c s = (Ok res_none, set_files (replace_file fh' (s_files s)) s).
Proof. exact seek_moves_the_cursor. Qed.
Print Assumptions C14_seek_statement_moves_the_cursor_only.

(* PUTRECORD "f", v : the handle becomes rf_put fh txt (C14_put_replaces / C14_put_appends), txt the text form of v's value; nothing
   else changes *)
Theorem C14_putrecord_statement_writes_at_the_cursor_only : forall ped repl lim fuel t name id c s fh vid cl tr txt,
  find_file (tval name) (s_files s) = Some fh -> of_mode fh = FRandom ->
  lookup_var c (tval id) true s = (Ok (Some vid), s) -> lookup_arr c (tval id) true s = (Ok None, s) ->
  nm_get vid (s_cells s) = Some cl -> dk (c_type cl) <> KPtr -> abs_val hfuel c (c_val cl) s = (Ok tr, s) -> dump tr = Some txt ->
  ev_eval (evs_at ped repl lim (S (S fuel))) (NPutRecord t (NStr name) id) c s = (Ok res_none, set_files (replace_file (rf_put fh txt) (s_files s)) s).
Proof. exact putrecord_writes_the_value_at_the_cursor. Qed.
Print Assumptions C14_putrecord_statement_writes_at_the_cursor_only.

(* GETRECORD "f", v : the record under the cursor (rf_get) is loaded into v's value in place; the handle is left as it was *)
Theorem C14_getrecord_statement_loads_the_record_under_the_cursor : forall ped repl lim fuel t name id c s fh vid cl rec old new rest s',
  find_file (tval name) (s_files s) = Some fh -> of_mode fh = FRandom ->
  lookup_var c (tval id) true s = (Ok (Some vid), s) -> lookup_arr c (tval id) true s = (Ok None, s) ->
  nm_get vid (s_cells s) = Some cl -> dk (c_type cl) <> KPtr -> c_const cl = false -> rf_get fh = Some rec ->
  abs_val hfuel c (c_val cl) s = (Ok old, s) -> load old rec = (new, rest, true) -> store_tree hfuel vid new s = (Ok Datatypes.tt, s') ->
  ev_eval (evs_at ped repl lim (S (S fuel))) (NGetRecord t (NStr name) id) c s = (Ok res_none, s').
Proof. exact getrecord_loads_the_record_at_the_cursor. Qed.
Print Assumptions C14_getrecord_statement_loads_the_record_under_the_cursor.
