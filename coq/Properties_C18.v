(* Properties_C18.v — DATE values are real calendar dates in chronological order. *)
From PE2 Require Import Dates Lemmas_Dates.
Local Open Scope Z_scope.

(* SETDATE(d, m, y) yields a date exactly for valid Gregorian triples, with those components *)
Theorem C18_setdate_iff_valid : forall d m y, setdate d m y = Some (d, m, y) <-> valid_gregorian d m y = true.
Proof. exact setdate_iff. Qed.
Print Assumptions C18_setdate_iff_valid.

Theorem C18_setdate_invalid_rejected : forall d m y, valid_gregorian d m y = false -> setdate d m y = None.
Proof. exact setdate_none. Qed.
Print Assumptions C18_setdate_invalid_rejected.

(* a literal d/m/y: whatever survives the range guard and ok() is the triple that was written *)
Theorem C18_literal_components : forall d m y, 0 <= d -> 0 <= m -> 0 <= y ->
  let '(d', m', y') := date_literal_components d m y in
  ymd_ok d' m' y' = true -> (d', m', y') = (d, m, y) /\ valid_gregorian d m y = true.
Proof. exact literal_components. Qed.
Print Assumptions C18_literal_components.

Theorem C18_literal_valid_kept : forall d m y, valid_gregorian d m y = true -> date_literal_components d m y = (d, m, y).
Proof. exact literal_valid. Qed.
Print Assumptions C18_literal_valid_kept.

(* the comparison key orders valid dates chronologically and separates distinct dates *)
Theorem C18_key_monotone : forall d1 m1 y1 d2 m2 y2,
  ymd_ok d1 m1 y1 = true -> ymd_ok d2 m2 y2 = true ->
  (date_key d1 m1 y1 < date_key d2 m2 y2 <-> lex_lt d1 m1 y1 d2 m2 y2).
Proof. exact key_monotone. Qed.
Print Assumptions C18_key_monotone.

Theorem C18_key_injective : forall d1 m1 y1 d2 m2 y2,
  ymd_ok d1 m1 y1 = true -> ymd_ok d2 m2 y2 = true ->
  (date_key d1 m1 y1 = date_key d2 m2 y2 <-> (d1 = d2 /\ m1 = m2 /\ y1 = y2)).
Proof. exact key_injective. Qed.
Print Assumptions C18_key_injective.

(* DAYINDEX advances by one (cyclically, Sunday = 1 .. Saturday = 7) from each valid date to the next,
   and is anchored on known days: this pins it to the true day of the week for every date *)
Theorem C18_weekday_step : forall d m y, ymd_ok d m y = true ->
  let '(d', m', y') := next_day d m y in day_index d' m' y' = day_index d m y mod 7 + 1.
Proof. exact day_index_step. Qed.
Print Assumptions C18_weekday_step.

Theorem C18_weekday_range : forall d m y, 1 <= day_index d m y <= 7.
Proof. exact day_index_range. Qed.
Print Assumptions C18_weekday_range.

Theorem C18_weekday_anchor : day_index 1 1 2000 = 7 /\ day_index 29 9 2026 = 3.
Proof. exact day_index_anchor. Qed.
Print Assumptions C18_weekday_anchor.

Example C18_leap_examples :
  valid_gregorian 29 2 2024 = true /\ valid_gregorian 29 2 1900 = false /\ valid_gregorian 29 2 2000 = true /\
  valid_gregorian 31 4 2021 = false /\ setdate 257 1 2020 = None.
Proof. vm_compute. repeat split; reflexivity. Qed.
