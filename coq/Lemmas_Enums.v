From PE2 Require Import Enums.
Local Open Scope Z_scope.

Lemma rem_congr a n : 0 < n -> exists q, Z.rem a n = a + q * n.
Proof. intros H. exists (- Z.quot a n). pose proof (Z.quot_rem a n ltac:(lia)). lia. Qed.

Lemma rem_bound a n : 0 < n -> - n < Z.rem a n < n.
Proof.
  intros H. destruct (Z_le_gt_dec 0 a).
  - pose proof (Z.rem_bound_pos a n ltac:(lia) H). lia.
  - pose proof (Z.rem_bound_pos (- a) n ltac:(lia) H) as P. rewrite Z.rem_opp_l in P by lia. lia.
Qed.

Lemma enum_arith_spec plus l r n : 0 < n ->
  enum_arith plus l r n = (if plus then l + r else l - r) mod n.
Proof.
  intros H. unfold enum_arith.
  destruct (rem_congr l n H) as [q1 E1]. destruct (rem_congr r n H) as [q2 E2].
  set (s := if plus then Z.rem l n + Z.rem r n else Z.rem l n - Z.rem r n).
  destruct (rem_congr s n H) as [q3 E3]. pose proof (rem_bound s n H) as B.
  set (t := if plus then l + r else l - r).
  assert (Hs : exists q, s = t + q * n).
  { unfold s, t. destruct plus; [exists (q1 + q2)|exists (q1 - q2)]; lia. }
  destruct Hs as [q4 E4].
  destruct (Z.rem s n <? 0) eqn:E.
  - apply Z.ltb_lt in E. apply (Zmod_unique t n (- (q3 + q4 + 1))); lia.
  - apply Z.ltb_ge in E. apply (Zmod_unique t n (- (q3 + q4))); lia.
Qed.
