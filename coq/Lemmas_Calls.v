(* Lemmas_Calls.v — parameter lists: passing modes are sticky, types are shared by groups. *)
From PE2 Require Import Parser.
Local Open Scope Z_scope.

Inductive pmode := MNone | MRef | MVal.
(* one written parameter: an optional mode keyword, and whether its own `: type` follows (false = `name,`) *)
Definition pspec := (pmode * bool)%type.

Definition tkn (t : ttype) (v : string) : token := mkTok t 1 1 (str_of_string v).
Definition ident_n (p : string) (i : nat) : str := str_of_string p ++ nat_digits (Z.of_nat i).

Fixpoint param_tokens_aux (ps : list pspec) (i : nat) : list token :=
  match ps with
  | [] => []
  | (m, typed) :: r =>
    (match i with O => [] | _ => [tkn TCOMMA ""] end) ++
    (match m with MNone => [] | MRef => [tkn TBYREF ""] | MVal => [tkn TBYVAL ""] end) ++
    [mkTok TIDENTIFIER 1 1 (ident_n "p" i)] ++
    (if typed then [tkn TCOLON ""; mkTok TIDENTIFIER 1 1 (ident_n "T" i)] else []) ++
    param_tokens_aux r (S i)
  end.
Definition param_tokens (ps : list pspec) : list token :=
  tkn TLPAREN "" :: param_tokens_aux ps 0 ++ [tkn TRPAREN ""; tkn TEXPRESSION_END ""].

(* the documented meaning: a mode written on one parameter carries over until changed (initially BYVAL);
   a parameter without its own type takes the type of the next parameter that has one *)
Fixpoint carry (cur : bool) (ps : list pspec) : list bool :=
  match ps with
  | [] => []
  | (m, _) :: r => let c := match m with MNone => cur | MRef => true | MVal => false end in c :: carry c r
  end.
Fixpoint group_types (ps : list pspec) (i : nat) : list (option nat) :=
  match ps with
  | [] => []
  | (_, typed) :: r =>
    let rest := group_types r (S i) in
    (if typed then Some i else match rest with t :: _ => t | [] => None end) :: rest
  end.

Definition well_formed_list (ps : list pspec) : bool :=
  match rev ps with (_, true) :: _ => true | [] => true | _ => false end.

Definition check_params (ped : bool) (ps : list pspec) : bool :=
  match parse_paramlist ped 400 (mkPst (param_tokens ps) []) with
  | POk l _ =>
    let names := map (fun x => fst (fst x)) l in
    let types := map (fun x => tval (snd (fst x))) l in
    let modes := map snd l in
    (Nat.eqb (List.length l) (List.length ps)) &&
    (forallb (fun p => str_eqb (fst p) (snd p)) (combine names (map (ident_n "p") (seq 0 (List.length ps))))) &&
    (forallb (fun p => Bool.eqb (fst p) (snd p)) (combine modes (carry false ps))) &&
    (forallb (fun p => match snd p with Some i => str_eqb (fst p) (ident_n "T" i) | None => false end) (combine types (group_types ps 0)))
  | _ => false
  end.

Definition all_pspec : list pspec := [(MNone, true); (MRef, true); (MVal, true); (MNone, false); (MRef, false); (MVal, false)].
Fixpoint lists_upto (n : nat) : list (list pspec) :=
  match n with
  | O => [[]]
  | S k => let prev := lists_upto k in prev ++ flat_map (fun l => map (fun x => x :: l) all_pspec) (filter (fun l => Nat.eqb (List.length l) k) prev)
  end.

Lemma sticky_sweep :
  forallb (fun ps => if well_formed_list ps then check_params false ps && check_params true ps else true) (lists_upto 4) = true.
Proof. vm_compute. reflexivity. Qed.

Definition sweep_pred (ps : list pspec) : bool :=
  if well_formed_list ps then check_params false ps && check_params true ps else true.

Lemma sticky_modes ps ped : In ps (lists_upto 4) -> well_formed_list ps = true -> check_params ped ps = true.
Proof.
  intros Hin Hwf.
  pose proof (proj1 (forallb_forall sweep_pred (lists_upto 4)) sticky_sweep ps Hin) as S.
  unfold sweep_pred in S. rewrite Hwf in S. apply andb_true_iff in S. destruct S as [S1 S2].
  destruct ped; assumption.
Qed.
