(* Lemmas_PedParser.v — --pedantic only rejects, parser part: run with the option the parser either fails
   with a pedantic error or returns exactly what it returns without it (AST, remaining tokens, warnings). *)
From PE2 Require Import Parser.
Local Open Scope Z_scope.

Definition pres_rel {A} (x y : pres A) : Prop := x = y \/ exists t s, x = PFail LexPedantic t s.
Definition PRel {A} (m1 m2 : P A) : Prop := forall s, pres_rel (m1 s) (m2 s).

Lemma PRel_refl {A} (m : P A) : PRel m m.
Proof. intros s. left. reflexivity. Qed.

Lemma pres_rel_bind {A B} (m1 m2 : P A) (k1 k2 : A -> P B) s :
  PRel m1 m2 -> (forall a, PRel (k1 a) (k2 a)) -> pres_rel (pbind m1 k1 s) (pbind m2 k2 s).
Proof.
  intros Hm Hk. unfold pbind. destruct (Hm s) as [E|[t [s' E]]].
  - rewrite E. destruct (m2 s) as [a s1|k t s1|]; [apply Hk|left; reflexivity|left; reflexivity].
  - rewrite E. right. eauto.
Qed.
Lemma PRel_bind {A B} (m1 m2 : P A) (k1 k2 : A -> P B) :
  PRel m1 m2 -> (forall a, PRel (k1 a) (k2 a)) -> PRel (pbind m1 k1) (pbind m2 k2).
Proof. intros Hm Hk s. apply pres_rel_bind; assumption. Qed.

Lemma pres_rel_binloop n isop (sub1 sub2 : P node) mk : PRel sub1 sub2 ->
  forall lft s, pres_rel (binloop n isop sub1 mk lft s) (binloop n isop sub2 mk lft s).
Proof.
  intros Hs. induction n as [|k IH]; intros lft s; cbn [binloop]; [left; reflexivity|].
  destruct (isop (tt (cur s))); [|left; reflexivity].
  destruct (Hs (adv s)) as [E|[t [s' E]]].
  - rewrite E. destruct (sub2 (adv s)) as [r s1|kd t s1|]; [apply IH|left; reflexivity|left; reflexivity].
  - rewrite E. right. eauto.
Qed.

Record prs_rel (x y : prs) : Prop := mkPrsRel {
  r_fuel : pr_fuel x = pr_fuel y;
  r_parse_eval : PRel (pr_parse_eval x) (pr_parse_eval y);
  r_parse_logical : PRel (pr_parse_logical x) (pr_parse_logical y);
  r_parse_comparison : PRel (pr_parse_comparison x) (pr_parse_comparison y);
  r_parse_strexpr : PRel (pr_parse_strexpr x) (pr_parse_strexpr y);
  r_parse_arith : PRel (pr_parse_arith x) (pr_parse_arith y);
  r_parse_term : PRel (pr_parse_term x) (pr_parse_term y);
  r_parse_factor : PRel (pr_parse_factor x) (pr_parse_factor y);
  r_parse_atom : PRel (pr_parse_atom x) (pr_parse_atom y);
  r_parse_moddiv : PRel (pr_parse_moddiv x) (pr_parse_moddiv y);
  r_parse_cast : PRel (pr_parse_cast x) (pr_parse_cast y);
  r_parse_args : forall (acc : list node), PRel (pr_parse_args x acc) (pr_parse_args y acc);
  r_parse_arglist : PRel (pr_parse_arglist x) (pr_parse_arglist y);
  r_parse_fncall : PRel (pr_parse_fncall x) (pr_parse_fncall y);
  r_parse_indices : forall (acc : list node), PRel (pr_parse_indices x acc) (pr_parse_indices y acc);
  r_parse_resolver_tail : forall (r : resolver), PRel (pr_parse_resolver_tail x r) (pr_parse_resolver_tail y r);
  r_parse_resolver : PRel (pr_parse_resolver x) (pr_parse_resolver y);
  r_parse_ids : forall (acc : list token), PRel (pr_parse_ids x acc) (pr_parse_ids y acc);
  r_parse_bounds : forall (acc : list node), PRel (pr_parse_bounds x acc) (pr_parse_bounds y acc);
  r_parse_declare : PRel (pr_parse_declare x) (pr_parse_declare y);
  r_parse_const : PRel (pr_parse_const x) (pr_parse_const y);
  r_parse_enum_vals : forall (acc : list str), PRel (pr_parse_enum_vals x acc) (pr_parse_enum_vals y acc);
  r_parse_comp_body : forall (acc : list node), PRel (pr_parse_comp_body x acc) (pr_parse_comp_body y acc);
  r_parse_type : PRel (pr_parse_type x) (pr_parse_type y);
  r_parse_if_tail : forall (acc : list (option node * list node)), PRel (pr_parse_if_tail x acc) (pr_parse_if_tail y acc);
  r_parse_if : PRel (pr_parse_if x) (pr_parse_if y);
  r_parse_case_clauses : forall (acc : list casecomp), PRel (pr_parse_case_clauses x acc) (pr_parse_case_clauses y acc);
  r_parse_case : PRel (pr_parse_case x) (pr_parse_case y);
  r_parse_while : PRel (pr_parse_while x) (pr_parse_while y);
  r_parse_repeat : PRel (pr_parse_repeat x) (pr_parse_repeat y);
  r_parse_for : PRel (pr_parse_for x) (pr_parse_for y);
  r_parse_params : forall (a : pacc), PRel (pr_parse_params x a) (pr_parse_params y a);
  r_parse_paramlist : PRel (pr_parse_paramlist x) (pr_parse_paramlist y);
  r_parse_procedure : PRel (pr_parse_procedure x) (pr_parse_procedure y);
  r_parse_function : PRel (pr_parse_function x) (pr_parse_function y);
  r_parse_call : PRel (pr_parse_call x) (pr_parse_call y);
  r_parse_output_tail : forall (acc : list node), PRel (pr_parse_output_tail x acc) (pr_parse_output_tail y acc);
  r_parse_statement : PRel (pr_parse_statement x) (pr_parse_statement y);
  r_parse_block_loop : forall (bt : btype) (acc : list node), PRel (pr_parse_block_loop x bt acc) (pr_parse_block_loop y bt acc);
  r_parse_block : forall (bt : btype), PRel (pr_parse_block x bt) (pr_parse_block y bt) }.

Section Bodies.
Variables x y : prs.
Hypothesis Hrel : prs_rel x y.

Ltac hyp :=
  first [apply (r_parse_eval x y Hrel)
        | apply (r_parse_logical x y Hrel)
        | apply (r_parse_comparison x y Hrel)
        | apply (r_parse_strexpr x y Hrel)
        | apply (r_parse_arith x y Hrel)
        | apply (r_parse_term x y Hrel)
        | apply (r_parse_factor x y Hrel)
        | apply (r_parse_atom x y Hrel)
        | apply (r_parse_moddiv x y Hrel)
        | apply (r_parse_cast x y Hrel)
        | apply (r_parse_args x y Hrel)
        | apply (r_parse_arglist x y Hrel)
        | apply (r_parse_fncall x y Hrel)
        | apply (r_parse_indices x y Hrel)
        | apply (r_parse_resolver_tail x y Hrel)
        | apply (r_parse_resolver x y Hrel)
        | apply (r_parse_ids x y Hrel)
        | apply (r_parse_bounds x y Hrel)
        | apply (r_parse_declare x y Hrel)
        | apply (r_parse_const x y Hrel)
        | apply (r_parse_enum_vals x y Hrel)
        | apply (r_parse_comp_body x y Hrel)
        | apply (r_parse_type x y Hrel)
        | apply (r_parse_if_tail x y Hrel)
        | apply (r_parse_if x y Hrel)
        | apply (r_parse_case_clauses x y Hrel)
        | apply (r_parse_case x y Hrel)
        | apply (r_parse_while x y Hrel)
        | apply (r_parse_repeat x y Hrel)
        | apply (r_parse_for x y Hrel)
        | apply (r_parse_params x y Hrel)
        | apply (r_parse_paramlist x y Hrel)
        | apply (r_parse_procedure x y Hrel)
        | apply (r_parse_function x y Hrel)
        | apply (r_parse_call x y Hrel)
        | apply (r_parse_output_tail x y Hrel)
        | apply (r_parse_statement x y Hrel)
        | apply (r_parse_block_loop x y Hrel)
        | apply (r_parse_block x y Hrel) ].

Ltac ps :=
  repeat first
    [ match goal with |- pres_rel ?x ?y => constr_eq x y; left; reflexivity end
    | match goal with |- PRel ?x ?y => constr_eq x y; apply PRel_refl end
    | match goal with |- pres_rel (PFail LexPedantic _ _) _ => right; eexists; eexists; reflexivity end
    | match goal with |- pres_rel (pped _ _) _ => right; eexists; eexists; reflexivity end
    | hyp
    | match goal with
      | |- pres_rel (pbind _ _ _) (pbind _ _ _) => apply pres_rel_bind; [ | intros ? ]
      | |- PRel (pbind _ _) (pbind _ _) => apply PRel_bind; [ | intros ? ]
      | |- pres_rel (binloop _ _ _ _ _ _) (binloop _ _ _ _ _ _) => apply pres_rel_binloop
      | |- pres_rel (if ?c then _ else _) (if ?c then _ else _) => destruct c
      | |- PRel (if ?c then _ else _) (if ?c then _ else _) => destruct c
      | |- pres_rel (match ?x with _ => _ end) (match ?x with _ => _ end) => destruct x
      | |- PRel (match ?x with _ => _ end) (match ?x with _ => _ end) => destruct x
      | |- pres_rel (match ?x with _ => _ end _) (match ?x with _ => _ end _) => destruct x
      | |- PRel _ _ => intros ?
      end ].

Lemma parse_eval_body_rel : PRel (parse_eval_body x) (parse_eval_body y).
Proof. unfold parse_eval_body; rewrite <- ?(r_fuel x y Hrel); cbv zeta; ps. Qed.

Lemma parse_logical_body_rel : PRel (parse_logical_body x) (parse_logical_body y).
Proof. unfold parse_logical_body; rewrite <- ?(r_fuel x y Hrel); cbv zeta; ps. Qed.

Lemma parse_comparison_body_rel : PRel (parse_comparison_body x) (parse_comparison_body y).
Proof. unfold parse_comparison_body; rewrite <- ?(r_fuel x y Hrel); cbv zeta; ps. Qed.

Lemma parse_strexpr_body_rel : PRel (parse_strexpr_body x) (parse_strexpr_body y).
Proof. unfold parse_strexpr_body; rewrite <- ?(r_fuel x y Hrel); cbv zeta; ps. Qed.

Lemma parse_arith_body_rel : PRel (parse_arith_body x) (parse_arith_body y).
Proof. unfold parse_arith_body; rewrite <- ?(r_fuel x y Hrel); cbv zeta; ps. Qed.

Lemma parse_term_body_rel : PRel (parse_term_body x) (parse_term_body y).
Proof. unfold parse_term_body; rewrite <- ?(r_fuel x y Hrel); cbv zeta; ps. Qed.

Lemma parse_factor_body_rel : PRel (parse_factor_body x) (parse_factor_body y).
Proof. unfold parse_factor_body; rewrite <- ?(r_fuel x y Hrel); cbv zeta; ps. Qed.

Lemma parse_atom_body_rel : PRel (parse_atom_body x) (parse_atom_body y).
Proof. unfold parse_atom_body; rewrite <- ?(r_fuel x y Hrel); cbv zeta; ps. Qed.

Lemma parse_moddiv_body_rel : PRel (parse_moddiv_body x) (parse_moddiv_body y).
Proof. unfold parse_moddiv_body; rewrite <- ?(r_fuel x y Hrel); cbv zeta; ps. Qed.

Lemma parse_cast_body_rel : PRel (parse_cast_body true x) (parse_cast_body false y).
Proof. unfold parse_cast_body; rewrite <- ?(r_fuel x y Hrel); cbv zeta; ps. Qed.

Lemma parse_args_body_rel (acc : list node) : PRel (parse_args_body x acc) (parse_args_body y acc).
Proof. unfold parse_args_body; rewrite <- ?(r_fuel x y Hrel); cbv zeta; ps. Qed.

Lemma parse_arglist_body_rel : PRel (parse_arglist_body x) (parse_arglist_body y).
Proof. unfold parse_arglist_body; rewrite <- ?(r_fuel x y Hrel); cbv zeta; ps. Qed.

Lemma parse_fncall_body_rel : PRel (parse_fncall_body x) (parse_fncall_body y).
Proof. unfold parse_fncall_body; rewrite <- ?(r_fuel x y Hrel); cbv zeta; ps. Qed.

Lemma parse_indices_body_rel (acc : list node) : PRel (parse_indices_body x acc) (parse_indices_body y acc).
Proof. unfold parse_indices_body; rewrite <- ?(r_fuel x y Hrel); cbv zeta; ps. Qed.

Lemma parse_resolver_tail_body_rel (r : resolver) : PRel (parse_resolver_tail_body x r) (parse_resolver_tail_body y r).
Proof. unfold parse_resolver_tail_body; rewrite <- ?(r_fuel x y Hrel); cbv zeta; ps. Qed.

Lemma parse_resolver_body_rel : PRel (parse_resolver_body x) (parse_resolver_body y).
Proof. unfold parse_resolver_body; rewrite <- ?(r_fuel x y Hrel); cbv zeta; ps. Qed.

Lemma parse_ids_body_rel (acc : list token) : PRel (parse_ids_body x acc) (parse_ids_body y acc).
Proof. unfold parse_ids_body; rewrite <- ?(r_fuel x y Hrel); cbv zeta; ps. Qed.

Lemma parse_bounds_body_rel (acc : list node) : PRel (parse_bounds_body x acc) (parse_bounds_body y acc).
Proof. unfold parse_bounds_body; rewrite <- ?(r_fuel x y Hrel); cbv zeta; ps. Qed.

Lemma parse_declare_body_rel : PRel (parse_declare_body x) (parse_declare_body y).
Proof. unfold parse_declare_body; rewrite <- ?(r_fuel x y Hrel); cbv zeta; ps. Qed.

Lemma parse_const_body_rel : PRel (parse_const_body x) (parse_const_body y).
Proof. unfold parse_const_body; rewrite <- ?(r_fuel x y Hrel); cbv zeta; ps. Qed.

Lemma parse_enum_vals_body_rel (acc : list str) : PRel (parse_enum_vals_body x acc) (parse_enum_vals_body y acc).
Proof. unfold parse_enum_vals_body; rewrite <- ?(r_fuel x y Hrel); cbv zeta; ps. Qed.

Lemma parse_comp_body_body_rel (acc : list node) : PRel (parse_comp_body_body x acc) (parse_comp_body_body y acc).
Proof. unfold parse_comp_body_body; rewrite <- ?(r_fuel x y Hrel); cbv zeta; ps. Qed.

Lemma parse_type_body_rel : PRel (parse_type_body x) (parse_type_body y).
Proof. unfold parse_type_body; rewrite <- ?(r_fuel x y Hrel); cbv zeta; ps. Qed.

Lemma parse_if_tail_body_rel (acc : list (option node * list node)) : PRel (parse_if_tail_body true x acc) (parse_if_tail_body false y acc).
Proof. unfold parse_if_tail_body; rewrite <- ?(r_fuel x y Hrel); cbv zeta; ps. Qed.

Lemma parse_if_body_rel : PRel (parse_if_body x) (parse_if_body y).
Proof. unfold parse_if_body; rewrite <- ?(r_fuel x y Hrel); cbv zeta; ps. Qed.

Lemma parse_case_clauses_body_rel (acc : list casecomp) : PRel (parse_case_clauses_body x acc) (parse_case_clauses_body y acc).
Proof. unfold parse_case_clauses_body; rewrite <- ?(r_fuel x y Hrel); cbv zeta; ps. Qed.

Lemma parse_case_body_rel : PRel (parse_case_body x) (parse_case_body y).
Proof. unfold parse_case_body; rewrite <- ?(r_fuel x y Hrel); cbv zeta; ps. Qed.

Lemma parse_while_body_rel : PRel (parse_while_body x) (parse_while_body y).
Proof. unfold parse_while_body; rewrite <- ?(r_fuel x y Hrel); cbv zeta; ps. Qed.

Lemma parse_repeat_body_rel : PRel (parse_repeat_body x) (parse_repeat_body y).
Proof. unfold parse_repeat_body; rewrite <- ?(r_fuel x y Hrel); cbv zeta; ps. Qed.

Lemma parse_for_body_rel : PRel (parse_for_body x) (parse_for_body y).
Proof. unfold parse_for_body; rewrite <- ?(r_fuel x y Hrel); cbv zeta; ps. Qed.

Lemma parse_params_body_rel (a : pacc) : PRel (parse_params_body x a) (parse_params_body y a).
Proof. unfold parse_params_body; rewrite <- ?(r_fuel x y Hrel); cbv zeta; ps. Qed.

Lemma parse_paramlist_body_rel : PRel (parse_paramlist_body x) (parse_paramlist_body y).
Proof. unfold parse_paramlist_body; rewrite <- ?(r_fuel x y Hrel); cbv zeta; ps. Qed.

Lemma parse_procedure_body_rel : PRel (parse_procedure_body x) (parse_procedure_body y).
Proof. unfold parse_procedure_body; rewrite <- ?(r_fuel x y Hrel); cbv zeta; ps. Qed.

Lemma parse_function_body_rel : PRel (parse_function_body x) (parse_function_body y).
Proof. unfold parse_function_body; rewrite <- ?(r_fuel x y Hrel); cbv zeta; ps. Qed.

Lemma parse_call_body_rel : PRel (parse_call_body x) (parse_call_body y).
Proof. unfold parse_call_body; rewrite <- ?(r_fuel x y Hrel); cbv zeta; ps. Qed.

Lemma parse_output_tail_body_rel (acc : list node) : PRel (parse_output_tail_body x acc) (parse_output_tail_body y acc).
Proof. unfold parse_output_tail_body; rewrite <- ?(r_fuel x y Hrel); cbv zeta; ps. Qed.

Lemma parse_statement_body_rel : PRel (parse_statement_body x) (parse_statement_body y).
Proof. unfold parse_statement_body; rewrite <- ?(r_fuel x y Hrel); cbv zeta; ps. Qed.

Lemma parse_block_loop_body_rel (bt : btype) (acc : list node) : PRel (parse_block_loop_body x bt acc) (parse_block_loop_body y bt acc).
Proof. unfold parse_block_loop_body; rewrite <- ?(r_fuel x y Hrel); cbv zeta; ps. Qed.

Lemma parse_block_body_rel (bt : btype) : PRel (parse_block_body x bt) (parse_block_body y bt).
Proof. unfold parse_block_body; rewrite <- ?(r_fuel x y Hrel); cbv zeta; ps. Qed.

End Bodies.

Lemma prs_step_rel a b : prs_rel a b -> prs_rel (prs_step true a) (prs_step false b).
Proof.
  intros H. constructor; cbn [prs_step pr_fuel pr_parse_eval pr_parse_logical pr_parse_comparison pr_parse_strexpr pr_parse_arith pr_parse_term pr_parse_factor pr_parse_atom pr_parse_moddiv pr_parse_cast pr_parse_args pr_parse_arglist pr_parse_fncall pr_parse_indices pr_parse_resolver_tail pr_parse_resolver pr_parse_ids pr_parse_bounds pr_parse_declare pr_parse_const pr_parse_enum_vals pr_parse_comp_body pr_parse_type pr_parse_if_tail pr_parse_if pr_parse_case_clauses pr_parse_case pr_parse_while pr_parse_repeat pr_parse_for pr_parse_params pr_parse_paramlist pr_parse_procedure pr_parse_function pr_parse_call pr_parse_output_tail pr_parse_statement pr_parse_block_loop pr_parse_block].
  - rewrite (r_fuel a b H); reflexivity.
  - intros; apply parse_eval_body_rel; exact H.
  - intros; apply parse_logical_body_rel; exact H.
  - intros; apply parse_comparison_body_rel; exact H.
  - intros; apply parse_strexpr_body_rel; exact H.
  - intros; apply parse_arith_body_rel; exact H.
  - intros; apply parse_term_body_rel; exact H.
  - intros; apply parse_factor_body_rel; exact H.
  - intros; apply parse_atom_body_rel; exact H.
  - intros; apply parse_moddiv_body_rel; exact H.
  - intros; apply parse_cast_body_rel; exact H.
  - intros; apply parse_args_body_rel; exact H.
  - intros; apply parse_arglist_body_rel; exact H.
  - intros; apply parse_fncall_body_rel; exact H.
  - intros; apply parse_indices_body_rel; exact H.
  - intros; apply parse_resolver_tail_body_rel; exact H.
  - intros; apply parse_resolver_body_rel; exact H.
  - intros; apply parse_ids_body_rel; exact H.
  - intros; apply parse_bounds_body_rel; exact H.
  - intros; apply parse_declare_body_rel; exact H.
  - intros; apply parse_const_body_rel; exact H.
  - intros; apply parse_enum_vals_body_rel; exact H.
  - intros; apply parse_comp_body_body_rel; exact H.
  - intros; apply parse_type_body_rel; exact H.
  - intros; apply parse_if_tail_body_rel; exact H.
  - intros; apply parse_if_body_rel; exact H.
  - intros; apply parse_case_clauses_body_rel; exact H.
  - intros; apply parse_case_body_rel; exact H.
  - intros; apply parse_while_body_rel; exact H.
  - intros; apply parse_repeat_body_rel; exact H.
  - intros; apply parse_for_body_rel; exact H.
  - intros; apply parse_params_body_rel; exact H.
  - intros; apply parse_paramlist_body_rel; exact H.
  - intros; apply parse_procedure_body_rel; exact H.
  - intros; apply parse_function_body_rel; exact H.
  - intros; apply parse_call_body_rel; exact H.
  - intros; apply parse_output_tail_body_rel; exact H.
  - intros; apply parse_statement_body_rel; exact H.
  - intros; apply parse_block_loop_body_rel; exact H.
  - intros; apply parse_block_body_rel; exact H.
Qed.

Lemma prs_at_rel fuel : prs_rel (prs_at true fuel) (prs_at false fuel).
Proof.
  induction fuel as [|f IH]; cbn [prs_at]; [|apply prs_step_rel; exact IH].
  constructor; cbn; intros; try reflexivity; apply PRel_refl.
Qed.

Theorem parse_block_ped_only_rejects fuel bt : PRel (parse_block true fuel bt) (parse_block false fuel bt).
Proof. unfold parse_block. apply (r_parse_block _ _ (prs_at_rel fuel)). Qed.

Theorem parse_program_ped_only_rejects ts : pres_rel (parse_program true ts) (parse_program false ts).
Proof. unfold parse_program. apply pres_rel_bind; [apply parse_block_ped_only_rejects|]. intros b0. apply PRel_refl. Qed.
