(* Lemmas_Traceback.v -- what a runtime diagnostic says: the line and column of the token it was raised at, as its position and as the
   first frame of the traceback (named after the context the failing statement ran in), followed by one frame for every ancestor
   context that is switched out at a call -- its name and the line and column of that call -- innermost first, up to the program. *)
From PE2 Require Import Eval Run Lemmas_Copy Lemmas_Out Lemmas_Scope Lemmas_ConstLogic.
Local Open Scope N_scope.

(* the frames of the ancestors, read off the context table *)
Fixpoint frames (fuel : nat) (m : nmap ctx) (id : option N) : option (list (str * Z * Z)) :=
  match fuel with
  | O => Some []
  | S f => match id with
           | None => Some []
           | Some i => match nm_get i m with
                       | None => None
                       | Some c => match frames f m (x_parent c) with
                                   | None => None
                                   | Some rest => Some (match x_switch c with Some (l, k) => (x_name c, l, k) :: rest | None => rest end)
                                   end
                       end
           end
  end.

Lemma trace_aux_frames fuel : forall id s l, frames fuel (s_ctxs s) id = Some l -> trace_aux fuel id s = (Ok l, s).
Proof.
  induction fuel as [|f IH]; intros id s l H; cbn [frames trace_aux] in *; [inversion H; reflexivity|].
  destruct id as [i|]; [|inversion H; reflexivity].
  unfold bind at 1, get_ctx at 1. destruct (nm_get i (s_ctxs s)) as [c|]; [|discriminate H]. cbn [fst snd].
  destruct (frames f (s_ctxs s) (x_parent c)) as [rest|] eqn:E; [|discriminate H]. unfold bind at 1. rewrite (IH _ _ _ E). cbn [fst snd]. inversion H; reflexivity.
Qed.

Theorem runtime_error_names_the_failing_token {A} t c s cx rest :
  nm_get c (s_ctxs s) = Some cx -> frames (S (x_depth cx)) (s_ctxs s) (x_parent cx) = Some rest ->
  @rt_error A t c s = (Fail (FErr (mkDiag DRuntime (tline t) (tcol t) EOther ((x_name cx, tline t, tcol t) :: rest))), s).
Proof.
  intros Ec Hf. unfold rt_error, runtime_error_cls. unfold bind at 1, get_ctx at 1. rewrite Ec. cbn [fst snd].
  unfold bind at 1. rewrite (trace_aux_frames _ _ _ _ Hf). cbn [fst snd ret]. reflexivity.
Qed.

(* e.g. a failing statement in procedure Q called from P called from the program: three frames, innermost first *)
Example three_frames : forall t s q p root cq cp croot lp kp lr kr,
  nm_get q (s_ctxs s) = Some cq -> nm_get p (s_ctxs s) = Some cp -> nm_get root (s_ctxs s) = Some croot ->
  x_parent cq = Some p -> x_parent cp = Some root -> x_parent croot = None ->
  x_switch cp = Some (lp, kp) -> x_switch croot = Some (lr, kr) -> (2 <= x_depth cq)%nat ->
  @rt_error unit t q s = (Fail (FErr (mkDiag DRuntime (tline t) (tcol t) EOther
                                 [(x_name cq, tline t, tcol t); (x_name cp, lp, kp); (x_name croot, lr, kr)])), s).
Proof.
  intros t s q p root cq cp croot lp kp lr kr Eq Ep Er Pq Pp Pr Sp Sr Hd.
  apply runtime_error_names_the_failing_token; [exact Eq|]. rewrite Pq.
  destruct (x_depth cq) as [|[|d]]; try lia. cbn [frames]. rewrite Ep, Pp. cbn [frames]. rewrite Er, Pr.
  destruct d; cbn [frames]; rewrite Sp, Sr; reflexivity.
Qed.
