(* Lemmas_OpStates.v -- how the evaluator combines operands, for every pair of operand expressions, state and context: binary
   arithmetic and comparison evaluate the left operand, then the right one in the state the left one left, then apply the operator
   to the two results (each operand exactly once); AND with a left operand that is BOOLEAN FALSE yields FALSE without evaluating the
   right operand at all. *)
From PE2 Require Import Eval Run Lemmas_Copy Lemmas_Out Lemmas_Scope Lemmas_ConstLogic.
Local Open Scope N_scope.

Section Ops.
Variables (ped repl : bool) (lim : limits) (fuel : nat).
Notation ev := (ev_eval (evs_at ped repl lim (S fuel))).
Notation ev' := (ev_eval (evs_at ped repl lim fuel)).

Theorem arithmetic_evaluates_left_then_right t l r c :
  ev (NArith t l r) c = (lr <- ev' l c ;; rr <- ev' r c ;; eval_arith t c lr rr).
Proof. reflexivity. Qed.

Theorem comparison_evaluates_left_then_right t l r c :
  ev (NCmp t l r) c = (lr <- ev' l c ;; rr <- ev' r c ;; eval_cmp t c lr rr).
Proof. reflexivity. Qed.

Theorem and_with_a_false_left_operand_skips_the_right_one t l r c s s1 lr :
  tt t = TAND -> ev' l c s = (Ok lr, s1) -> dk (r_type lr) = KBool -> r_val lr = Some (PBool false) ->
  ev (NLogic t l r) c s = (Ok (res_of KBool (PBool false)), s1).
Proof.
  intros Ht He Hk Hv. cbn [evs_at evs_step ev_eval]. unfold eval_body. unfold bind at 1. rewrite He. cbn [fst snd]. cbv zeta.
  rewrite Ht. change (tt_eqb TAND TAND) with true. unfold dt_is. rewrite Hk. change (dk_eqb KBool KBool) with true. cbn [andb].
  unfold bind at 1. unfold bind at 1, as_bool at 1. rewrite Hv. cbn [ret fst snd negb]. reflexivity.
Qed.
End Ops.
