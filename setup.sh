#!/bin/sh
# Builds the framework from files on disk only (offline): Coq development (full .vo build),
# extracted OCaml model + driver, and the two implementation builds of /repo's working tree.
set -e
cd "$(dirname "$0")"
cd coq
coq_makefile -f _CoqProject $(ls *.v | sort) -o Makefile >/dev/null
ls *.v | sort > .filelist
timeout 3000 make -j16 >/dev/null 2>make.err || { tail -40 make.err; exit 1; }
cd ..
sh ocaml/build.sh
python3 - <<'PY'
import sys
sys.path.insert(0, 'harness')
import pe2
pe2.build_impl('normal'); pe2.build_impl('asan'); pe2.build_model()
print('setup ok')
PY
